import numpy as np, warnings
from glotaran.optimization.optimize import optimize
from glotaran.testing.simulated_data.sequential_spectral_decay import SCHEME
import glotaran.optimization.optimization_group as og
orig = og.OptimizationGroup.calculate
count = {"n": 0, "fail_at": None}
def calc(self, parameters):
    count["n"] += 1
    if count["fail_at"] is not None and count["n"] == count["fail_at"]:
        raise RuntimeError(f"injected fault at evaluation {count['n']}")
    return orig(self, parameters)
og.OptimizationGroup.calculate = calc
import copy
s = SCHEME
s.maximum_number_function_evaluations = 3
with warnings.catch_warnings():
    warnings.simplefilter("ignore")
    r = optimize(s, verbose=False, raise_exception=False)
total = count["n"]; print("evaluations in fault-free run:", total)
for k in range(1, total + 1):
    count["n"] = 0; count["fail_at"] = k
    try:
        with warnings.catch_warnings():
            warnings.simplefilter("ignore")
            r = optimize(s, verbose=False, raise_exception=False)
        print(k, "Result success=", r.success)
    except Exception as e:
        print(k, "RAISED", type(e).__name__, e)
