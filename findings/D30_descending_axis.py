import numpy as np, xarray as xr, warnings
warnings.simplefilter("ignore")
from glotaran.model import Model
from glotaran.parameter import Parameters
from glotaran.project import Scheme
from glotaran.optimization.optimize import optimize
from glotaran.simulation import simulate
from glotaran.builtin.megacomplexes.decay import DecayParallelMegacomplex
model = Model.create_class_from_megacomplexes([DecayParallelMegacomplex])(**{
    "megacomplex": {"m1": {"type": "decay-parallel", "compartments": ["s1", "s2"], "rates": ["k.1", "k.2"]}},
    "dataset": {"d1": {"megacomplex": ["m1"]}, "d2": {"megacomplex": ["m1"]}},
})
params = Parameters.from_dict({"k": [0.5, 0.05]})
t = np.arange(0, 20, 0.5)
def run(g1, g2):
    data = {}
    for lab, g, amp in (("d1", g1, 1.0), ("d2", g2, 2.0)):
        clp = xr.DataArray([[gv, 10 * gv] for gv in g], coords=[("spectral", g), ("clp_label", ["s1", "s2"])])
        data[lab] = simulate(model, lab, params, {"time": t, "spectral": np.asarray(g, float)}, clp)
    s = Scheme(model=model, parameters=params, data=data, maximum_number_function_evaluations=1, clp_link_tolerance=0.0)
    s.model.dataset_groups  # default group
    r = optimize(s, verbose=False, raise_exception=True)
    out = {}
    for lab in ("d1", "d2"):
        c = r.data[lab].clp
        out[lab] = {float(g): [round(float(c.sel(spectral=g, clp_label=l)), 3) for l in ("s1", "s2")] for g in c.spectral.values}
    return out, r.cost
print("ascending :", run([1., 2., 3.], [2., 3., 4.]))
print("descending:", run([3., 2., 1.], [4., 3., 2.]))
