import warnings, tempfile, os, shutil
warnings.simplefilter("ignore")
from pathlib import Path
from glotaran.io import save_scheme, load_scheme, save_result, load_result, save_model, save_parameters, save_dataset
from glotaran.optimization.optimize import optimize
from glotaran.testing.simulated_data.sequential_spectral_decay import SCHEME
d = Path(tempfile.mkdtemp())
proj = d / "proj"; proj.mkdir()
s = SCHEME; s.maximum_number_function_evaluations = 1
save_model(s.model, proj / "m.yml"); save_parameters(s.parameters, proj / "p.csv")
for k, v in s.data.items(): save_dataset(v, proj / f"{k}.nc")
save_scheme(s, proj / "s.yml")
s2 = load_scheme(proj / "s.yml")
r = optimize(s2, verbose=False)
out = d / "res"
save_result(r, out / "result.yml")
print(open(out / "result.yml").read())
print(sorted(os.listdir(out)))
shutil.move(str(proj), str(d / "proj_moved"))
try:
    r2 = load_result(out / "result.yml"); print("loaded ok; scheme source:", r2.scheme.source_path)
except Exception as e:
    print("LOAD FAILED:", type(e).__name__, str(e)[:200])
