#!/bin/sh
# usage: [SEED_ROUND=2] seed_verify.sh <PID> <variant> [--suite]   verifies a seeded change in the scratch worktree /tmp/wt$SEED_ROUND/<PID>
# prints: demo_clean=<rc> demo_patched=<rc> suite=<summary>
pid=$1; v=$2; r=${SEED_ROUND:-}; wt=/tmp/wt$r/$pid; outroot=/tmp/seed_out$r; out=$outroot/$pid/$v
[ -d "$wt" ] || { echo "no worktree $wt"; exit 2; }
git -C $wt checkout -q -- . ; git -C $wt clean -fdq
cd $wt
PYTHONPATH=$wt timeout 600 /venv/bin/python $out/demo.py > $outroot/$pid/$v.clean.log 2>&1; rc0=$?
git -C $wt apply $out/patch.diff || { echo "patch does not apply"; exit 2; }
PYTHONPATH=$wt timeout 600 /venv/bin/python $out/demo.py > $outroot/$pid/$v.patched.log 2>&1; rc1=$?
suite="skipped"
if [ "$3" = "--suite" ]; then
  suite=$(PYTHONPATH=$wt /venv/bin/python -m pytest -q -p no:cacheprovider --timeout=900 --continue-on-collection-errors 2>&1 | tail -1)
fi
git -C $wt checkout -q -- . ; git -C $wt clean -fdq
echo "$pid/$v demo_clean=$rc0 demo_patched=$rc1 suite=$suite"
