#!/venv/bin/python
"""Regenerate MANIFEST.json from the rule registry (run from /verif)."""
import json
import os
import sys

here = os.path.dirname(os.path.dirname(os.path.abspath(__file__)))
sys.path.insert(0, here)
from glint.rules import RULE_DOC, RULES  # noqa: E402

props = [json.loads(l) for l in open(os.path.join(here, "properties.jsonl"))]
PENDING = "check not built yet in this session (static rules designed in DESIGN.md section 5; listed here until the rules are armed and self-validated)"
NA = {}
na_file = os.path.join(here, "tools", "not_applicable.json")
if os.path.exists(na_file):
    NA = json.load(open(na_file))

checks = []
na = []
for p in props:
    pid = p["id"]
    if pid in RULES:
        doc = RULE_DOC[pid]
        rules = doc.get("rules", {})
        checks.append({
            "property_id": pid,
            "quick_cmd": f"./check {pid} --tier quick",
            "thorough_cmd": f"./check {pid} --tier thorough",
            "evidence_file": f"/verif/evidence/{pid}.json",
            "replay_cmd_template": f"./check {pid} --replay {{path}}",
            "engine": "glint",
            "technique": doc.get("technique", "static analysis: repo-specific AST/CFG/dataflow rules (dominance, reaching-definition terms, ownership, index provenance)"),
            "level_claimed": {
                "category": "other",
                "text": (
                    "Static decision, from /repo's current source only, of the structural clauses of this property: "
                    + "; ".join(f"{k}: {v}" for k, v in rules.items())
                    + ". Each rule is a necessary condition of the stated behaviour and holds for all inputs at once because it is a fact about the code's shape; "
                    "value-level clauses are declined: " + "; ".join(doc.get("declined", [])) + "."
                ),
                "design_ref": f"DESIGN.md section 5, {pid}",
            },
            "level_note": "Trusted base: CPython semantics of the inspected constructs; numpy/scipy/xarray/LAPACK as documented; the frozen rule tables in glint/rules and their confirmation by reading. A pass means all listed structural obligations hold, not that behaviour was observed. "
            + " ".join(doc.get("assumptions", [])),
        })
    else:
        na.append({"property_id": pid, "reason": NA.get(pid, PENDING)})

m = {
    "version": 1,
    "setup_cmd": "/venv/bin/python -m compileall -q glint >/dev/null && PYTHONPATH=/verif /venv/bin/python -m glint.fixtures",
    "hooks": {
        "guard": "GLOTARAN_PYGLOTARAN_VERIF",
        "enable": "no hooks: the checks only read source text, nothing in /repo is instrumented",
        "baseline_off_cmd": "cd /repo && /venv/bin/python -m pytest -ra -q -p no:cacheprovider --timeout=900 --continue-on-collection-errors",
        "source_commits": [],
        "add_only": True,
    },
    "engines": [{
        "name": "glint",
        "path": "/verif/glint",
        "serves_properties": sorted(RULES),
        "kind_free_text": "stdlib-only static analyser written for this repository: source index with import/MRO resolution, statement CFG with dominators, reaching definitions with polynomial-normal-form terms, effect/ownership and index-provenance analyses; rules per property in glint/rules",
    }],
    "checks": checks,
    "not_applicable": na,
    "notes": "All checks are static (nothing under /repo is imported or run). exit 0 = all obligations hold (KNOWN-FINDING lines for listed findings), exit 1 = VIOLATION lines, exit 2 = ANALYSIS-ERROR (anchor vanished / rule cannot be evaluated; never a pass). Self-validation of the checker: `python -m glint.selftest` (mutants and silent twins on scratch copies).",
}
json.dump(m, open(os.path.join(here, "MANIFEST.json"), "w"), indent=1)
print(f"MANIFEST: {len(checks)} checks, {len(na)} not_applicable")
