#!/bin/sh
# run every check against every stored seeded change; writes /verif/seeded/RESULTS.tsv
cd /verif
out=seeded/RESULTS.tsv
echo "seed\tproperty\tcaught_by" > $out
for d in seeded/C*-*/; do
  s=$(basename $d); pid=${s%-*}
  res=$(tools/seed_checks.sh $d/patch.diff 2>&1 | awk '/^== /{p=$2; rc=$3} /^VIOLATION/{print p}' | sort -u | tr '\n' ' ')
  anal=$(tools/seed_checks.sh $d/patch.diff $pid 2>&1 | grep -c "^ANALYSIS-ERROR")
  [ -n "$res" ] || res="-"
  [ "$anal" = "0" ] || res="$res (analysis-error on $pid)"
  rules=$(tools/seed_checks.sh $d/patch.diff $pid 2>&1 | grep -E "^C[0-9]+-R[0-9]+ " | grep -v "nested-inside-protected" | awk '{print $1" "$2}' | sort -u | tr '\n' ';')
  echo "$s\t$pid\t$res\t$rules" >> $out
done
cat $out
