#!/bin/sh
# run every check against every stored seeded change (one application of the patch per seed);
# writes /verif/seeded/RESULTS.tsv: seed, property, exit code of the property's own check,
# rules of that check that reported, other checks that reported
cd /verif
out=seeded/RESULTS.tsv
printf "seed\tproperty\town_check_exit\town_rules_reporting\tother_checks_reporting\n" > $out
for d in seeded/C*-*/; do
  s=$(basename $d); pid=${s%-*}
  log=$(tools/seed_checks.sh $d/patch.diff 2>&1)
  own=$(echo "$log" | awk -v p=$pid '/^== /{cur=$2; if(cur==p){split($3,a,"="); print a[2]}}')
  rules=$(echo "$log" | awk -v p=$pid '/^== /{cur=$2} cur==p && /^C[0-9]+-R[0-9]+ /{print $1}' | sort -u | tr '\n' ' ')
  others=$(echo "$log" | awk -v p=$pid '/^== /{cur=$2} cur!=p && /^VIOLATION/{print cur}' | sort -u | tr '\n' ' ')
  printf "%s\t%s\t%s\t%s\t%s\n" "$s" "$pid" "$own" "${rules:--}" "${others:--}" >> $out
done
cat $out
