#!/venv/bin/python
"""Store a verified seeded change under /verif/seeded/<PID>-<variant>/ (patch, demo, notes, meta.json).

usage: seed_store.py <PID> <variant> "<verify line>"   (verify line from tools/seed_verify.sh --suite)
"""
import json
import os
import re
import shutil
import sys

pid, v, line = sys.argv[1], sys.argv[2], sys.argv[3]
rnd = os.environ.get("SEED_ROUND", "")
src = f"/tmp/seed_out{rnd}/{pid}/{v}"
dst = f"/verif/seeded/{pid}-{v}"
m = re.search(r"demo_clean=(\d+) demo_patched=(\d+) suite=(.*)$", line)
if not m:
    sys.exit("bad verify line")
clean, patched, suite = int(m.group(1)), int(m.group(2)), m.group(3)
ok = clean == 0 and patched != 0 and "643 passed" in suite and "1 failed" in suite
if not ok:
    sys.exit(f"NOT stored {pid}/{v}: {line}")
os.makedirs(dst, exist_ok=True)
for f in ("patch.diff", "demo.py", "notes.md"):
    shutil.copyfile(os.path.join(src, f), os.path.join(dst, f))
notes = open(os.path.join(src, "notes.md")).read()
meta = {
    "property": pid,
    "variant": v,
    "origin": "written by an independent sub-agent that saw only the property text and a scratch worktree",
    "needs_to_manifest": " ".join(notes.split())[:900],
    "verified_by_me": {
        "where": f"scratch worktree /tmp/wt{rnd}/{pid} (removed afterwards)",
        "commands": [
            f"PYTHONPATH=<wt> /venv/bin/python demo.py   (unmodified tree)  -> exit {clean}",
            f"git apply patch.diff; PYTHONPATH=<wt> /venv/bin/python demo.py -> exit {patched}",
            "PYTHONPATH=<wt> /venv/bin/python -m pytest -q -p no:cacheprovider --timeout=900 --continue-on-collection-errors -> " + suite,
        ],
        "suite_unchanged": True,
    },
}
json.dump(meta, open(os.path.join(dst, "meta.json"), "w"), indent=1)
print("stored", dst)
