#!/venv/bin/python
"""Regenerate glint/tables/alpha.json from /repo's current tree (run after confirming rules on it)."""
import json
import os
import sys

here = os.path.dirname(os.path.dirname(os.path.abspath(__file__)))
sys.path.insert(0, here)
os.environ["GLINT_NO_ALPHA"] = "1"
from glint import REPO_ROOT  # noqa: E402
from glint.alpha import TABLE, signature  # noqa: E402
from glint.index import Repo  # noqa: E402

repo = Repo(REPO_ROOT)
out = {}
for q, fi in sorted(repo.functions.items()):
    if fi.parent is not None:
        continue
    h, names = signature(fi.node)
    if names:
        out[q] = {"hash": h, "names": names}
json.dump(out, open(TABLE, "w"), indent=0, sort_keys=True)
print(f"alpha table: {len(out)} functions with locals")
