#!/bin/sh
# usage: seed_checks.sh <patch.diff> [Cxx ...]   applies the patch to /repo, runs the checks, always undoes it
patch=$1; shift
props="$@"; [ -n "$props" ] || props=$(/venv/bin/python -c "import json;print(' '.join(c['property_id'] for c in json.load(open('/verif/MANIFEST.json'))['checks']))")
cd /verif
git -C /repo diff --quiet || { echo "/repo is dirty"; exit 2; }
trap 'git -C /repo checkout -q -- .' EXIT INT TERM
git -C /repo apply "$patch" || { echo "patch does not apply to /repo"; exit 2; }
mkdir -p /tmp/seed_ev
for p in $props; do
  cp evidence/$p.json /tmp/seed_ev/$p.json 2>/dev/null
  out=$(./check $p 2>&1); rc=$?
  echo "== $p rc=$rc"
  echo "$out" | grep -E "^(C[0-9]+-R[0-9]+ |VIOLATION|ANALYSIS-ERROR|KNOWN)" | head -8
  cp /tmp/seed_ev/$p.json evidence/$p.json 2>/dev/null
done
