#!/bin/sh
# usage: seed_checks.sh <patch.diff> [Cxx ...]   applies the patch to /repo, runs the checks (in parallel), always undoes it
patch=$(readlink -f "$1"); shift
props="$@"; [ -n "$props" ] || props=$(/venv/bin/python -c "import json;print(' '.join(c['property_id'] for c in json.load(open('/verif/MANIFEST.json'))['checks']))")
cd /verif
git -C /repo diff --quiet || { echo "/repo is dirty"; exit 2; }
trap 'git -C /repo checkout -q -- .; git -C /verif checkout -q -- evidence 2>/dev/null' EXIT INT TERM
git -C /repo apply "$patch" || { echo "patch does not apply to /repo"; exit 2; }
out=$(mktemp -d)
echo $props | tr ' ' '\n' | xargs -P 10 -I{} sh -c "timeout 300 ./check {} > $out/{}.txt 2>&1; echo \$? > $out/{}.rc"
for p in $props; do
  rc=$(cat $out/$p.rc)
  echo "== $p rc=$rc"
  grep -E "^(C[0-9]+-R[0-9]+ |KNOWN)" $out/$p.txt | head -8
  grep -E "^(VIOLATION|ANALYSIS-ERROR)" $out/$p.txt | head -4
done
rm -rf $out
