"""A8 - named-axis shapes: a tiny abstract domain for ndarray layout.

Values
    ("arr", (t1, t2, ...))      n-d array whose axes carry the tags t_i
    ("list", t, elem)           python list with one ``elem`` per point of axis t
    ("size", t)                 integer equal to the length of axis t
    ("labels", t)               list of labels indexing axis t
    ("scalar",)                 plain number
    None                        unknown

A tag is a string ("M" model axis, "G" global axis, "C" clp, "K" global clp ...) or
("flat", (a, b)) for a row-major flattening of axes (a, b).

``ShapeEval`` evaluates expressions of one function; *sources* (accessor calls, parameters,
attributes) are given by a table and are the only trusted facts - each table is frozen in
the rule that uses it, with its reason.  Mismatches (reshape to sizes that do not carry the
flattened tags, DataArray dims that do not match the array's tags ...) are collected in
``problems``.
"""

from __future__ import annotations

import ast

from glint import lib
from glint.dataflow import Flow
from glint.index import norm

Shape = tuple | None


def arr(*tags) -> tuple:
    return ("arr", tuple(tags))


def flat(*tags) -> tuple:
    return ("flat", tuple(tags))


def show(s: Shape) -> str:
    if s is None:
        return "?"
    if s[0] == "arr":
        return "(" + ", ".join(show_tag(t) for t in s[1]) + ")"
    if s[0] == "list":
        return f"list[{show_tag(s[1])}] of {show(s[2])}"
    if s[0] == "size":
        return f"|{show_tag(s[1])}|"
    if s[0] == "labels":
        return f"labels[{show_tag(s[1])}]"
    return s[0]


def show_tag(t) -> str:
    if isinstance(t, tuple) and t and t[0] == "flat":
        return "flat(" + ",".join(show_tag(x) for x in t[1]) + ")"
    if isinstance(t, tuple) and t and t[0] == "prod":
        return "*".join(show_tag(x) for x in t[1])
    return str(t)


class ShapeEval:
    def __init__(self, fl: Flow, sources, loop_tags=None):
        """``sources(expr_node, text) -> Shape | None`` gives the trusted facts."""
        self.fl = fl
        self.sources = sources
        self.problems: list[tuple[ast.AST, str]] = []
        self.loop_tags = loop_tags or {}
        self._busy: set = set()

    def problem(self, node: ast.AST, msg: str) -> None:
        self.problems.append((node, msg))

    # ----------------------------------------------------------------- helpers
    def _size_tags(self, e: ast.AST, at) -> list | None:
        """Tags of a shape specification ``(a, b)`` / ``a, b`` given as size expressions."""
        elts = e.elts if isinstance(e, (ast.Tuple, ast.List)) else [e]
        out = []
        for x in elts:
            s = self.ev(x, at)
            if s is None or s[0] != "size":
                return None
            out.append(s[1])
        return out

    def loop_tag_of(self, loop: ast.For, at) -> object | None:
        """Axis tag a ``for`` loop ranges over."""
        it = loop.iter
        if getattr(loop, "_fake", False):
            loop = at  # a comprehension: its iterable is evaluated at the enclosing statement
        if isinstance(it, ast.Call) and norm(it.func) in ("range", "nb.prange", "numba.prange") and len(it.args) == 1:
            s = self.ev(it.args[0], loop)
            if s and s[0] == "size":
                return s[1]
        if isinstance(it, ast.Call) and norm(it.func) == "enumerate" and it.args:
            s = self.ev(it.args[0], loop)
            if s and s[0] == "arr" and len(s[1]) >= 1:
                return s[1][0]
            if s and s[0] in ("list", "labels"):
                return s[1]
        s = self.ev(it, loop)
        if s and s[0] == "arr" and len(s[1]) >= 1:
            return s[1][0]
        if s and s[0] in ("list", "labels"):
            return s[1]
        return None

    # -------------------------------------------------------------- evaluation
    def ev(self, e: ast.AST, at) -> Shape:
        src = self.sources(e, norm(e))
        if src is not None:
            return src
        if isinstance(e, ast.Constant):
            return ("scalar",) if isinstance(e.value, (int, float)) else None
        if isinstance(e, ast.Name):
            return self._name(e.id, at)
        if isinstance(e, ast.Attribute):
            if e.attr == "T":
                b = self.ev(e.value, at)
                if b and b[0] == "arr":
                    return ("arr", tuple(reversed(b[1])))
                return None
            if e.attr in ("data", "values", "real", "imag"):
                return self.ev(e.value, at)
            if e.attr == "size":
                b = self.ev(e.value, at)
                if b and b[0] == "arr" and len(b[1]) == 1:
                    return ("size", b[1][0])
                if b and b[0] == "arr" and len(b[1]) == 2:
                    return ("size", ("prod", b[1]))
                return None
            if e.attr == "shape":
                b = self.ev(e.value, at)
                if b and b[0] == "arr":
                    return ("shape", b[1])
                return None
            return None
        if isinstance(e, ast.Subscript):
            return self._subscript(e, at)
        if isinstance(e, ast.Call):
            return self._call(e, at)
        if isinstance(e, ast.BinOp):
            l, r = self.ev(e.left, at), self.ev(e.right, at)
            if isinstance(e.op, ast.MatMult):
                if l and r and l[0] == "arr" and r[0] == "arr" and l[1] and r[1]:
                    if l[1][-1] != r[1][0] and None not in (l[1][-1], r[1][0]):
                        self.problem(e, f"matrix product contracts axis {show_tag(l[1][-1])} with {show_tag(r[1][0])}")
                    return ("arr", l[1][:-1] + r[1][1:])
                return None
            if l and r and l[0] == "size" and r[0] == "size" and isinstance(e.op, ast.Mult):
                return ("size", ("prod", (l[1], r[1])))
            for a, b in ((l, r), (r, l)):
                if a and a[0] == "arr" and (b is None or b[0] in ("scalar", "size") or (b[0] == "arr" and len(b[1]) <= len(a[1]))):
                    if b and b[0] == "arr" and b[1] and a[1] and b[1][-1] != a[1][-1] and len(b[1]) == len(a[1]):
                        self.problem(e, f"elementwise operation of {show(a)} with {show(b)}")
                    return a
            if l and l[0] in ("scalar", "size") and r and r[0] in ("scalar", "size"):
                return ("scalar",)
            return l or r
        if isinstance(e, ast.UnaryOp):
            return self.ev(e.operand, at)
        if isinstance(e, ast.IfExp):
            a, b = self.ev(e.body, at), self.ev(e.orelse, at)
            if a and b and a != b and "scalar" not in (a[0], b[0]):
                self.problem(e, f"branches have different layouts: {show(a)} vs {show(b)}")
            return a or b
        if isinstance(e, (ast.ListComp, ast.GeneratorExp)):
            g = e.generators[0]
            # [X[i] for i in <order>]: a re-ordering / selection of the list X keeps the layout of X
            if len(e.generators) == 1 and not g.ifs and isinstance(g.target, ast.Name) and isinstance(e.elt, ast.Subscript) \
                    and isinstance(e.elt.value, ast.Name) and isinstance(e.elt.slice, ast.Name) and e.elt.slice.id == g.target.id:
                return self.ev(e.elt.value, at)
            fake = ast.For(target=g.target, iter=g.iter, body=[], orelse=[])
            fake._fake = True  # type: ignore[attr-defined]
            tag = self.loop_tag_of(fake, at)
            saved = dict(self.loop_tags)
            for t in ast.walk(g.target):
                if isinstance(t, ast.Name):
                    self.loop_tags[t.id] = ("elemvar", tag)
            el = self.ev(e.elt, at)
            self.loop_tags = saved
            if tag is not None:
                return ("list", tag, el)
            return None
        if isinstance(e, (ast.List, ast.Tuple)):
            return None
        return None

    def _name(self, var: str, at) -> Shape:
        key = (var, id(at))
        if key in self._busy:
            return None
        self._busy.add(key)
        try:
            defs = self.fl.reaching(var, at)
            outs = []
            for d in defs:
                if d.kind == "param":
                    outs.append(self.sources(ast.Name(id=var, ctx=ast.Load()), var))
                elif d.kind in ("assign", "walrus"):
                    v = d.value
                    if isinstance(v, (ast.List,)) and not v.elts:
                        outs.append(self._appended_list(var, d))
                    else:
                        outs.append(self.ev(v, d.node))
                elif d.kind == "aug":
                    outs.append(self._name(var, d.node))
                elif d.kind == "unpack":
                    cur = d.value
                    ok = True
                    for p in d.path:
                        if isinstance(cur, (ast.Tuple, ast.List)) and isinstance(p, int) and p < len(cur.elts):
                            cur = cur.elts[p]
                        else:
                            ok = False
                    if ok and isinstance(cur, ast.List) and not cur.elts:
                        outs.append(self._appended_list(var, d))
                    elif ok:
                        outs.append(self.ev(cur, d.node))
                    else:
                        outs.append(self.sources(ast.Name(id=f"{var}", ctx=ast.Load()), f"unpack:{norm(d.value)}:{d.path}"))
                elif d.kind == "for":
                    outs.append(self._loopvar(d))
                else:
                    outs.append(None)
            outs2 = [o for o in outs if o is not None]
            if not outs2:
                return None
            first = outs2[0]
            for o in outs2[1:]:
                if o != first:
                    return None
            return first
        finally:
            self._busy.discard(key)

    def _loopvar(self, d) -> Shape:
        loop = d.stmt
        it = loop.iter
        if isinstance(it, ast.Call) and norm(it.func) == "enumerate" and it.args:
            if d.path[:1] == (0,):
                return ("scalar",)
            inner = self.ev(it.args[0], d.node)
            if inner and inner[0] == "list":
                return inner[2]
            if inner and inner[0] == "arr" and len(inner[1]) >= 1:
                return ("arr", inner[1][1:]) if len(inner[1]) > 1 else ("scalar",)
            return None
        if isinstance(it, ast.Call) and norm(it.func) in ("range", "nb.prange"):
            return ("scalar",)
        inner = self.ev(it, d.node)
        if inner and inner[0] == "list" and not d.path:
            return inner[2]
        if inner and inner[0] == "arr" and not d.path:
            return ("arr", inner[1][1:]) if len(inner[1]) > 1 else ("scalar",)
        return None

    def _appended_list(self, var: str, d) -> Shape:
        """``x = []`` followed by ``x.append(e)`` inside a loop over an axis."""
        outs = []
        for c in lib.method_calls(self.fl.fi, "append"):
            if isinstance(c.func.value, ast.Name) and c.func.value.id == var and c.args:
                loop = None
                for a in lib.ancestors(c, self.fl.fi.node):
                    if isinstance(a, ast.For):
                        loop = a
                        break
                if loop is None:
                    return None
                tag = self.loop_tag_of(loop, loop)
                el = self.ev(c.args[0], lib.stmt_of(c))
                outs.append(("list", tag, el) if tag is not None else None)
        if outs and all(o == outs[0] for o in outs):
            return outs[0]
        return None

    def _subscript(self, e: ast.Subscript, at) -> Shape:
        b = self.ev(e.value, at)
        if b is None:
            return None
        idx = e.slice.elts if isinstance(e.slice, ast.Tuple) else [e.slice]
        if b[0] == "shape":
            if len(idx) == 1 and isinstance(idx[0], ast.Constant) and isinstance(idx[0].value, int) and idx[0].value < len(b[1]):
                return ("size", b[1][idx[0].value])
            return None
        if b[0] == "list":
            if len(idx) == 1 and not isinstance(idx[0], ast.Slice):
                return b[2]
            return b
        if b[0] == "arr":
            tags = list(b[1])
            out = []
            for i, ix in enumerate(idx):
                if i >= len(tags):
                    break
                if isinstance(ix, ast.Slice):
                    out.append(tags[i])
                else:
                    s = self.ev(ix, at)
                    if s and s[0] == "arr":  # mask / fancy index: keeps an axis
                        out.append(tags[i])
                    # scalar index drops the axis
            out += tags[len(idx):]
            return ("arr", tuple(out)) if out else ("scalar",)
        return None

    def _call(self, e: ast.Call, at) -> Shape:
        f = e.func
        fname = norm(f)
        if fname == "len" and e.args:
            s = self.ev(e.args[0], at)
            if s and s[0] in ("labels", "list"):
                return ("size", s[1])
            if s and s[0] == "arr" and s[1]:
                return ("size", s[1][0])
            return None
        if fname in ("np.array", "np.asarray", "numpy.array", "numpy.asarray") and e.args:
            s = self.ev(e.args[0], at)
            if s and s[0] == "list":
                el = s[2]
                if el and el[0] == "arr":
                    return ("arr", (s[1],) + el[1])
                if el and el[0] == "scalar":
                    return ("arr", (s[1],))
                if el is None:
                    return None
            return s
        if fname in ("np.kron", "numpy.kron") and len(e.args) == 2:
            a, b = self.ev(e.args[0], at), self.ev(e.args[1], at)
            if a and b and a[0] == "arr" and b[0] == "arr" and len(a[1]) == len(b[1]):
                return ("arr", tuple(("flat", (x, y)) for x, y in zip(a[1], b[1])))
            if a and b and a[0] == "arr" and b[0] == "arr" and len(a[1]) == 1 and len(b[1]) == 2:
                # numpy treats the 1-d operand as a row vector
                return ("arr", (b[1][0], ("flat", (a[1][0], b[1][1]))))
            return None
        if fname in ("np.concatenate", "numpy.concatenate") and e.args:
            s = self.ev(e.args[0], at)
            if s and s[0] == "list" and s[2] and s[2][0] == "arr" and s[2][1]:
                el = s[2][1]
                return ("arr", (("flat", (s[1], el[0])),) + tuple(el[1:]))
            return None
        if fname in ("np.dot", "numpy.dot") and len(e.args) == 2:
            return self.ev(ast.BinOp(left=e.args[0], op=ast.MatMult(), right=e.args[1]), at)
        if fname in ("np.transpose", "numpy.transpose") and len(e.args) == 1:
            b = self.ev(e.args[0], at)
            return ("arr", tuple(reversed(b[1]))) if b and b[0] == "arr" else None
        if fname in ("np.sum", "np.abs", "np.sqrt", "np.exp", "abs", "float"):
            return self.ev(e.args[0], at) if e.args and fname != "np.sum" else ("scalar",)
        if isinstance(f, ast.Attribute):
            m = f.attr
            b = self.ev(f.value, at)
            if m in ("copy", "astype", "to_numpy"):
                return b
            if m == "transpose" and not e.args:
                return ("arr", tuple(reversed(b[1]))) if b and b[0] == "arr" else None
            if m in ("flatten", "ravel") and not e.args:
                if b and b[0] == "arr":
                    return ("arr", (("flat", b[1]),)) if len(b[1]) > 1 else b
                return None
            if m == "reshape":
                spec = e.args[0] if len(e.args) == 1 else ast.Tuple(elts=list(e.args), ctx=ast.Load())
                want = self._size_tags(spec, at)
                if b is None or want is None:
                    if b is not None:
                        self.problem(e, f"cannot read the axis sizes of reshape({norm(spec)})")
                    return None
                have = None
                if b[0] == "arr" and len(b[1]) == 1 and isinstance(b[1][0], tuple) and b[1][0][0] == "flat":
                    have = list(b[1][0][1])
                elif b[0] == "arr":
                    have = list(b[1])
                if have is not None:
                    flat_have = _flatten_tags(have)
                    flat_want = _flatten_tags(want)
                    if flat_have != flat_want:
                        self.problem(e, f"reshape lays {show(b)} out as ({', '.join(show_tag(t) for t in want)}): "
                                        "the memory order of the source is "
                                        f"({', '.join(show_tag(t) for t in flat_have)})")
                return ("arr", tuple(want))
        return None


def _flatten_tags(tags) -> list:
    out = []
    for t in tags:
        if isinstance(t, tuple) and t and t[0] in ("flat", "prod"):
            out += _flatten_tags(t[1])
        else:
            out.append(t)
    return out
