"""A5 (part 2) - reaching definitions on the CFG and reconstruction of terms.

``Flow(fn_info, repo)`` computes reaching definitions for local names, for constant
string subscripts of local names (``result_args["cost"]``) and ``self.<attr>`` stores.
``Flow.term(expr, at)`` rebuilds the defining expression of a value as a ``Poly`` with
local definitions inlined; loop variables become ``pos(X)`` / ``elem(X)`` atoms.
"""

from __future__ import annotations

import ast
from dataclasses import dataclass
from fractions import Fraction

from glint.cfg import CFG
from glint.cfg import Node
from glint.cfg import cfg_of
from glint.index import FunctionInfo
from glint.index import Repo
from glint.index import norm
from glint.terms import Poly

FUNC_ALIASES = {
    "numpy.exp": "exp",
    "math.exp": "exp",
    "numpy.sqrt": "sqrt",
    "math.sqrt": "sqrt",
    "numpy.abs": "abs",
    "numpy.absolute": "abs",
    "numpy.fabs": "abs",
    "abs": "abs",
    "numpy.log": "log",
    "math.log": "log",
    "numpy.sum": "sum",
    "sum": "sum",
    "numpy.dot": "matmul",
    "numpy.matmul": "matmul",
    "scipy.special.erf": "erf",
    "scipy.special.erfc": "erfc",
    "scipy.special.erfcx": "erfcx",
    "math.erf": "erf",
    "math.erfc": "erfc",
    "numpy.square": "square",
    "numpy.power": "power",
    "numpy.multiply": "mul",
    "numpy.add": "add",
    "numpy.subtract": "subtract",
    "numpy.divide": "divide",
    "numpy.true_divide": "divide",
    "numpy.negative": "negative",
    "numpy.transpose": "transpose",
    "numpy.asarray": "identity",
    "numpy.asanyarray": "identity",
    "float": "identity",
    "numpy.float64": "identity",
    "numpy.cos": "cos",
    "numpy.sin": "sin",
    "math.cos": "cos",
    "math.sin": "sin",
    "numpy.min": "min",
    "numpy.max": "max",
    "numpy.amin": "min",
    "numpy.amax": "max",
    "min": "min",
    "max": "max",
    "len": "len",
    "numpy.size": "len",
    "numpy.prod": "prod",
    "numpy.diag": "diag",
    "numpy.linalg.solve": "solve",
    "numba.prange": "range",
    "scipy.linalg.solve": "solve",
}

IDENTITY_METHODS = {"copy"}


@dataclass(eq=False)
class Def:
    var: str
    node: Node | None  # None for parameters
    kind: str  # param assign aug unpack for with walrus import def except del
    value: ast.AST | None = None
    path: tuple = ()  # unpack path
    stmt: ast.AST | None = None
    target: ast.AST | None = None

    def __repr__(self) -> str:  # pragma: no cover
        return f"Def({self.var},{self.kind}@{getattr(self.stmt, 'lineno', 0)})"


def var_of_target(t: ast.AST) -> str | None:
    """Variable key for an assignment target / load expression we track."""
    if isinstance(t, ast.Name):
        return t.id
    if isinstance(t, ast.Attribute) and isinstance(t.value, ast.Name) and t.value.id in ("self", "cls"):
        return f"{t.value.id}.{t.attr}"
    if (
        isinstance(t, ast.Subscript)
        and isinstance(t.value, ast.Name)
        and isinstance(t.slice, ast.Constant)
        and isinstance(t.slice.value, str)
    ):
        return f"{t.value.id}[{t.slice.value!r}]"
    return None


def _targets(t: ast.AST, path=()):
    """Yield (target_node, unpack_path) for (possibly nested) tuple targets."""
    if isinstance(t, (ast.Tuple, ast.List)):
        for i, e in enumerate(t.elts):
            if isinstance(e, ast.Starred):
                yield from _targets(e.value, path + (("star", i),))
            else:
                yield from _targets(e, path + (i,))
    else:
        yield t, path


class Flow:
    def __init__(self, fi: FunctionInfo, repo: Repo | None = None):
        self.fi = fi
        self.repo = repo
        self.cfg: CFG = cfg_of(fi.node)
        self.defs_at: dict[Node, list[Def]] = {}
        self.param_defs: list[Def] = []
        self._collect_defs()
        self._solve()
        self._memo: dict = {}

    # -------------------------------------------------------------- definitions
    def _collect_defs(self) -> None:
        a = self.fi.node.args
        for arg in a.posonlyargs + a.args + a.kwonlyargs + ([a.vararg] if a.vararg else []) + (
            [a.kwarg] if a.kwarg else []
        ):
            self.param_defs.append(Def(arg.arg, None, "param"))
        for n in self.cfg.nodes:
            ds: list[Def] = []
            s = n.stmt
            if s is None or n.kind == "finally":
                self.defs_at[n] = ds
                continue
            if n.kind == "stmt":
                if isinstance(s, ast.Assign):
                    for tgt in s.targets:
                        for t, path in _targets(tgt):
                            v = var_of_target(t)
                            if v:
                                ds.append(Def(v, n, "unpack" if path else "assign", s.value, path, s, t))
                elif isinstance(s, ast.AnnAssign) and s.value is not None:
                    v = var_of_target(s.target)
                    if v:
                        ds.append(Def(v, n, "assign", s.value, (), s, s.target))
                elif isinstance(s, ast.AugAssign):
                    v = var_of_target(s.target)
                    if v:
                        ds.append(Def(v, n, "aug", s.value, (), s, s.target))
                elif isinstance(s, (ast.Import, ast.ImportFrom)):
                    for al in s.names:
                        ds.append(Def((al.asname or al.name).split(".")[0], n, "import", None, (), s))
                elif isinstance(s, (ast.FunctionDef, ast.AsyncFunctionDef, ast.ClassDef)):
                    ds.append(Def(s.name, n, "def", None, (), s))
                elif isinstance(s, ast.Delete):
                    for t in s.targets:
                        v = var_of_target(t)
                        if v:
                            ds.append(Def(v, n, "del", None, (), s, t))
            elif n.kind == "for":
                for t, path in _targets(s.target):
                    v = var_of_target(t)
                    if v:
                        ds.append(Def(v, n, "for", s.iter, path, s, t))
            elif n.kind == "with":
                for item in s.items:
                    if item.optional_vars is not None:
                        for t, path in _targets(item.optional_vars):
                            v = var_of_target(t)
                            if v:
                                ds.append(Def(v, n, "with", item.context_expr, path, s, t))
            elif n.kind == "except":
                if s.name:
                    ds.append(Def(s.name, n, "except", s.type, (), s))
            # walrus anywhere in the expressions evaluated at this node
            for sub in self._own_exprs(n):
                for w in ast.walk(sub):
                    if isinstance(w, ast.NamedExpr) and isinstance(w.target, ast.Name):
                        ds.append(Def(w.target.id, n, "walrus", w.value, (), s, w.target))
            self.defs_at[n] = ds

    def _own_exprs(self, n: Node) -> list[ast.AST]:
        """Expressions evaluated *at* a node (header expressions for compound statements)."""
        s = n.stmt
        if n.kind == "stmt":
            if isinstance(s, (ast.FunctionDef, ast.AsyncFunctionDef, ast.ClassDef)):
                return list(s.decorator_list)
            return [s]
        if n.kind in ("if", "while"):
            return [s.test]
        if n.kind == "for":
            return [s.iter]
        if n.kind == "with":
            return [i.context_expr for i in s.items]
        if n.kind == "match":
            return [s.subject]
        if n.kind == "except" and s.type is not None:
            return [s.type]
        return []

    def _solve(self) -> None:
        """Classic reaching definitions: IN[n] = U OUT[p]; OUT[n] = gen U (IN - kill)."""
        nodes = self.cfg.nodes
        out: dict[Node, dict[str, frozenset]] = {n: {} for n in nodes}
        self.inn: dict[Node, dict[str, frozenset]] = {n: {} for n in nodes}
        entry_out = {}
        for d in self.param_defs:
            entry_out[d.var] = frozenset([d])
        out[self.cfg.entry] = entry_out
        work = list(nodes)
        while work:
            n = work.pop(0)
            if n is self.cfg.entry:
                new_out = entry_out
            else:
                inn: dict[str, set] = {}
                for p, _ in n.pred:
                    for v, ds in out[p].items():
                        inn.setdefault(v, set()).update(ds)
                inn_f = {v: frozenset(ds) for v, ds in inn.items()}
                self.inn[n] = inn_f
                new_out = dict(inn_f)
                for d in self.defs_at.get(n, []):
                    if d.kind == "aug":
                        new_out[d.var] = frozenset([d])
                    else:
                        new_out[d.var] = frozenset([d])
                    # a store to NAME kills pseudo variables NAME['k']
                    if "[" not in d.var and "." not in d.var:
                        for v in list(new_out):
                            if v.startswith(d.var + "["):
                                del new_out[v]
            if new_out != out[n]:
                out[n] = new_out
                for m, _ in n.succ:
                    if m not in work:
                        work.append(m)
        self.out = out

    # ------------------------------------------------------------------- lookup
    def reaching(self, var: str, at: ast.AST | Node) -> list[Def]:
        n = at if isinstance(at, Node) else self.cfg.node(at)
        return sorted(self.inn.get(n, {}).get(var, ()), key=lambda d: getattr(d.stmt, "lineno", 0))

    def defs_of(self, var: str) -> list[Def]:
        out = [d for d in self.param_defs if d.var == var]
        for ds in self.defs_at.values():
            out += [d for d in ds if d.var == var]
        return out

    def uses_of(self, var: str) -> list[ast.AST]:
        """All load sites of a tracked variable key in the function."""
        out = []
        for sub in ast.walk(self.fi.node):
            if isinstance(sub, (ast.Name, ast.Attribute, ast.Subscript)) and isinstance(
                getattr(sub, "ctx", None), ast.Load
            ):
                if var_of_target(sub) == var:
                    out.append(sub)
        return out

    # ------------------------------------------------------------- temporaries
    def temp_def(self, var: str) -> Def | None:
        """The definition of ``var`` when it is a pure temporary: a local bound exactly once, by a plain
        ``var = <expr>`` statement, and read exactly once in the whole function."""
        key = ("temp", var)
        if key not in self._memo:
            ds = self.defs_of(var)
            loads = [n for n in ast.walk(self.fi.node) if isinstance(n, ast.Name) and n.id == var and isinstance(n.ctx, ast.Load)]
            ok = len(ds) == 1 and ds[0].kind == "assign" and isinstance(ds[0].target, ast.Name) and len(loads) == 1 \
                and isinstance(ds[0].stmt, (ast.Assign, ast.AnnAssign)) and not (isinstance(ds[0].stmt, ast.Assign) and len(ds[0].stmt.targets) != 1)
            self._memo[key] = ds[0] if ok else None
        return self._memo[key]

    def inline(self, expr: ast.AST, at: ast.AST | Node | None = None, depth: int = 6) -> ast.AST:
        """A copy of ``expr`` in which every pure temporary (see ``temp_def``) is replaced by its defining
        expression, provided the names that expression reads have the same reaching definitions at
        the temporary's definition and at ``at``.  ``x = f(_t)`` with ``_t = g(y)`` reads as ``f(g(y))``."""
        if at is None:
            at = self.cfg.node(expr)
        at_node = at if isinstance(at, Node) else self.cfg.node(at)
        flow = self

        class Sub(ast.NodeTransformer):
            def visit_Name(self, node):
                if not isinstance(node.ctx, ast.Load) or depth <= 0:
                    return node
                d = flow.temp_def(node.id)
                if d is None or d.value is None or d.node is None:
                    return node
                rd = flow.reaching(node.id, at_node)
                if len(rd) != 1 or rd[0] is not d:
                    return node
                for sub in ast.walk(d.value):
                    if isinstance(sub, ast.Name) and isinstance(sub.ctx, ast.Load):
                        a = {id(x) for x in flow.reaching(sub.id, d.node)}
                        b = {id(x) for x in flow.reaching(sub.id, at_node)}
                        if a != b:
                            return node
                return flow.inline(d.value, d.node, depth - 1)

            def visit_Lambda(self, node):
                return node

        if isinstance(expr, ast.stmt):
            fresh = ast.parse(ast.unparse(expr)).body[0]
        else:
            fresh = ast.parse(ast.unparse(expr), mode="eval").body
        return Sub().visit(fresh)

    def inlined_function(self) -> ast.AST:
        """A fresh copy of the function with every pure temporary looked through: the statement that
        binds the temporary is dropped and its single read is replaced by the bound expression."""
        if "inlined_fn" in self._memo:
            return self._memo["inlined_fn"]
        repl: dict[str, ast.AST] = {}
        seen: set[str] = set()
        for n in ast.walk(self.fi.node):
            if isinstance(n, ast.Name) and isinstance(n.ctx, ast.Load) and n.id not in seen:
                seen.add(n.id)
                if self.temp_def(n.id) is None:
                    continue
                try:
                    at = self.cfg.node(n)
                    new = self.inline(n, at)
                except Exception:
                    continue
                if not (isinstance(new, ast.Name) and new.id == n.id):
                    repl[n.id] = new
        fresh = ast.parse(ast.unparse(self.fi.node)).body[0]

        class T(ast.NodeTransformer):
            def visit_Assign(self, node):
                if len(node.targets) == 1 and isinstance(node.targets[0], ast.Name) and node.targets[0].id in repl:
                    return None
                return self.generic_visit(node)

            def visit_AnnAssign(self, node):
                if isinstance(node.target, ast.Name) and node.target.id in repl and node.value is not None:
                    return None
                return self.generic_visit(node)

            def visit_Name(self, node):
                if isinstance(node.ctx, ast.Load) and node.id in repl:
                    return repl[node.id]
                return node

        fresh = T().visit(fresh)
        for n in ast.walk(fresh):
            for fld in ("body", "orelse", "finalbody"):
                if isinstance(getattr(n, fld, None), list) and fld == "body" and not n.body:
                    n.body = [ast.Pass()]
        ast.fix_missing_locations(fresh)
        self._memo["inlined_fn"] = fresh
        return fresh

    # -------------------------------------------------------------------- terms
    def resolve_func(self, f: ast.AST) -> str:
        """Canonical name of a called function."""
        if self.repo is not None:
            q = self.repo.resolve_expr(self.fi.module, f)
            if q is not None:
                # local bindings shadow module level names
                root = f
                while isinstance(root, ast.Attribute):
                    root = root.value
                if isinstance(root, ast.Name) and any(
                    d.kind != "import" for d in self.defs_of(root.id)
                ):
                    pass
                else:
                    if q not in FUNC_ALIASES and "." in q:
                        mod, last = q.rsplit(".", 1)
                        mi = self.repo.modules.get(mod)
                        if mi is not None and last in mi.assigns:
                            # module level ``erf = functype(erf_addr)`` style bindings
                            return FUNC_ALIASES.get(last, last)
                    return FUNC_ALIASES.get(q, q)
        txt = norm(f)
        txt = txt.replace("np.", "numpy.", 1) if txt.startswith("np.") else txt
        return FUNC_ALIASES.get(txt, txt)

    def term(self, expr: ast.AST, at: ast.AST | Node | None = None, depth: int = 12, env=None) -> Poly:
        """Normal form of ``expr`` evaluated at CFG position ``at`` (default: its statement)."""
        if at is None:
            at = self.cfg.node(expr)
        elif not isinstance(at, Node):
            at = self.cfg.node(at)
        return self._term(expr, at, depth, env or {}, frozenset())

    def _atom_expr(self, expr: ast.AST) -> Poly:
        return Poly.atom(("expr", norm(expr)))

    def _name(self, var: str, at: Node, depth: int, env, busy) -> Poly:
        if var in env:
            return env[var]
        defs = self.reaching(var, at)
        if not defs:
            # global / builtin / free variable
            mc = self._module_const(var, depth)
            if mc is not None:
                return mc
            return Poly.atom(("name", var))
        if depth <= 0:
            return Poly.atom(("name", var))
        results = []
        for d in defs:
            results.append(self._def_term(d, depth, env, busy))
        first = results[0]
        if all(r == first for r in results[1:]):
            return first
        return Poly.atom(("phi", var, tuple(sorted((r.key() for r in results), key=repr))))

    def _module_const(self, var: str, depth: int) -> Poly | None:
        """Inline module level numeric constants such as ``SQRT2 = np.sqrt(2)``."""
        if "." in var or "[" in var or depth <= 0:
            return None
        val = self.fi.module.assigns.get(var)
        if val is None:
            return None
        if not _is_numeric_expr(val, self.fi.module.assigns):
            return None
        return self._term(val, self.cfg.entry, depth - 1, {}, frozenset())

    def _def_term(self, d: Def, depth: int, env, busy) -> Poly:
        if d.kind == "param":
            return Poly.atom(("name", d.var))
        if d in busy:
            return Poly.atom(("rec", d.var))
        busy = busy | {d}
        key = (d, depth >= 1)
        if not env and key in self._memo:
            return self._memo[key]
        r = self._def_term_uncached(d, depth, env, busy)
        if not env:
            self._memo[key] = r
        return r

    def _def_term_uncached(self, d: Def, depth: int, env, busy) -> Poly:
        assert d.node is not None
        if d.kind in ("assign", "walrus"):
            return self._term(d.value, d.node, depth - 1, env, busy)
        if d.kind == "aug":
            prev = self._name(d.var, d.node, depth - 1, env, busy)
            val = self._term(d.value, d.node, depth - 1, env, busy)
            return self._binop(d.stmt.op, prev, val, d.stmt)
        if d.kind == "unpack":
            v = d.value
            # a, b = x, y  -> direct
            cur = v
            ok = True
            for p in d.path:
                if isinstance(cur, (ast.Tuple, ast.List)) and isinstance(p, int) and p < len(cur.elts):
                    cur = cur.elts[p]
                else:
                    ok = False
                    break
            if ok:
                return self._term(cur, d.node, depth - 1, env, busy)
            base = self._term(v, d.node, depth - 1, env, busy)
            return Poly.atom(("item", base.key(), tuple(d.path)))
        if d.kind == "for":
            return self._loop_var(d, depth, env, busy)
        if d.kind == "with":
            base = self._term(d.value, d.node, depth - 1, env, busy)
            return Poly.atom(("with", base.key(), tuple(d.path)))
        return Poly.atom(("name", d.var))

    def _loop_var(self, d: Def, depth: int, env, busy) -> Poly:
        it = d.value
        assert d.node is not None
        return self.iter_var_term(it, d.path, d.node, depth, env, busy)

    def iter_var_term(self, it: ast.AST, path: tuple, at: Node, depth: int, env, busy) -> Poly:
        """Term of a loop / comprehension variable bound from iterable ``it`` via ``path``."""
        if isinstance(it, ast.Call):
            fname = self.resolve_func(it.func)
            if fname == "enumerate" and it.args:
                inner = it.args[0]
                if path[:1] == (0,):
                    base = self._term(inner, at, depth - 1, env, busy)
                    return Poly.atom(("pos", base.key()))
                if path[:1] == (1,):
                    return self.iter_var_term(inner, path[1:], at, depth, env, busy)
            if fname == "zip" and path and isinstance(path[0], int) and path[0] < len(it.args):
                return self.iter_var_term(it.args[path[0]], path[1:], at, depth, env, busy)
            if fname == "range":
                args = [self._term(a, at, depth - 1, env, busy) for a in it.args]
                if len(args) == 1:
                    inner = args[0].single_atom()
                    # range(len(X)) / range(X.size) / range(X.shape[0]) -> pos(X)
                    if inner is not None:
                        if inner[0] == "call" and inner[1] == "len" and len(inner[2]) == 1:
                            return Poly.atom(("pos", inner[2][0]))
                        if inner[0] == "attr" and inner[2] == "size":
                            return Poly.atom(("pos", inner[1]))
                        if (
                            inner[0] == "sub"
                            and isinstance(inner[1], tuple)
                            and inner[1][:1] == ("attr",)
                            and inner[1][2] == "shape"
                        ):
                            return Poly.atom(("pos_axis", inner[1][1], inner[2]))
                return Poly.atom(("rangevar", tuple(a.key() for a in args)))
            if isinstance(it.func, ast.Attribute) and it.func.attr in ("items", "values", "keys") and not it.args:
                base = self._term(it.func.value, at, depth - 1, env, busy)
                if it.func.attr == "items":
                    if path[:1] == (0,):
                        return Poly.atom(("key", base.key()))
                    if path[:1] == (1,):
                        return Poly.atom(("elem", base.key()) + ((tuple(path[1:]),) if path[1:] else ()))
                    return Poly.atom(("item_pair", base.key()))
                if it.func.attr == "keys":
                    return Poly.atom(("key", base.key()))
                return Poly.atom(("elem", base.key()) + ((tuple(path),) if path else ()))
        base = self._term(it, at, depth - 1, env, busy)
        if path:
            return Poly.atom(("elem", base.key(), tuple(path)))
        return Poly.atom(("elem", base.key()))

    def _binop(self, op, a: Poly, b: Poly, node) -> Poly:
        if isinstance(op, ast.Add):
            return a + b
        if isinstance(op, ast.Sub):
            return a - b
        if isinstance(op, ast.Mult):
            return a * b
        if isinstance(op, ast.Div):
            return a / b
        if isinstance(op, ast.Pow):
            return a.pow(b)
        if isinstance(op, ast.MatMult):
            return matmul(a, b)
        return Poly.atom(("binop", type(op).__name__, a.key(), b.key()))

    def _term(self, e: ast.AST, at: Node, depth: int, env, busy) -> Poly:
        if isinstance(e, ast.Constant):
            v = e.value
            if isinstance(v, (int, float)) and not isinstance(v, bool):
                return Poly.const(v)
            if isinstance(v, complex):
                return Poly.const(Fraction(repr(v.imag))) * Poly.atom(("name", "1j"))
            return Poly.atom(("str", v) if isinstance(v, str) else ("constant", repr(v)))
        if isinstance(e, ast.Name):
            return self._name(e.id, at, depth, env, busy)
        if isinstance(e, ast.NamedExpr):
            return self._term(e.value, at, depth, env, busy)
        if isinstance(e, ast.UnaryOp):
            v = self._term(e.operand, at, depth, env, busy)
            if isinstance(e.op, ast.USub):
                return -v
            if isinstance(e.op, ast.UAdd):
                return v
            return Poly.atom(("unary", type(e.op).__name__, v.key()))
        if isinstance(e, ast.BinOp):
            return self._binop(
                e.op, self._term(e.left, at, depth, env, busy), self._term(e.right, at, depth, env, busy), e
            )
        if isinstance(e, ast.Attribute):
            v = var_of_target(e)
            if v is not None and self.reaching(v, at):
                return self._name(v, at, depth, env, busy)
            base = self._term(e.value, at, depth, env, busy)
            if e.attr == "T":
                return transpose(base)
            return Poly.atom(("attr", base.key(), e.attr))
        if isinstance(e, ast.Subscript):
            v = var_of_target(e)
            if v is not None and self.reaching(v, at):
                return self._name(v, at, depth, env, busy)
            base = self._term(e.value, at, depth, env, busy)
            return Poly.atom(("sub", base.key(), self._slice_key(e.slice, at, depth, env, busy)))
        if isinstance(e, ast.Call):
            return self._call(e, at, depth, env, busy)
        if isinstance(e, ast.IfExp):
            return Poly.atom(
                (
                    "ite",
                    self._term(e.test, at, depth, env, busy).key(),
                    self._term(e.body, at, depth, env, busy).key(),
                    self._term(e.orelse, at, depth, env, busy).key(),
                )
            )
        if isinstance(e, ast.Compare):
            parts = [self._term(e.left, at, depth, env, busy).key()]
            for op, c in zip(e.ops, e.comparators):
                parts.append(type(op).__name__)
                parts.append(self._term(c, at, depth, env, busy).key())
            return Poly.atom(("cmp", tuple(parts)))
        if isinstance(e, ast.BoolOp):
            return Poly.atom(
                ("bool", type(e.op).__name__, tuple(self._term(v, at, depth, env, busy).key() for v in e.values))
            )
        if isinstance(e, (ast.Tuple, ast.List)):
            return Poly.atom(
                ("seq", type(e).__name__, tuple(self._term(v, at, depth, env, busy).key() for v in e.elts))
            )
        if isinstance(e, ast.Starred):
            return Poly.atom(("star", self._term(e.value, at, depth, env, busy).key()))
        if isinstance(e, (ast.ListComp, ast.GeneratorExp, ast.SetComp)):
            env2 = dict(env)
            gens = []
            for g in e.generators:
                it = self._term(g.iter, at, depth, env2, busy)
                for t, path in _targets(g.target):
                    if isinstance(t, ast.Name):
                        env2[t.id] = self.iter_var_term(g.iter, path, at, depth, env2, busy)
                conds = tuple(self._term(c, at, depth, env2, busy).key() for c in g.ifs)
                gens.append((it.key(), conds))
            elt = self._term(e.elt, at, depth, env2, busy)
            return Poly.atom(("comp", type(e).__name__, elt.key(), tuple(gens)))
        if isinstance(e, ast.JoinedStr):
            parts = []
            for v in e.values:
                if isinstance(v, ast.Constant):
                    parts.append(("lit", v.value))
                elif isinstance(v, ast.FormattedValue):
                    spec = norm(v.format_spec) if v.format_spec is not None else ""
                    parts.append(("fmt", self._term(v.value, at, depth, env, busy).key(), spec, v.conversion))
            return Poly.atom(("fstring", tuple(parts)))
        if isinstance(e, ast.Dict):
            return Poly.atom(
                (
                    "dict",
                    tuple(
                        (
                            self._term(k, at, depth, env, busy).key() if k is not None else None,
                            self._term(v, at, depth, env, busy).key(),
                        )
                        for k, v in zip(e.keys, e.values)
                    ),
                )
            )
        return self._atom_expr(e)

    def _slice_key(self, s: ast.AST, at, depth, env, busy):
        if isinstance(s, ast.Slice):
            return (
                "slice",
                self._term(s.lower, at, depth, env, busy).key() if s.lower is not None else None,
                self._term(s.upper, at, depth, env, busy).key() if s.upper is not None else None,
                self._term(s.step, at, depth, env, busy).key() if s.step is not None else None,
            )
        if isinstance(s, ast.Tuple):
            return ("idx",) + tuple(self._slice_key(x, at, depth, env, busy) for x in s.elts)
        return self._term(s, at, depth, env, busy).key()

    def _call(self, e: ast.Call, at, depth, env, busy) -> Poly:
        fname = self.resolve_func(e.func)
        args = [self._term(a, at, depth, env, busy) for a in e.args]
        kws = tuple(
            sorted((k.arg or "**", self._term(k.value, at, depth, env, busy).key()) for k in e.keywords)
        )
        # method calls on a receiver
        if isinstance(e.func, ast.Attribute) and fname not in FUNC_ALIASES.values():
            meth = e.func.attr
            recv_is_module = False
            if self.repo is not None:
                q = self.repo.resolve_expr(self.fi.module, e.func.value)
                root = e.func.value
                while isinstance(root, ast.Attribute):
                    root = root.value
                if (
                    q is not None
                    and isinstance(root, ast.Name)
                    and not any(d.kind != "import" for d in self.defs_of(root.id))
                    and root.id in self.fi.module.imports
                ):
                    recv_is_module = True
            if not recv_is_module:
                recv = self._term(e.func.value, at, depth, env, busy)
                if meth in IDENTITY_METHODS and not args:
                    return recv
                if meth == "dot" and len(args) == 1:
                    return matmul(recv, args[0])
                if meth == "transpose" and not args:
                    return transpose(recv)
                if meth == "sum" and not args and not kws:
                    return Poly.atom(("call", "sum", (recv.key(),)))
                return Poly.atom(("mcall", recv.key(), meth, tuple(a.key() for a in args), kws))
        if fname == "exp" and len(args) == 1:
            return Poly.atom(("exp", args[0].key()))
        if fname == "sqrt" and len(args) == 1:
            return args[0].pow(Poly.const(Fraction(1, 2)))
        if fname == "square" and len(args) == 1:
            return args[0] * args[0]
        if fname == "power" and len(args) == 2:
            return args[0].pow(args[1])
        if fname == "mul" and len(args) == 2:
            return args[0] * args[1]
        if fname == "add" and len(args) == 2:
            return args[0] + args[1]
        if fname == "subtract" and len(args) == 2:
            return args[0] - args[1]
        if fname == "divide" and len(args) == 2:
            return args[0] / args[1]
        if fname == "negative" and len(args) == 1:
            return -args[0]
        if fname == "identity" and len(args) == 1 and not kws:
            return args[0]
        if fname == "transpose" and len(args) == 1:
            return transpose(args[0])
        if fname == "matmul" and len(args) == 2:
            return matmul(args[0], args[1])
        if fname == "erfc" and len(args) == 1:
            # erfc(x) = 1 - erf(x)
            return Poly.const(1) - Poly.atom(("call", "erf", (args[0].key(),)))
        if fname == "erf" and len(args) == 1:
            return erf(args[0])
        return Poly.atom(("call", fname, tuple(a.key() for a in args)) + ((kws,) if kws else ()))


def _is_numeric_expr(e: ast.AST, assigns: dict, _d: int = 0) -> bool:
    """Numeric literal arithmetic, possibly through numpy scalar functions / other constants."""
    if _d > 4:
        return False
    if isinstance(e, ast.Constant):
        return isinstance(e.value, (int, float)) and not isinstance(e.value, bool)
    if isinstance(e, ast.UnaryOp):
        return _is_numeric_expr(e.operand, assigns, _d + 1)
    if isinstance(e, ast.BinOp):
        return _is_numeric_expr(e.left, assigns, _d + 1) and _is_numeric_expr(e.right, assigns, _d + 1)
    if isinstance(e, ast.Call) and not e.keywords:
        f = norm(e.func)
        if f in ("np.sqrt", "math.sqrt", "np.log", "math.log", "np.exp", "math.exp", "float"):
            return all(_is_numeric_expr(a, assigns, _d + 1) for a in e.args)
        return False
    if isinstance(e, ast.Name) and e.id in assigns:
        return _is_numeric_expr(assigns[e.id], assigns, _d + 1)
    if isinstance(e, ast.Attribute) and norm(e) in ("np.pi", "math.pi", "np.e", "math.e"):
        return True
    return False


def erf(x: Poly) -> Poly:
    """erf is odd: normalise the sign of the argument."""
    k = x.key()
    if k and k[0][1] < 0:
        return -Poly.atom(("call", "erf", ((-x).key(),)))
    return Poly.atom(("call", "erf", (k,)))


def transpose(p: Poly) -> Poly:
    a = p.single_atom()
    if a is not None:
        if a[0] == "T":
            return Poly(dict(a[1]))
        if a[0] == "matmul":
            return matmul(transpose(Poly(dict(a[2]))), transpose(Poly(dict(a[1]))))
    if p.const_value() is not None:
        return p
    return Poly.atom(("T", p.key()))


def matmul(a: Poly, b: Poly) -> Poly:
    # pull scalar rational coefficients out: (c*A)@B = c*(A@B)
    ca = _common_coeff(a)
    cb = _common_coeff(b)
    a1 = Poly({m: c / ca for m, c in a.terms.items()}) if ca not in (0, 1) else a
    b1 = Poly({m: c / cb for m, c in b.terms.items()}) if cb not in (0, 1) else b
    core = Poly.atom(("matmul", a1.key(), b1.key()))
    k = (ca if ca != 0 else 1) * (cb if cb != 0 else 1)
    return core * Poly.const(k)


def _common_coeff(p: Poly) -> Fraction:
    if len(p.terms) == 1:
        return next(iter(p.terms.values()))
    return Fraction(1)
