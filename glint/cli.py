"""Command line: ./check <Cxx> [--tier quick|thorough] [--replay file]."""

from __future__ import annotations

import argparse
import json
import os
import sys
import time
import traceback

from glint import REPO_ROOT
from glint.index import AnalysisError
from glint.index import Repo
from glint.report import Ctx
from glint.report import finish


def run_rules(check, ctx) -> None:
    """Run a property's rules; a rule group that runs out of sites is recorded, not fatal."""
    from glint.report import Shortfall

    groups = getattr(check, "groups", None)
    if not groups:
        try:
            check(ctx)
        except Shortfall:
            pass
        return
    for g in groups:
        try:
            g(ctx)
        except Shortfall:
            continue


def thorough_extras(ctx, prop: str) -> None:
    """Thorough tier: validate the checker itself for this property (never changes the verdict).

    * every mutant of glint/mutants for this property must be reported (SELFTEST-SURVIVOR otherwise);
    * every automatic silent twin (reformat, rename-locals, flip-if, flip-compare, extract-temp) of every consulted file must stay green.
    Both run on scratch copies outside /repo and /verif.
    """
    from concurrent.futures import ProcessPoolExecutor

    from glint import selftest
    from glint import twins

    muts = [m for m in selftest.load_mutants() if m["prop"] == prop]
    jobs = []
    consulted = sorted(ctx.repo.consulted)
    for rel in consulted:
        path = os.path.join(ctx.repo.root, rel)
        if not os.path.exists(path):
            continue
        src = open(path, encoding="utf-8").read()
        base = twins.transform(src, "reformat")
        for kind in twins.KINDS:
            if kind != "reformat" and twins.transform(src, kind) == base:
                continue  # this rewrite has no site in the file
            jobs.append((rel, kind, {prop}))
    # the hand-written variants always run; the automatic twins run within a time budget (default 15 min,
    # GLINT_THOROUGH_BUDGET seconds), interleaved by kind so that every kind is sampled when the budget is short
    import concurrent.futures as cf

    budget = float(os.environ.get("GLINT_THOROUGH_BUDGET", "900"))
    by_kind: dict = {}
    for j in jobs:
        by_kind.setdefault(j[1], []).append(j)
    ordered = []
    while any(by_kind.values()):
        for k in list(by_kind):
            if by_kind[k]:
                ordered.append(by_kind[k].pop(0))
    jobs_planned = len(ordered)
    ex = ProcessPoolExecutor(max_workers=os.cpu_count() or 4)
    try:
        mres = list(ex.map(selftest.run_one, muts))
        t_start = time.time()
        futs = [ex.submit(twins.run_one, j) for j in ordered]
        tres = []
        try:
            for fu in cf.as_completed(futs, timeout=budget):
                tres.append(fu.result())
        except cf.TimeoutError:
            pass
        for fu in futs:
            fu.cancel()
    finally:
        ex.shutdown(wait=False, cancel_futures=True)
    jobs = ordered[: len(tres)] if len(tres) < jobs_planned else ordered
    _ = t_start
    survivors = [r for r in mres if r["status"] != "OK"]
    for r in survivors:
        print(f"SELFTEST-{r['status']} {prop} {r['id']} expect={r['expect']} rule={r['rule']}")
    alarms = [line for r in tres for line in r if line.startswith("TWIN-FALSE-ALARM")]
    for line in alarms:
        print(line)
    ctx.selfvalidation = {
        "mutants": len(muts),
        "mutants_firing_expected": sum(1 for m in muts if m["expect"] == "fire"),
        "silent_twins_handwritten": sum(1 for m in muts if m["expect"] == "silent"),
        "as_expected": len(mres) - len(survivors),
        "not_as_expected": [f"{r['id']}:{r['status']}" for r in survivors],
        "automatic_twins": len(tres),
        "automatic_twins_planned": jobs_planned,
        "automatic_twin_false_alarms": alarms,
        "samples": [f"{m['id']} ({m['expect']}, {m.get('rule', '-')})" for m in muts[:8]],
    }
    print(f"selfvalidation {prop}: {len(muts)} hand written variants ({len(survivors)} not as expected), "
          f"{len(tres)} of {jobs_planned} automatic twins within the time budget ({len(alarms)} false alarms)")


def main(argv: list[str] | None = None) -> int:
    ap = argparse.ArgumentParser(prog="check")
    ap.add_argument("prop")
    ap.add_argument("--tier", default=os.environ.get("VERIF_TIER", "quick"), choices=["quick", "thorough"])
    ap.add_argument("--replay", default=None)
    ap.add_argument("--repo", default=REPO_ROOT)
    args = ap.parse_args(argv)
    t0 = time.time()
    try:
        seed = int(os.environ.get("VERIF_SEED", "0") or 0)
    except ValueError:
        seed = 0
    prop = args.prop.upper()
    try:
        from glint.rules import RULES

        if prop not in RULES:
            print(f"ANALYSIS-ERROR property {prop} has no check (see MANIFEST not_applicable)")
            return 2
        repo = Repo(args.repo)
        only = None
        if args.replay:
            with open(args.replay, encoding="utf-8") as fh:
                rp = json.load(fh)
            only = (rp["rule"], rp["instance"])
        ctx = Ctx(repo, prop, args.tier)
        run_rules(RULES[prop], ctx)
        if only is not None:
            ctx.obligations = [o for o in ctx.obligations if (o.rule, o.instance) == only]
            if not ctx.obligations:
                print(f"ANALYSIS-ERROR replay instance {only} no longer exists in the tree")
                return 2
        if not ctx.obligations:
            raise AnalysisError(f"{prop}: no obligation was generated" + "; ".join(ctx.shortfalls))
        if args.tier == "thorough" and only is None:
            thorough_extras(ctx, prop)
        rc = finish(ctx, t0, seed, repo.stats(), replay_only=only is not None)
        if ctx.shortfalls and rc == 0:
            for m in ctx.shortfalls:
                print(f"ANALYSIS-ERROR {prop}: {m}")
            return 2
        return rc
    except AnalysisError as e:
        print(f"ANALYSIS-ERROR {prop}: {e}")
        return 2
    except Exception:  # never let a traceback masquerade as a violation (exit 1)
        traceback.print_exc()
        print(f"ANALYSIS-ERROR {prop}: internal error in the analysis (see traceback above)")
        return 2


if __name__ == "__main__":
    sys.exit(main())
