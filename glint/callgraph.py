"""A2 + A3 - annotation based receiver typing and a resolved call graph.

Types are *sets of repo class qualnames* (plus the element type for containers), taken
from annotations of parameters, returns, class attributes and ``self.x: T`` stores, from
constructor calls and from the return annotations of resolved callees.  Method calls are
dispatched through the class hierarchy (the declared class, its MRO and every subclass
that overrides the method).  A receiver that cannot be typed falls back to name-based
dispatch over all repo methods of that name and is counted as *unresolved*.
"""

from __future__ import annotations

import ast
from dataclasses import dataclass
from dataclasses import field

from glint.index import ClassInfo
from glint.index import FunctionInfo
from glint.index import ModuleInfo
from glint.index import Repo
from glint.index import norm
from glint.index import walk_no_nested


@dataclass
class T:
    """A static type: classes it may be, and element type when it is a container."""

    classes: frozenset = frozenset()
    elem: "T | None" = None
    text: str = ""

    def __bool__(self) -> bool:
        return bool(self.classes) or self.elem is not None or bool(self.text)


NOTYPE = T()


def ann_type(repo: Repo, mi: ModuleInfo, ann: ast.AST | None) -> T:
    if ann is None:
        return NOTYPE
    if isinstance(ann, ast.Constant) and isinstance(ann.value, str):
        try:
            ann = ast.parse(ann.value, mode="eval").body
        except SyntaxError:
            return NOTYPE
    if isinstance(ann, ast.BinOp) and isinstance(ann.op, ast.BitOr):
        a, b = ann_type(repo, mi, ann.left), ann_type(repo, mi, ann.right)
        return T(a.classes | b.classes, a.elem or b.elem, norm(ann))
    if isinstance(ann, ast.Subscript):
        base = norm(ann.value)
        args = ann.slice.elts if isinstance(ann.slice, ast.Tuple) else [ann.slice]
        if base.split(".")[-1] in ("Optional", "Union"):
            out = NOTYPE
            for a in args:
                t = ann_type(repo, mi, a)
                out = T(out.classes | t.classes, out.elem or t.elem, norm(ann))
            return out
        if base.split(".")[-1] in ("list", "List", "Sequence", "Iterable", "Iterator", "Generator", "set", "tuple", "Tuple"):
            return T(frozenset(), ann_type(repo, mi, args[0]), norm(ann))
        if base.split(".")[-1] in ("dict", "Dict", "Mapping", "MutableMapping", "OrderedDict"):
            return T(frozenset(), ann_type(repo, mi, args[-1]), norm(ann))
        if base.split(".")[-1] in ("type", "Type"):
            return ann_type(repo, mi, args[0])
        return ann_type(repo, mi, ann.value)
    q = repo.resolve_expr(mi, ann)
    if q is not None and q in repo.classes:
        return T(frozenset([q]), None, norm(ann))
    return T(frozenset(), None, norm(ann))


class TypeEnv:
    def __init__(self, repo: Repo, fi: FunctionInfo):
        self.repo = repo
        self.fi = fi
        self.locals: dict[str, T] = {}
        self._build()

    def _owner_class(self) -> ClassInfo | None:
        f = self.fi
        while f is not None and f.cls is None and f.parent is not None:
            f = f.parent
        return f.cls if f is not None else None

    def _build(self) -> None:
        fi, repo = self.fi, self.repo
        a = fi.node.args
        allargs = a.posonlyargs + a.args + a.kwonlyargs
        cls = self._owner_class()
        for i, arg in enumerate(allargs):
            if i == 0 and cls is not None and fi.cls is not None and not fi.is_static():
                self.locals[arg.arg] = T(frozenset([cls.qualname]))
                continue
            self.locals[arg.arg] = ann_type(repo, fi.module, arg.annotation)
        if fi.parent is not None:
            penv = TypeEnv(repo, fi.parent)
            for k, v in penv.locals.items():
                self.locals.setdefault(k, v)
        # two passes so that later definitions can use earlier ones
        for _ in range(2):
            for n in sorted(walk_no_nested(fi.node), key=lambda x: getattr(x, "lineno", 0)):
                if isinstance(n, ast.AnnAssign) and isinstance(n.target, ast.Name):
                    t = ann_type(repo, fi.module, n.annotation)
                    if t:
                        self.locals[n.target.id] = t
                elif isinstance(n, ast.Assign) and len(n.targets) == 1:
                    tgt = n.targets[0]
                    if isinstance(tgt, ast.Name):
                        ann = getattr(n, "_annotation", None)  # canonicalised ``x: T = e``
                        t = ann_type(repo, fi.module, ann) if ann is not None else None
                        if t and t.text in ("object", "Any", "typing.Any"):
                            t = None  # uninformative annotation: fall back to the type of the value
                        if t:
                            self.locals[tgt.id] = t
                            continue
                        t = self.type_of(n.value)
                        if t and not self.locals.get(tgt.id):
                            self.locals[tgt.id] = t
                    elif isinstance(tgt, ast.Tuple) and isinstance(n.value, ast.Tuple) and len(tgt.elts) == len(n.value.elts):
                        for te, ve in zip(tgt.elts, n.value.elts):
                            if isinstance(te, ast.Name):
                                t = self.type_of(ve)
                                if t and not self.locals.get(te.id):
                                    self.locals[te.id] = t
                elif isinstance(n, (ast.For, ast.comprehension)):
                    self._bind_iter(n.target, n.iter)
                elif isinstance(n, ast.With):
                    for it in n.items:
                        if isinstance(it.optional_vars, ast.Name):
                            t = self.type_of(it.context_expr)
                            if t:
                                self.locals.setdefault(it.optional_vars.id, t)

    def _bind_iter(self, target: ast.AST, it: ast.AST) -> None:
        # for x in C / C.values() / enumerate(C) / C.items() / zip(A, B)
        if isinstance(it, ast.Call) and norm(it.func) == "enumerate" and it.args:
            if isinstance(target, ast.Tuple) and len(target.elts) == 2:
                self._bind_iter(target.elts[1], it.args[0])
            return
        if isinstance(it, ast.Call) and norm(it.func) == "zip" and isinstance(target, ast.Tuple):
            for te, ae in zip(target.elts, it.args):
                self._bind_iter(te, ae)
            return
        if isinstance(it, ast.Call) and isinstance(it.func, ast.Attribute) and it.func.attr in ("values", "items"):
            ct = self.type_of(it.func.value)
            if ct.elem:
                if it.func.attr == "values" and isinstance(target, ast.Name):
                    self.locals.setdefault(target.id, ct.elem)
                elif it.func.attr == "items" and isinstance(target, ast.Tuple) and len(target.elts) == 2:
                    if isinstance(target.elts[1], ast.Name):
                        self.locals.setdefault(target.elts[1].id, ct.elem)
            return
        ct = self.type_of(it)
        if ct.elem and isinstance(target, ast.Name):
            self.locals.setdefault(target.id, ct.elem)

    # ------------------------------------------------------------------ typing
    def attr_type(self, cls_qn: str, attr: str) -> T:
        repo = self.repo
        hit = repo.class_annotation(cls_qn, attr)
        if hit is not None:
            ann, ci = hit
            t = ann_type(repo, ci.module, ann)
            if t:
                return t
        # property / method return annotations
        m = repo.find_method(cls_qn, attr)
        if m is not None and m.is_property():
            return ann_type(repo, m.module, m.node.returns)
        # self.attr stores in any method of the MRO
        for q in repo.mro(cls_qn):
            ci = repo.classes.get(q)
            if ci is None:
                continue
            for meth in ci.methods.values():
                for n in walk_no_nested(meth.node):
                    tgt = None
                    val = None
                    ann = None
                    if isinstance(n, ast.AnnAssign):
                        tgt, val, ann = n.target, n.value, n.annotation
                    elif isinstance(n, ast.Assign) and len(n.targets) == 1:
                        tgt, val = n.targets[0], n.value
                    if (
                        isinstance(tgt, ast.Attribute)
                        and isinstance(tgt.value, ast.Name)
                        and tgt.value.id == "self"
                        and tgt.attr == attr
                    ):
                        if ann is not None:
                            t = ann_type(repo, ci.module, ann)
                            if t:
                                return t
                        if val is not None and meth is not self.fi:
                            t = TypeEnv(repo, meth).type_of(val) if _cheap(val) else NOTYPE
                            if t:
                                return t
                        elif val is not None:
                            t = self.type_of(val) if _cheap(val) else NOTYPE
                            if t:
                                return t
        return NOTYPE

    def type_of(self, e: ast.AST) -> T:
        repo = self.repo
        if isinstance(e, ast.Name):
            if e.id in self.locals:
                return self.locals[e.id]
            q = repo.resolve_name(self.fi.module, e.id)
            if q in repo.classes:
                return T(frozenset(), None, f"type[{q}]")
            return NOTYPE
        if isinstance(e, ast.Attribute):
            bt = self.type_of(e.value)
            for c in sorted(bt.classes):
                t = self.attr_type(c, e.attr)
                if t:
                    return t
            return NOTYPE
        if isinstance(e, ast.Subscript):
            bt = self.type_of(e.value)
            return bt.elem or NOTYPE
        if isinstance(e, ast.Call):
            q = repo.resolve_expr(self.fi.module, e.func)
            if q in repo.classes:
                return T(frozenset([q]))
            for callee in self.callees(e)[0]:
                t = ann_type(repo, callee.module, callee.node.returns)
                if t:
                    return t
            if isinstance(e.func, ast.Attribute) and e.func.attr in ("copy",):
                return self.type_of(e.func.value)
            if isinstance(e.func, ast.Attribute) and e.func.attr in ("values",):
                bt = self.type_of(e.func.value)
                return T(frozenset(), bt.elem) if bt.elem else NOTYPE
            if isinstance(e.func, ast.Attribute) and e.func.attr in ("get", "pop"):
                bt = self.type_of(e.func.value)
                return bt.elem or NOTYPE
            return NOTYPE
        if isinstance(e, ast.IfExp):
            a, b = self.type_of(e.body), self.type_of(e.orelse)
            return T(a.classes | b.classes, a.elem or b.elem)
        if isinstance(e, ast.BoolOp):
            out = NOTYPE
            for v in e.values:
                t = self.type_of(v)
                out = T(out.classes | t.classes, out.elem or t.elem)
            return out
        return NOTYPE

    # --------------------------------------------------------------- dispatch
    def callees(self, call: ast.Call) -> tuple[list[FunctionInfo], bool]:
        """Resolved callee functions; second value False if the receiver was not typed."""
        repo = self.repo
        f = call.func
        if isinstance(f, ast.Name):
            if f.id in self.locals and self.locals[f.id].classes:
                return [], True
            q = repo.resolve_name(self.fi.module, f.id)
            # nested function defined in this function
            for sub in repo.functions.values():
                if sub.parent is self.fi and sub.name == f.id:
                    return [sub], True
            if q in repo.functions:
                return [repo.functions[q]], True
            if q in repo.classes:
                m = repo.find_method(q, "__init__")
                return ([m] if m else []), True
            return [], True
        if isinstance(f, ast.Attribute):
            # super().method
            if isinstance(f.value, ast.Call) and norm(f.value.func) == "super":
                cls = self._owner_class()
                if cls is not None:
                    for q in repo.mro(cls.qualname)[1:]:
                        ci = repo.classes.get(q)
                        if ci is not None and f.attr in ci.methods:
                            return [ci.methods[f.attr]], True
                return [], True
            q = repo.resolve_expr(self.fi.module, f)
            root = f
            while isinstance(root, ast.Attribute):
                root = root.value
            root_is_local = isinstance(root, ast.Name) and root.id in self.locals
            if q is not None and not root_is_local:
                if q in repo.functions:
                    return [repo.functions[q]], True
                if q in repo.classes:
                    m = repo.find_method(q, "__init__")
                    return ([m] if m else []), True
                if isinstance(root, ast.Name) and root.id in self.fi.module.imports:
                    return [], True  # external library call
            rt = self.type_of(f.value)
            if rt.classes:
                out: list[FunctionInfo] = []
                for c in sorted(rt.classes):
                    m = repo.find_method(c, f.attr)
                    if m is not None and m not in out:
                        out.append(m)
                    for sc in repo.subclasses(c):
                        ci = repo.classes[sc]
                        if f.attr in ci.methods and ci.methods[f.attr] not in out:
                            out.append(ci.methods[f.attr])
                return out, True
            if rt.text.startswith("type["):
                cq = rt.text[5:-1]
                m = repo.find_method(cq, f.attr)
                return ([m] if m else []), True
            # untyped receiver: name based fallback over repo methods
            cands = [
                ci.methods[f.attr]
                for ci in repo.classes.values()
                if f.attr in ci.methods and not f.attr.startswith("__")
            ]
            return cands, False
        return [], True


def _cheap(val: ast.AST) -> bool:
    return isinstance(val, (ast.Name, ast.Call, ast.Attribute, ast.IfExp, ast.Subscript))


_ENVS: dict = {}


def env_of(repo: Repo, fi: FunctionInfo) -> TypeEnv:
    e = _ENVS.get(id(fi.node))
    if e is None or e.fi is not fi:
        e = TypeEnv(repo, fi)
        _ENVS[id(fi.node)] = e
    return e


@dataclass
class CallGraph:
    repo: Repo
    edges: dict[str, set[str]] = field(default_factory=dict)  # caller qualname -> callees
    redges: dict[str, set[str]] = field(default_factory=dict)
    sites: dict[tuple[str, str], list[ast.Call]] = field(default_factory=dict)
    unresolved: list[tuple[str, str]] = field(default_factory=list)
    n_calls: int = 0

    @staticmethod
    def build(repo: Repo, include_untyped: bool = True) -> "CallGraph":
        cg = CallGraph(repo)
        for fi in repo.functions.values():
            env = env_of(repo, fi)
            cg.edges.setdefault(fi.qualname, set())
            for n in walk_no_nested(fi.node):
                if isinstance(n, ast.Call):
                    cg.n_calls += 1
                    cs, typed = env.callees(n)
                    if not typed:
                        cg.unresolved.append((fi.qualname, norm(n.func)))
                        if not include_untyped or len(cs) > 12:
                            cs = []
                    for c in cs:
                        cg.edges[fi.qualname].add(c.qualname)
                        cg.redges.setdefault(c.qualname, set()).add(fi.qualname)
                        cg.sites.setdefault((fi.qualname, c.qualname), []).append(n)
                    # callables passed as arguments (callbacks)
                    for a in list(n.args) + [k.value for k in n.keywords]:
                        if isinstance(a, (ast.Name, ast.Attribute)):
                            fake = ast.Call(func=a, args=[], keywords=[])
                            try:
                                tcs, ttyped = env.callees(fake)
                            except Exception:
                                tcs, ttyped = [], True
                            if ttyped and len(tcs) <= 3:
                                for c in tcs:
                                    if isinstance(a, ast.Name) and a.id in env.locals and not any(
                                        s.parent is fi and s.name == a.id for s in repo.functions.values()
                                    ):
                                        continue
                                    cg.edges[fi.qualname].add(c.qualname)
                                    cg.redges.setdefault(c.qualname, set()).add(fi.qualname)
                # nested function definitions are reachable from their parent
            for sub in repo.functions.values():
                if sub.parent is fi:
                    cg.edges[fi.qualname].add(sub.qualname)
                    cg.redges.setdefault(sub.qualname, set()).add(fi.qualname)
        return cg

    def reachable_from(self, roots: list[str]) -> set[str]:
        seen: set[str] = set()
        stack = list(roots)
        while stack:
            q = stack.pop()
            if q in seen:
                continue
            seen.add(q)
            stack.extend(self.edges.get(q, ()))
        return seen

    def callers(self, q: str) -> set[str]:
        return set(self.redges.get(q, ()))


_CG: dict = {}


def callgraph(repo: Repo) -> CallGraph:
    cg = _CG.get(id(repo))
    if cg is None:
        cg = CallGraph.build(repo)
        _CG[id(repo)] = cg
    return cg
