"""Alpha-normalisation of function-local names.

Rules are written against the local variable names of the tree they were confirmed on.
Renaming a local variable never changes behaviour, so before any rule runs every function whose
body is *alpha-equivalent* to the confirmed one (identical AST once local names are replaced by
the index of their first binding) is renamed back, in memory, to the confirmed names.  The table
``glint/tables/alpha.json`` holds, per function, only the hash of that name-masked AST and the
list of confirmed local names in canonical order.  A function that changed in any other way does
not match the hash and is analysed exactly as written.
"""

from __future__ import annotations

import ast
import hashlib
import json
import os

TABLE = os.path.join(os.path.dirname(os.path.abspath(__file__)), "tables", "alpha.json")


def local_names(fn: ast.FunctionDef | ast.AsyncFunctionDef) -> list[str]:
    """Local variables of ``fn`` (incl. loop / comprehension variables) in order of first binding."""
    params = {a.arg for a in fn.args.posonlyargs + fn.args.args + fn.args.kwonlyargs}
    if fn.args.vararg:
        params.add(fn.args.vararg.arg)
    if fn.args.kwarg:
        params.add(fn.args.kwarg.arg)
    declared: set[str] = set()
    nested_params: set[str] = set()
    order: list[str] = []
    for n in ast.walk(fn):
        if isinstance(n, (ast.Global, ast.Nonlocal)):
            declared |= set(n.names)
        if n is not fn and isinstance(n, (ast.FunctionDef, ast.AsyncFunctionDef, ast.Lambda)):
            a = n.args
            nested_params |= {x.arg for x in a.posonlyargs + a.args + a.kwonlyargs}
            if a.vararg:
                nested_params.add(a.vararg.arg)
            if a.kwarg:
                nested_params.add(a.kwarg.arg)
            if not isinstance(n, ast.Lambda):
                declared.add(n.name)
        if isinstance(n, (ast.Import, ast.ImportFrom)):
            for al in n.names:
                declared.add((al.asname or al.name).split(".")[0])
        if isinstance(n, ast.ExceptHandler) and n.name:
            declared.add(n.name)
        if isinstance(n, ast.ClassDef):
            declared.add(n.name)
    stores = [n for n in ast.walk(fn) if isinstance(n, ast.Name) and isinstance(n.ctx, (ast.Store, ast.Del))]
    stores.sort(key=lambda n: (n.lineno, n.col_offset))
    for n in stores:
        if n.id not in order:
            order.append(n.id)
    bad = params | declared | nested_params
    return [n for n in order if n not in bad and not (n.startswith("__") and n.endswith("__"))]


def masked_hash(fn: ast.AST, names: list[str]) -> str:
    idx = {n: f"\x00{i}" for i, n in enumerate(names)}

    class Mask(ast.NodeTransformer):
        def visit_Name(self, node):
            if node.id in idx:
                return ast.Name(id=idx[node.id], ctx=node.ctx)
            return node

    import copy

    masked = Mask().visit(copy.deepcopy(fn))
    # the docstring is not behaviour
    body = masked.body
    if body and isinstance(body[0], ast.Expr) and isinstance(body[0].value, ast.Constant) and isinstance(body[0].value.value, str):
        masked.body = body[1:] or [ast.Pass()]
    return hashlib.sha256(ast.dump(masked, include_attributes=False).encode()).hexdigest()[:24]


def signature(fn: ast.AST) -> tuple[str, list[str]]:
    names = local_names(fn)
    return masked_hash(fn, names), names


_TABLE = None


def table() -> dict:
    global _TABLE
    if _TABLE is None:
        try:
            with open(TABLE, encoding="utf-8") as fh:
                _TABLE = json.load(fh)
        except FileNotFoundError:
            _TABLE = {}
    return _TABLE


def normalise(qualname: str, fn: ast.AST) -> bool:
    """Rename the locals of ``fn`` in place to the confirmed names if it is alpha-equivalent."""
    ref = table().get(qualname)
    if not ref:
        return False
    h, names = signature(fn)
    if h != ref["hash"] or len(names) != len(ref["names"]) or names == ref["names"]:
        return False
    # the target names must not collide with anything else in the function
    mapping = dict(zip(names, ref["names"]))
    others = {n.id for n in ast.walk(fn) if isinstance(n, ast.Name)} - set(names)
    if set(mapping.values()) & others:
        return False
    for n in ast.walk(fn):
        if isinstance(n, ast.Name) and n.id in mapping:
            n.id = mapping[n.id]
    return True
