"""Small AST query helpers shared by the rules."""

from __future__ import annotations

import ast

from glint.cfg import cfg_of
from glint.dataflow import Flow
from glint.index import FunctionInfo
from glint.index import Repo
from glint.index import norm
from glint.index import short  # noqa: F401
from glint.index import parent
from glint.index import walk_no_nested

_FLOWS: dict = {}


def flow(fi: FunctionInfo, repo: Repo) -> Flow:
    f = _FLOWS.get(id(fi.node))
    if f is None or f.fi is not fi:
        f = Flow(fi, repo)
        _FLOWS[id(fi.node)] = f
    return f


def xnorm(fl: Flow, e: ast.AST, at=None) -> str:
    """``norm`` of ``e`` with pure temporaries looked through (``Flow.inline``)."""
    try:
        return norm(fl.inline(e, at))
    except Exception:
        return norm(e)


def xfn(fi: FunctionInfo, repo: Repo) -> str:
    """Normalised text of a whole function with pure temporaries looked through."""
    try:
        return norm(flow(fi, repo).inlined_function())
    except Exception:
        return norm(fi.node)


def xnames(fl: Flow, e: ast.AST, at=None) -> set[str]:
    """Names read by ``e``, temporaries looked through."""
    try:
        return names_in(fl.inline(e, at))
    except Exception:
        return names_in(e)


def attr_chain(e: ast.AST) -> list[str] | None:
    """``self._x.y`` -> ['self', '_x', 'y']; None if not a pure name/attribute chain."""
    out: list[str] = []
    while isinstance(e, ast.Attribute):
        out.append(e.attr)
        e = e.value
    if isinstance(e, ast.Name):
        out.append(e.id)
        return out[::-1]
    return None


def chain_text(e: ast.AST) -> str:
    c = attr_chain(e)
    return ".".join(c) if c else norm(e)


def nodes(fi_or_node, kinds, nested: bool = False):
    root = fi_or_node.node if isinstance(fi_or_node, FunctionInfo) else fi_or_node
    it = ast.walk(root) if nested else walk_no_nested(root)
    return [n for n in it if isinstance(n, kinds)]


def calls(fi_or_node, nested: bool = False) -> list[ast.Call]:
    return sorted(nodes(fi_or_node, ast.Call, nested), key=lambda c: (c.lineno, c.col_offset))


def resolved(repo: Repo, fi: FunctionInfo, f: ast.AST) -> str:
    """Resolved dotted name of a callee expression (falls back to its text)."""
    q = repo.resolve_expr(fi.module, f)
    return q if q is not None else norm(f)


def calls_to(repo: Repo, fi: FunctionInfo, *names: str, nested: bool = False) -> list[ast.Call]:
    """Calls whose resolved callee equals, or whose method/function name equals, one of names."""
    out = []
    for c in calls(fi, nested):
        q = resolved(repo, fi, c.func)
        last = c.func.attr if isinstance(c.func, ast.Attribute) else (c.func.id if isinstance(c.func, ast.Name) else "")
        if q in names or last in names:
            out.append(c)
    return out


def method_calls(fi_or_node, meth: str, nested: bool = False) -> list[ast.Call]:
    return [c for c in calls(fi_or_node, nested) if isinstance(c.func, ast.Attribute) and c.func.attr == meth]


def stmt_of(n: ast.AST) -> ast.stmt:
    while n is not None and not isinstance(n, ast.stmt):
        n = parent(n)
    return n  # type: ignore[return-value]


def ancestors(n: ast.AST, stop: ast.AST | None = None):
    p = parent(n)
    while p is not None and p is not stop:
        yield p
        p = parent(p)


def is_inside(n: ast.AST, container: ast.AST) -> bool:
    return any(a is container for a in ancestors(n)) or n is container


def field_of(n: ast.AST, container: ast.AST) -> str | None:
    """Which field of ``container`` (body/orelse/test/handlers/finalbody/...) holds ``n``?"""
    cur = n
    for a in ancestors(n):
        if a is container:
            for fname, val in ast.iter_fields(container):
                if val is cur or (isinstance(val, list) and any(v is cur for v in val)):
                    return fname
            return None
        cur = a
    return None


def stores(fi_or_node, nested: bool = False):
    """Yield (target_expr, stmt) for every store target (Assign/AugAssign/AnnAssign/for/with)."""
    root = fi_or_node.node if isinstance(fi_or_node, FunctionInfo) else fi_or_node
    it = ast.walk(root) if nested else walk_no_nested(root)
    for n in it:
        if isinstance(n, ast.Assign):
            for t in n.targets:
                for x in _flatten_target(t):
                    yield x, n
        elif isinstance(n, (ast.AugAssign, ast.AnnAssign)):
            if not (isinstance(n, ast.AnnAssign) and n.value is None):
                for x in _flatten_target(n.target):
                    yield x, n
        elif isinstance(n, (ast.For, ast.AsyncFor)):
            for x in _flatten_target(n.target):
                yield x, n
        elif isinstance(n, (ast.With, ast.AsyncWith)):
            for i in n.items:
                if i.optional_vars is not None:
                    for x in _flatten_target(i.optional_vars):
                        yield x, n
        elif isinstance(n, ast.Delete):
            for t in n.targets:
                yield t, n


def _flatten_target(t):
    if isinstance(t, (ast.Tuple, ast.List)):
        for e in t.elts:
            yield from _flatten_target(e)
    elif isinstance(t, ast.Starred):
        yield from _flatten_target(t.value)
    else:
        yield t


def attr_stores(fi, attr_chain_text: str, nested: bool = False):
    """Stores whose target is exactly the attribute chain, e.g. 'self._weight'."""
    return [(t, s) for t, s in stores(fi, nested) if chain_text(t) == attr_chain_text]


def raises(fi_or_node, nested: bool = False) -> list[ast.Raise]:
    return nodes(fi_or_node, ast.Raise, nested)


def raised_name(repo: Repo, fi: FunctionInfo, r: ast.Raise) -> str | None:
    if r.exc is None:
        return None
    e = r.exc.func if isinstance(r.exc, ast.Call) else r.exc
    return resolved(repo, fi, e)


def guarded_by(fl: Flow, node: ast.AST, cond_ok, stop: ast.AST | None = None) -> ast.AST | None:
    """Is ``node`` evaluated only when a condition accepted by ``cond_ok`` holds?

    ``cond_ok(test_expr, polarity, at_stmt)`` is asked for each dominating test; polarity is
    True when node is only reached if the test is truthy, False if only reached when falsy.
    Recognised forms: ``if c: node``, ``x if c else y``, ``c and node``, ``c or node``,
    comprehension ``if``, and early exits ``if not c: return/raise/continue`` preceding
    node in an enclosing block.  Returns the guarding construct or None.
    """
    cur = node
    for a in ancestors(node, stop):
        if isinstance(a, ast.If):
            f = _holder_field(a, cur)
            if f == "body" and cond_ok(a.test, True, a):
                return a
            if f == "orelse" and cond_ok(a.test, False, a):
                return a
        elif isinstance(a, ast.IfExp):
            if cur is a.body and cond_ok(a.test, True, a):
                return a
            if cur is a.orelse and cond_ok(a.test, False, a):
                return a
        elif isinstance(a, ast.BoolOp):
            idx = next((i for i, v in enumerate(a.values) if v is cur), None)
            if idx:
                for prev in a.values[:idx]:
                    if cond_ok(prev, isinstance(a.op, ast.And), a):
                        return a
        elif isinstance(a, ast.While):
            if _holder_field(a, cur) == "body" and cond_ok(a.test, True, a):
                return a
        elif isinstance(a, (ast.ListComp, ast.SetComp, ast.GeneratorExp, ast.DictComp)):
            # the element is guarded by the ifs of the generators
            if cur is getattr(a, "elt", None) or cur is getattr(a, "key", None) or cur is getattr(a, "value", None):
                for g in a.generators:
                    for c in g.ifs:
                        if cond_ok(c, True, a):
                            return a
        # early exits in the enclosing block
        if isinstance(a, (ast.FunctionDef, ast.AsyncFunctionDef, ast.For, ast.While, ast.If, ast.With, ast.Try, ast.ExceptHandler)):
            for fname in ("body", "orelse", "finalbody"):
                block = getattr(a, fname, None)
                if not isinstance(block, list):
                    continue
                idx = next((i for i, s in enumerate(block) if s is cur), None)
                if idx is None:
                    continue
                for prev in block[:idx]:
                    if isinstance(prev, ast.If) and _always_leaves(prev.body):
                        if cond_ok(prev.test, False, prev):
                            return prev
                    if isinstance(prev, ast.If) and prev.orelse and _always_leaves(prev.orelse):
                        if cond_ok(prev.test, True, prev):
                            return prev
        if isinstance(a, (ast.FunctionDef, ast.AsyncFunctionDef, ast.Lambda)):
            break
        cur = a
    return None


def _holder_field(container: ast.AST, child: ast.AST) -> str | None:
    for fname, val in ast.iter_fields(container):
        if val is child or (isinstance(val, list) and any(v is child for v in val)):
            return fname
    return None


def _always_leaves(block: list[ast.stmt]) -> bool:
    if not block:
        return False
    last = block[-1]
    if isinstance(last, (ast.Return, ast.Raise, ast.Continue, ast.Break)):
        return True
    if isinstance(last, ast.If) and last.orelse:
        return _always_leaves(last.body) and _always_leaves(last.orelse)
    return False


def strip_not(e: ast.AST) -> tuple[ast.AST, bool]:
    """Peel ``not``: returns (inner, positive?)."""
    pos = True
    while isinstance(e, ast.UnaryOp) and isinstance(e.op, ast.Not):
        e = e.operand
        pos = not pos
    return e, pos


def docless_body(fn: ast.FunctionDef) -> list[ast.stmt]:
    b = fn.body
    if b and isinstance(b[0], ast.Expr) and isinstance(b[0].value, ast.Constant) and isinstance(b[0].value.value, str):
        return b[1:]
    return b


def cfg(fi: FunctionInfo):
    return cfg_of(fi.node)


def const_str(e: ast.AST) -> str | None:
    return e.value if isinstance(e, ast.Constant) and isinstance(e.value, str) else None


def mentions(e: ast.AST, pred) -> bool:
    return any(pred(n) for n in ast.walk(e))


def names_in(e: ast.AST) -> set[str]:
    return {n.id for n in ast.walk(e) if isinstance(n, ast.Name)}
