"""Small AST query helpers shared by the rules."""

from __future__ import annotations

import ast

from glint.cfg import cfg_of
from glint.dataflow import Flow
from glint.index import FunctionInfo
from glint.index import Repo
from glint.index import norm
from glint.index import short  # noqa: F401
from glint.index import parent
from glint.index import walk_no_nested

_FLOWS: dict = {}


def flow(fi: FunctionInfo, repo: Repo) -> Flow:
    f = _FLOWS.get(id(fi.node))
    if f is None or f.fi is not fi:
        f = Flow(fi, repo)
        _FLOWS[id(fi.node)] = f
    return f


def xnorm(fl: Flow, e: ast.AST, at=None) -> str:
    """``norm`` of ``e`` with pure temporaries looked through (``Flow.inline``)."""
    try:
        return norm(fl.inline(e, at))
    except Exception:
        return norm(e)


def xfn(fi: FunctionInfo, repo: Repo) -> str:
    """Normalised text of a whole function with pure temporaries looked through."""
    try:
        return norm(flow(fi, repo).inlined_function())
    except Exception:
        return norm(fi.node)


def xnames(fl: Flow, e: ast.AST, at=None) -> set[str]:
    """Names read by ``e``, temporaries looked through."""
    try:
        return names_in(fl.inline(e, at))
    except Exception:
        return names_in(e)


def attr_chain(e: ast.AST) -> list[str] | None:
    """``self._x.y`` -> ['self', '_x', 'y']; None if not a pure name/attribute chain."""
    out: list[str] = []
    while isinstance(e, ast.Attribute):
        out.append(e.attr)
        e = e.value
    if isinstance(e, ast.Name):
        out.append(e.id)
        return out[::-1]
    return None


def chain_text(e: ast.AST) -> str:
    c = attr_chain(e)
    return ".".join(c) if c else norm(e)


def nodes(fi_or_node, kinds, nested: bool = False):
    root = fi_or_node.node if isinstance(fi_or_node, FunctionInfo) else fi_or_node
    it = ast.walk(root) if nested else walk_no_nested(root)
    return [n for n in it if isinstance(n, kinds)]


def calls(fi_or_node, nested: bool = False) -> list[ast.Call]:
    return sorted(nodes(fi_or_node, ast.Call, nested), key=lambda c: (c.lineno, c.col_offset))


def resolved(repo: Repo, fi: FunctionInfo, f: ast.AST) -> str:
    """Resolved dotted name of a callee expression (falls back to its text)."""
    q = repo.resolve_expr(fi.module, f)
    return q if q is not None else norm(f)


def calls_to(repo: Repo, fi: FunctionInfo, *names: str, nested: bool = False) -> list[ast.Call]:
    """Calls whose resolved callee equals, or whose method/function name equals, one of names."""
    out = []
    for c in calls(fi, nested):
        q = resolved(repo, fi, c.func)
        last = c.func.attr if isinstance(c.func, ast.Attribute) else (c.func.id if isinstance(c.func, ast.Name) else "")
        if q in names or last in names:
            out.append(c)
    return out


def method_calls(fi_or_node, meth: str, nested: bool = False) -> list[ast.Call]:
    return [c for c in calls(fi_or_node, nested) if isinstance(c.func, ast.Attribute) and c.func.attr == meth]


def stmt_of(n: ast.AST) -> ast.stmt:
    while n is not None and not isinstance(n, ast.stmt):
        n = parent(n)
    return n  # type: ignore[return-value]


def ancestors(n: ast.AST, stop: ast.AST | None = None):
    p = parent(n)
    while p is not None and p is not stop:
        yield p
        p = parent(p)


def is_inside(n: ast.AST, container: ast.AST) -> bool:
    return any(a is container for a in ancestors(n)) or n is container


def field_of(n: ast.AST, container: ast.AST) -> str | None:
    """Which field of ``container`` (body/orelse/test/handlers/finalbody/...) holds ``n``?"""
    cur = n
    for a in ancestors(n):
        if a is container:
            for fname, val in ast.iter_fields(container):
                if val is cur or (isinstance(val, list) and any(v is cur for v in val)):
                    return fname
            return None
        cur = a
    return None


def stores(fi_or_node, nested: bool = False):
    """Yield (target_expr, stmt) for every store target (Assign/AugAssign/AnnAssign/for/with)."""
    root = fi_or_node.node if isinstance(fi_or_node, FunctionInfo) else fi_or_node
    it = ast.walk(root) if nested else walk_no_nested(root)
    for n in it:
        if isinstance(n, ast.Assign):
            for t in n.targets:
                for x in _flatten_target(t):
                    yield x, n
        elif isinstance(n, (ast.AugAssign, ast.AnnAssign)):
            if not (isinstance(n, ast.AnnAssign) and n.value is None):
                for x in _flatten_target(n.target):
                    yield x, n
        elif isinstance(n, (ast.For, ast.AsyncFor)):
            for x in _flatten_target(n.target):
                yield x, n
        elif isinstance(n, (ast.With, ast.AsyncWith)):
            for i in n.items:
                if i.optional_vars is not None:
                    for x in _flatten_target(i.optional_vars):
                        yield x, n
        elif isinstance(n, ast.Delete):
            for t in n.targets:
                yield t, n


def _flatten_target(t):
    if isinstance(t, (ast.Tuple, ast.List)):
        for e in t.elts:
            yield from _flatten_target(e)
    elif isinstance(t, ast.Starred):
        yield from _flatten_target(t.value)
    else:
        yield t


def attr_stores(fi, attr_chain_text: str, nested: bool = False):
    """Stores whose target is exactly the attribute chain, e.g. 'self._weight'."""
    return [(t, s) for t, s in stores(fi, nested) if chain_text(t) == attr_chain_text]


def raises(fi_or_node, nested: bool = False) -> list[ast.Raise]:
    return nodes(fi_or_node, ast.Raise, nested)


def raised_name(repo: Repo, fi: FunctionInfo, r: ast.Raise) -> str | None:
    if r.exc is None:
        return None
    e = r.exc.func if isinstance(r.exc, ast.Call) else r.exc
    return resolved(repo, fi, e)


def guarded_by(fl: Flow, node: ast.AST, cond_ok, stop: ast.AST | None = None) -> ast.AST | None:
    """Is ``node`` evaluated only when a condition accepted by ``cond_ok`` holds?

    ``cond_ok(test_expr, polarity, at_stmt)`` is asked for each dominating test; polarity is
    True when node is only reached if the test is truthy, False if only reached when falsy.
    Recognised forms: ``if c: node``, ``x if c else y``, ``c and node``, ``c or node``,
    comprehension ``if``, and early exits ``if not c: return/raise/continue`` preceding
    node in an enclosing block.  Returns the guarding construct or None.
    """
    cur = node
    for a in ancestors(node, stop):
        if isinstance(a, ast.If):
            f = _holder_field(a, cur)
            if f == "body" and cond_ok(a.test, True, a):
                return a
            if f == "orelse" and cond_ok(a.test, False, a):
                return a
        elif isinstance(a, ast.IfExp):
            if cur is a.body and cond_ok(a.test, True, a):
                return a
            if cur is a.orelse and cond_ok(a.test, False, a):
                return a
        elif isinstance(a, ast.BoolOp):
            idx = next((i for i, v in enumerate(a.values) if v is cur), None)
            if idx:
                for prev in a.values[:idx]:
                    if cond_ok(prev, isinstance(a.op, ast.And), a):
                        return a
        elif isinstance(a, ast.While):
            if _holder_field(a, cur) == "body" and cond_ok(a.test, True, a):
                return a
        elif isinstance(a, (ast.ListComp, ast.SetComp, ast.GeneratorExp, ast.DictComp)):
            # the element is guarded by the ifs of the generators
            if cur is getattr(a, "elt", None) or cur is getattr(a, "key", None) or cur is getattr(a, "value", None):
                for g in a.generators:
                    for c in g.ifs:
                        if cond_ok(c, True, a):
                            return a
        # early exits in the enclosing block
        if isinstance(a, (ast.FunctionDef, ast.AsyncFunctionDef, ast.For, ast.While, ast.If, ast.With, ast.Try, ast.ExceptHandler)):
            for fname in ("body", "orelse", "finalbody"):
                block = getattr(a, fname, None)
                if not isinstance(block, list):
                    continue
                idx = next((i for i, s in enumerate(block) if s is cur), None)
                if idx is None:
                    continue
                for prev in block[:idx]:
                    if isinstance(prev, ast.If) and _always_leaves(prev.body):
                        if cond_ok(prev.test, False, prev):
                            return prev
                    if isinstance(prev, ast.If) and prev.orelse and _always_leaves(prev.orelse):
                        if cond_ok(prev.test, True, prev):
                            return prev
        if isinstance(a, (ast.FunctionDef, ast.AsyncFunctionDef, ast.Lambda)):
            break
        cur = a
    return None


def _holder_field(container: ast.AST, child: ast.AST) -> str | None:
    for fname, val in ast.iter_fields(container):
        if val is child or (isinstance(val, list) and any(v is child for v in val)):
            return fname
    return None


def _always_leaves(block: list[ast.stmt]) -> bool:
    if not block:
        return False
    last = block[-1]
    if isinstance(last, (ast.Return, ast.Raise, ast.Continue, ast.Break)):
        return True
    if isinstance(last, ast.If) and last.orelse:
        return _always_leaves(last.body) and _always_leaves(last.orelse)
    return False


def strip_not(e: ast.AST) -> tuple[ast.AST, bool]:
    """Peel ``not``: returns (inner, positive?)."""
    pos = True
    while isinstance(e, ast.UnaryOp) and isinstance(e.op, ast.Not):
        e = e.operand
        pos = not pos
    return e, pos


def docless_body(fn: ast.FunctionDef) -> list[ast.stmt]:
    b = fn.body
    if b and isinstance(b[0], ast.Expr) and isinstance(b[0].value, ast.Constant) and isinstance(b[0].value.value, str):
        return b[1:]
    return b


def cfg(fi: FunctionInfo):
    return cfg_of(fi.node)


def const_str(e: ast.AST) -> str | None:
    return e.value if isinstance(e, ast.Constant) and isinstance(e.value, str) else None


def mentions(e: ast.AST, pred) -> bool:
    return any(pred(n) for n in ast.walk(e))


def names_in(e: ast.AST) -> set[str]:
    return {n.id for n in ast.walk(e) if isinstance(n, ast.Name)}


def loop_escapes(fi: FunctionInfo, repo: Repo) -> list[tuple[ast.AST, str, ast.AST]]:
    """Reads, after a ``for`` loop, of a plain local whose every reaching definition lies inside that
    loop's body (including the loop target): the value is the one of the *last* iteration only.
    Accumulators (bound before the loop as well) are not reported."""
    fl = flow(fi, repo)
    out = []
    loops = [n for n in nodes(fi, (ast.For, ast.While))]
    if not loops:
        return out
    for n in walk_no_nested(fi.node):
        if not (isinstance(n, ast.Name) and isinstance(n.ctx, ast.Load)):
            continue
        # names bound by an enclosing comprehension / lambda are not function locals
        shadowed = False
        for a in ancestors(n, fi.node):
            if isinstance(a, (ast.ListComp, ast.SetComp, ast.DictComp, ast.GeneratorExp)):
                for g in a.generators:
                    if n.id in {x.id for x in ast.walk(g.target) if isinstance(x, ast.Name)}:
                        shadowed = True
            if isinstance(a, ast.Lambda) and n.id in {x.arg for x in a.args.args}:
                shadowed = True
        if shadowed:
            continue
        try:
            ds = fl.reaching(n.id, n)
        except Exception:
            continue
        if not ds or any(d.kind in ("param", "import", "def") or d.stmt is None for d in ds):
            continue
        for lp in loops:
            if is_inside(n, lp):
                continue
            inside = [d for d in ds if d.stmt is lp or (is_inside(d.stmt, lp) and field_of(d.stmt, lp) == "body")]
            if len(inside) == len(ds):
                out.append((n, n.id, lp))
                break
    return out


def check_no_loop_escape(ctx, rule: str, prefixes: tuple[str, ...], minimum: int) -> None:
    """Obligation per function with a loop under ``prefixes``: no per-iteration value is read after its loop."""
    n = 0
    for fi in ctx.repo.functions.values():
        if not fi.rel.startswith(prefixes) or not nodes(fi, (ast.For, ast.While)):
            continue
        n += 1
        ctx.touch(fi)
        esc = loop_escapes(fi, ctx.repo)
        ctx.ob(rule, f"{fi.short}/per-iteration-values-stay-in-their-loop", not esc, fi, esc[0][0] if esc else fi.node,
               "a value bound only inside a loop body and read after the loop is the value of the last iteration: quantities that "
               "belong to one index (IRF centre/width, scale, weight, label) must be collected per iteration",
               [f"`{v}` read at line {u.lineno}, bound only inside the loop at line {lp.lineno}" for u, v, lp in esc[:4]] or None,
               construct=short(stmt_of(esc[0][0]), 120) if esc else "def " + fi.name)
    ctx.sites(rule, "functions with loops examined for escaping per-iteration values", n, minimum)


def overflowing_exponentials(fi: FunctionInfo, repo: Repo) -> tuple[int, list[ast.Call]]:
    """``exp`` calls whose argument's normal form is a sum of monomials with positive coefficients and
    even powers only (a positive definite form such as ``alpha * alpha``): such a factor overflows on
    its own where the complete exponent of the formula is moderate.  Returns (#exp calls seen, offenders)."""
    fl = flow(fi, repo)
    seen, bad = 0, []
    for c in calls(fi):
        if not (norm(c.func) in ("np.exp", "numpy.exp", "math.exp", "exp", "cmath.exp") and len(c.args) == 1):
            continue
        seen += 1
        try:
            t = fl.term(c.args[0], stmt_of(c))
        except Exception:
            continue
        monos = [(m, co) for m, co in t.terms.items()]
        nonconst = [m for m, _ in monos if m != ()]
        if not nonconst:
            continue
        if all(co > 0 and all(e.denominator == 1 and e.numerator % 2 == 0 for _, e in m) for m, co in monos):
            bad.append(c)
    return seen, bad


def check_no_overflowing_exp(ctx, rule: str, fns: list[FunctionInfo], minimum: int) -> None:
    total = 0
    for fi in fns:
        seen, bad = overflowing_exponentials(fi, ctx.repo)
        total += seen
        if seen:
            ctx.ob(rule, f"{fi.short}/no-exponential-of-a-positive-definite-form", not bad, fi, bad[0] if bad else fi.node,
                   "splitting exp(a + b) into exp(a) * exp(b) with a = (rate*width)^2/2 >= 0 overflows (and the partner underflows) for "
                   "rate*width >~ 37 although the product is moderate; every exponential must carry the complete exponent",
                   [f"exp({norm(c.args[0])}) at line {c.lineno}" for c in bad[:3]] or None,
                   construct=short(bad[0], 100) if bad else f"{seen} exp calls")
    ctx.sites(rule, "exp calls examined for positive definite exponents", total, minimum)


def check_filled_items_fresh(ctx, rule: str, prefixes: tuple[str, ...] = ("glotaran/optimization/",), minimum: int = 3) -> None:
    """Model items filled with parameter values (`fill_item`) are per-evaluation values.

    For every call of ``fill_item`` under ``prefixes``: (a) the parameters argument is the group's
    *current* parameters read in the same function (``self.group.parameters``), (b) the call is not in a
    constructor, (c) neither the result nor a container built from it is stored in an attribute."""
    n = 0
    for fi in ctx.repo.functions.values():
        if not fi.rel.startswith(prefixes):
            continue
        cs = [c for c in calls(fi, nested=True) if (resolved(ctx.repo, fi, c.func) or "").endswith("model.item.fill_item") or norm(c.func) == "fill_item"]
        if not cs:
            continue
        fl = flow(fi, ctx.repo)
        ctx.touch(fi)
        for c in cs:
            n += 1
            st = stmt_of(c)
            par = c.args[2] if len(c.args) >= 3 else next((k.value for k in c.keywords if k.arg == "parameters"), None)
            src = xnorm(fl, par, st) if par is not None else ""
            if par is not None and isinstance(par, ast.Name):
                ds = fl.reaching(par.id, st)
                if ds and all(d.kind == "assign" and d.value is not None for d in ds):
                    src = " | ".join(sorted({norm(d.value) for d in ds}))
            cur = src in ("self.group.parameters", "self._group.parameters")
            ctx.ob(rule, f"{fi.short}/filled-with-current-parameters", cur, fi, c,
                   "the item is filled with the parameters the group holds *now* (`self.group.parameters`, replaced by the optimiser "
                   "before every evaluation), read in the evaluating function itself", [f"parameters argument: {src or '?'}"],
                   construct=short(c, 110))
            in_init = fi.name in ("__init__", "__post_init__", "__attrs_post_init__")
            stored = False
            tgt_names = set()
            if isinstance(st, ast.Assign):
                for t in st.targets:
                    if isinstance(t, (ast.Attribute, ast.Subscript)) and "self" in names_in(t):
                        stored = True
                    tgt_names |= {x.id for x in ast.walk(t) if isinstance(x, ast.Name)}
            for t, s2 in stores(fi):
                if isinstance(t, (ast.Attribute, ast.Subscript)) and "self" in names_in(t) and getattr(s2, "value", None) is not None \
                        and tgt_names - {"self"} and (names_in(s2.value) & (tgt_names - {"self"})):
                    stored = True
            ctx.ob(rule, f"{fi.short}/filled-item-not-cached", not in_init and not stored, fi, st,
                   "a filled item holds parameter *objects* of one parameter set; kept across evaluations it keeps the values of the "
                   "set it was filled from (the optimiser works on a copy), so the matrix side and the clp side of an evaluation disagree",
                   construct=short(st, 110))
    ctx.sites(rule, "fill_item calls in the evaluation code", n, minimum)


def stmts_when(fi: FunctionInfo, repo: Repo, pred) -> list[ast.stmt]:
    """Simple statements of ``fi`` that are executed only when a test accepted by ``pred(expr)`` is true
    (nested ``if``, ``elif``, or guard form ``if not <test>: leave`` before the statement)."""
    fl = flow(fi, repo)

    def cond_ok(test, polarity, at):
        e, pos = strip_not(test)
        return pred(e) and (polarity == pos)

    out = []
    for n in walk_no_nested(fi.node):
        if isinstance(n, ast.stmt) and not isinstance(n, (ast.If, ast.For, ast.While, ast.With, ast.Try, ast.FunctionDef, ast.ClassDef)):
            if guarded_by(fl, n, cond_ok, fi.node) is not None:
                out.append(n)
    out.sort(key=lambda s: (s.lineno, s.col_offset))
    return out


def parameter_typed_attributes(repo: Repo) -> set[str]:
    """Names of model-item attributes whose annotation mentions ParameterType / Parameter (values that change per evaluation)."""
    out = set()
    for ci in repo.classes.values():
        if not ci.rel.startswith(("glotaran/model/", "glotaran/builtin/megacomplexes/")):
            continue
        for name, ann in ci.annotations.items():
            t = norm(ann)
            if "ParameterType" in t or t in ("Parameter", "Parameter | None") or "list[Parameter]" in t or "dict[str, Parameter]" in t:
                out.add(name)
    # names that are also ordinary attribute names of non-model objects (MatrixContainer.matrix, ...) are too generic to decide on
    return out - {"matrix", "parameter"}


def check_no_parameter_state_in_constructors(ctx, rule: str) -> None:
    repo = ctx.repo
    pattrs = parameter_typed_attributes(repo)
    ctx.sites(rule, "parameter-typed model attributes known", len(pattrs), 5)
    n = 0
    for ci in repo.classes.values():
        if ci.rel not in ("glotaran/optimization/data_provider.py", "glotaran/optimization/matrix_provider.py", "glotaran/optimization/estimation_provider.py"):
            continue
        init = ci.methods.get("__init__")
        if init is None:
            continue
        n += 1
        ctx.touch(init)
        bad = []
        for a in nodes(init, ast.Attribute, nested=True):
            if not isinstance(a.ctx, ast.Load):
                continue
            if a.attr in pattrs and not (isinstance(a.value, ast.Name) and a.value.id == "self"):
                bad.append(a)
            if a.attr == "parameters" and not (isinstance(a.value, ast.Name) and a.value.id == "self"):
                bad.append(a)
        ctx.ob(rule, f"{ci.name}.__init__/no-parameter-values-captured", not bad, init, stmt_of(bad[0]) if bad else init.node,
               "the optimiser replaces the group's parameters before every evaluation; a value read from a parameter-typed attribute "
               "(dataset scale, megacomplex parameter, `.parameters`) in the constructor stays at the initial parameters for the whole fit",
               [f"reads `{norm(a)}` (line {a.lineno})" for a in bad[:4]] or None, construct=short(stmt_of(bad[0]), 110) if bad else f"{ci.name}.__init__")
    ctx.sites(rule, "provider constructors examined", n, 4)


def _callee_params(repo: Repo, fi: FunctionInfo, c: ast.Call) -> tuple[str, list[str]] | None:
    """(display name, parameter names) of the callee of ``c`` when it can be resolved: functions, methods on
    self / typed receivers by name in the own class hierarchy, classes (constructor or dataclass/attrs fields)."""
    f = c.func
    if isinstance(f, ast.Attribute) and isinstance(f.value, ast.Name) and f.value.id in ("self", "cls") and fi.cls:
        ci = repo.classes.get(f"{fi.module.name}.{fi.cls}") if not hasattr(fi.cls, "qualname") else fi.cls
        cq = getattr(ci, "qualname", None) or f"{fi.module.name}.{fi.cls}"
        m = repo.find_method(cq, f.attr)
        if m is not None:
            return m.short, [p for p in m.params() if p not in ("self", "cls")]
        return None
    if isinstance(f, ast.Attribute):
        # method on a typed receiver (annotated attribute / parameter / local)
        try:
            from glint.callgraph import env_of

            t = env_of(repo, fi).type_of(f.value)
            classes = sorted(getattr(t, "classes", ()) or ())
        except Exception:
            classes = []
        if len(classes) == 1:
            m = repo.find_method(classes[0], f.attr)
            if m is not None:
                return m.short, [p for p in m.params() if p not in ("self", "cls")]
    q = resolved(repo, fi, f)
    if q in repo.functions:
        g = repo.functions[q]
        return g.short, [p for p in g.params() if p not in ("self", "cls")]
    if q in repo.classes:
        ci = repo.classes[q]
        init = repo.find_method(q, "__init__")
        if init is not None:
            return ci.name, [p for p in init.params() if p != "self"]
        fields = []
        for k in repo.mro(q):
            kc = repo.classes.get(k)
            if kc is not None:
                fields += [a for a in kc.annotations if a not in fields]
        return ci.name, fields
    return None


def check_option_forwarding(ctx, rule: str, names: tuple[str, ...], minimum: int, prefixes: tuple[str, ...] = ("glotaran/",)) -> None:
    """A function that takes option ``p`` and calls a function that also takes ``p`` hands its own, unmodified ``p`` on."""
    repo = ctx.repo
    n = 0
    for fi in repo.functions.values():
        if not fi.rel.startswith(prefixes):
            continue
        own = [p for p in fi.params() if p in names]
        if not own:
            continue
        fl = None
        for c in calls(fi, nested=False):
            cp = _callee_params(repo, fi, c)
            if cp is None:
                continue
            cname, cparams = cp
            for p in own:
                if p not in cparams:
                    continue
                n += 1
                if fl is None:
                    fl = flow(fi, repo)
                    ctx.touch(fi)
                v = next((k.value for k in c.keywords if k.arg == p), None)
                if v is None and any(k.arg is None for k in c.keywords):
                    continue  # **kwargs forwarding
                if v is None:
                    idx = cparams.index(p)
                    v = c.args[idx] if idx < len(c.args) and not any(isinstance(a, ast.Starred) for a in c.args) else None
                ok = isinstance(v, ast.Name) and v.id == p and all(d.kind == "param" for d in fl.reaching(p, stmt_of(c)))
                ctx.ob(rule, f"{fi.short}->{cname}/forwards:{p}", ok, fi, c,
                       f"`{p}` is accepted by both {fi.short} and {cname}: the caller's value must be handed on unchanged, otherwise the "
                       "option is silently replaced by the callee's default", construct=short(c, 110))
    ctx.sites(rule, f"call sites forwarding {'/'.join(names)}", n, minimum)


def check_linkable_requires_one_global_dimension(ctx, rule: str) -> None:
    fi = ctx.fn("glotaran/model/dataset_group.py", "DatasetGroup.is_linkable")
    fl = flow(fi, ctx.repo)
    data_p = fi.params()[2]
    rets = [r for r in nodes(fi, ast.Return) if not isinstance(r.value, ast.Constant)]
    ok = False
    trace = []
    for r in rets:
        v = fl.inline(r.value, r)
        if isinstance(v, ast.Compare) and len(v.ops) == 1 and isinstance(v.ops[0], ast.Eq) and isinstance(v.comparators[0], ast.Constant) \
                and v.comparators[0].value == 1 and isinstance(v.left, ast.Call) and norm(v.left.func) == "len" and len(v.left.args) == 1:
            arg = v.left.args[0]
            if isinstance(arg, ast.Name):
                # a set accumulated over every dataset
                inits = [d for d in fl.defs_of(arg.id) if d.kind == "assign" and norm(d.value) in ("set()", "{*()}")]
                accs = [s for t, s in stores(fi) if isinstance(s, ast.AugAssign) and isinstance(s.op, ast.BitOr) and norm(t) == arg.id]
                accs += [stmt_of(c) for c in method_calls(fi, "update") + method_calls(fi, "add") if norm(c.func.value) == arg.id]
                loops = [lp for lp in nodes(fi, ast.For) if norm(lp.iter) in (f"{data_p}.values()", f"{data_p}.items()", data_p)]
                ok = bool(inits) and bool(accs) and any(is_inside(a, lp) for a in accs for lp in loops)
                trace.append(f"set `{arg.id}`: {len(inits)} initialisation(s), {len(accs)} accumulation(s) inside {len(loops)} loop(s) over the data")
            elif isinstance(arg, ast.SetComp) and len(arg.generators) >= 2 and data_p in norm(arg.generators[0].iter):
                ok = True
    # where the dimension names come from: the data variable itself (results add variables with further dimensions to the dataset)
    src_ok = False
    for n in ast.walk(fi.node):
        if isinstance(n, (ast.SetComp, ast.ListComp, ast.GeneratorExp)):
            for g in n.generators:
                t = norm(g.iter)
                if t.endswith(".data.coords") or t.endswith(".data.dims"):
                    src_ok = True
    ctx.ob(rule, "DatasetGroup.is_linkable/dimensions-of-the-data-variable", src_ok, fi, rets[-1] if rets else fi.node,
           "the global dimension is read from the `data` variable (dataset.data.coords): dataset-level dims grow when a result adds "
           "singular vectors etc. to the caller's dataset, so a second optimisation of the same scheme would decide differently",
           construct=short(rets[-1], 100) if rets else "def is_linkable")
    ctx.ob(rule, "DatasetGroup.is_linkable/one-common-global-dimension", ok, fi, rets[-1] if rets else fi.node,
           "datasets are linked automatically only when the union of their non-model dimensions over *all* datasets is a single name; "
           "a per-dataset test links (time, spectral) with (time, pixel) on coinciding numbers", trace,
           construct=short(rets[-1], 100) if rets else "def is_linkable")


def check_refusal_not_swallowed(ctx, rule: str, error: str, constructors: tuple[str, ...], prefixes: tuple[str, ...]) -> None:
    """The refusal `error` raised while constructing one of `constructors` reaches the caller: no handler catches it."""
    n = 0
    bad = []
    for fi in ctx.repo.functions.values():
        if not fi.rel.startswith(prefixes):
            continue
        for tr in nodes(fi, ast.Try):
            for h in tr.handlers:
                types = [norm(x) for x in (h.type.elts if isinstance(h.type, ast.Tuple) else [h.type])] if h.type is not None else ["<bare>"]
                if any(t.split(".")[-1] == error for t in types):
                    bad.append((fi, h, f"handler for {error}"))
                body_calls = [c for st in tr.body for c in ast.walk(st) if isinstance(c, ast.Call) and norm(c.func).split(".")[-1] in constructors]
                if body_calls and any(t in ("<bare>", "Exception", "BaseException", "ValueError") for t in types):
                    bad.append((fi, h, f"broad handler around {norm(body_calls[0].func)}"))
        n += len([c for c in calls(fi) if norm(c.func).split(".")[-1] in constructors])
    for fi, h, why in bad:
        ctx.ob(rule, f"{fi.short}/refusal-reaches-caller", False, fi, h,
               f"{error} is the documented refusal of an ambiguous alignment; catching it (to fall back, warn or retry) turns the refusal into a "
               "silently different analysis", [why], construct=short(h, 90))
    ctx.ob(rule, "package/refusal-not-caught", not bad, None, ctx.repo.module("glotaran/optimization/data_provider.py").tree,
           f"no handler in the package catches {error} or wraps the construction of the linked data provider", construct=f"{len(bad)} handlers")
    ctx.sites(rule, "constructions of the linked data provider", n, 1)
