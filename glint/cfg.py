"""A4 - statement level control-flow graph, dominators and path queries.

Hand built (the standard library has none).  One node per simple statement and one
*header* node per compound statement (evaluation of the test / iterable / context
expression).  Two exits: ``exit`` (normal return / fall off the end) and ``rexit``
(exception leaves the function).

Exceptional flow: every node lexically inside a ``try`` body gets an ``exc`` edge to
each handler of that ``try`` (and the ``try`` header itself too, so that no body
statement dominates a handler).  If no handler is a catch-all the ``exc`` edges also go
to the next enclosing ``try`` (or ``rexit``).  Nodes outside any ``try`` get an ``exc``
edge to ``rexit`` only for explicit ``raise`` statements; implicit raises of arbitrary
calls outside a ``try`` do not create edges (they cannot influence dominance of
anything that is reachable, and post-dominance queries are relative to the normal exit).
"""

from __future__ import annotations

import ast
from dataclasses import dataclass
from dataclasses import field


@dataclass(eq=False)
class Node:
    id: int
    kind: str  # entry exit rexit stmt if while for with try except finally match
    stmt: ast.AST | None = None
    succ: list[tuple["Node", str]] = field(default_factory=list)
    pred: list[tuple["Node", str]] = field(default_factory=list)

    def __repr__(self) -> str:  # pragma: no cover
        ln = getattr(self.stmt, "lineno", "-")
        return f"<{self.id}:{self.kind}@{ln}>"

    @property
    def lineno(self) -> int:
        return getattr(self.stmt, "lineno", 0)


CATCH_ALL = {"Exception", "BaseException"}


def _handler_is_catch_all(h: ast.ExceptHandler) -> bool:
    if h.type is None:
        return True
    names = []
    if isinstance(h.type, ast.Tuple):
        names = [ast.unparse(e) for e in h.type.elts]
    else:
        names = [ast.unparse(h.type)]
    return any(n in CATCH_ALL for n in names)


class CFG:
    def __init__(self, fn: ast.FunctionDef | ast.AsyncFunctionDef | ast.Module):
        self.fn = fn
        self.nodes: list[Node] = []
        self.entry = self._new("entry")
        self.exit = self._new("exit")
        self.rexit = self._new("rexit")
        self.of: dict[ast.AST, Node] = {}
        self.unsupported: list[str] = []
        # context stacks
        self._loops: list[tuple[Node, list]] = []  # (header, break_exits)
        self._tries: list[dict] = []
        body = fn.body
        exits = self._block(body, [(self.entry, "")])
        for n, lab in exits:
            self._edge(n, self.exit, lab)
        self._dom: dict[Node, set[Node]] | None = None
        self._pdom: dict[Node, set[Node]] | None = None

    # ------------------------------------------------------------- construction
    def _new(self, kind: str, stmt: ast.AST | None = None) -> Node:
        n = Node(len(self.nodes), kind, stmt)
        self.nodes.append(n)
        return n

    def _edge(self, a: Node, b: Node, lab: str = "") -> None:
        if (b, lab) not in a.succ:
            a.succ.append((b, lab))
            b.pred.append((a, lab))

    def _connect(self, preds, node: Node) -> None:
        for p, lab in preds:
            self._edge(p, node, lab)

    def _exc_targets(self) -> list[Node]:
        """Where an exception raised *here* may land."""
        out: list[Node] = []
        for ctx in reversed(self._tries):
            if ctx["phase"] == "body":
                out.extend(ctx["handlers"])
                if ctx["finally"] is not None and not ctx["catch_all"]:
                    out.append(ctx["finally"])
                    ctx["fin_pending"].add("raise")
                    return out
                if ctx["catch_all"]:
                    return out
            elif ctx["phase"] in ("handler", "else"):
                if ctx["finally"] is not None:
                    out.append(ctx["finally"])
                    ctx["fin_pending"].add("raise")
                    return out
        out.append(self.rexit)
        return out

    def _in_try(self) -> bool:
        return any(c["phase"] in ("body", "handler", "else") for c in self._tries)

    def _add_exc(self, node: Node, explicit: bool = False) -> None:
        if explicit or self._in_try():
            for t in self._exc_targets():
                self._edge(node, t, "exc")

    def _block(self, stmts, preds):
        for s in stmts:
            preds = self._stmt(s, preds)
        return preds

    def _stmt(self, s: ast.stmt, preds):
        if isinstance(s, ast.If):
            h = self._new("if", s)
            self.of[s] = h
            self._connect(preds, h)
            self._add_exc(h)
            t_exits = self._block(s.body, [(h, "T")])
            f_exits = self._block(s.orelse, [(h, "F")]) if s.orelse else [(h, "F")]
            return t_exits + f_exits
        if isinstance(s, (ast.While, ast.For, ast.AsyncFor)):
            h = self._new("while" if isinstance(s, ast.While) else "for", s)
            self.of[s] = h
            self._connect(preds, h)
            self._add_exc(h)
            breaks: list = []
            self._loops.append((h, breaks))
            b_exits = self._block(s.body, [(h, "T")])
            self._loops.pop()
            for n, lab in b_exits:
                self._edge(n, h, lab or "back")
            infinite = (
                isinstance(s, ast.While)
                and isinstance(s.test, ast.Constant)
                and bool(s.test.value) is True
            )
            out = [] if infinite else [(h, "F")]
            if s.orelse:
                out = self._block(s.orelse, out)
            return out + breaks
        if isinstance(s, (ast.With, ast.AsyncWith)):
            h = self._new("with", s)
            self.of[s] = h
            self._connect(preds, h)
            self._add_exc(h)
            return self._block(s.body, [(h, "")])
        if isinstance(s, (ast.Try, getattr(ast, "TryStar", ast.Try))):
            return self._try(s, preds)
        if isinstance(s, ast.Match):
            h = self._new("match", s)
            self.of[s] = h
            self._connect(preds, h)
            self._add_exc(h)
            out = []
            wildcard = False
            for case in s.cases:
                out += self._block(case.body, [(h, "case")])
                if (
                    isinstance(case.pattern, ast.MatchAs)
                    and case.pattern.pattern is None
                    and case.guard is None
                ):
                    wildcard = True
            if not wildcard:
                out.append((h, "nomatch"))
            return out
        # simple statements
        n = self._new("stmt", s)
        self.of[s] = n
        self._connect(preds, n)
        if isinstance(s, ast.Return):
            self._add_exc(n)
            self._jump(n, "return")
            return []
        if isinstance(s, ast.Raise):
            self._add_exc(n, explicit=True)
            return []
        if isinstance(s, ast.Break):
            if self._loops:
                self._loops[-1][1].append((n, "break"))
            return []
        if isinstance(s, ast.Continue):
            if self._loops:
                self._edge(n, self._loops[-1][0], "continue")
            return []
        self._add_exc(n)
        return [(n, "")]

    def _jump(self, n: Node, kind: str) -> None:
        """Route a ``return`` through enclosing ``finally`` blocks."""
        for ctx in reversed(self._tries):
            if ctx["finally"] is not None and ctx["phase"] in ("body", "handler", "else"):
                self._edge(n, ctx["finally"], kind)
                ctx["fin_pending"].add(kind)
                return
        self._edge(n, self.exit, kind)

    def _try(self, s: ast.Try, preds):
        h = self._new("try", s)
        self.of[s] = h
        self._connect(preds, h)
        handlers = []
        for hd in s.handlers:
            hn = self._new("except", hd)
            self.of[hd] = hn
            handlers.append(hn)
        fin = self._new("finally", s) if s.finalbody else None
        ctx = {
            "handlers": handlers,
            "catch_all": any(_handler_is_catch_all(hd) for hd in s.handlers),
            "finally": fin,
            "phase": "body",
            "fin_pending": set(),
        }
        self._tries.append(ctx)
        self._add_exc(h)
        body_exits = self._block(s.body, [(h, "")])
        ctx["phase"] = "else"
        if s.orelse:
            body_exits = self._block(s.orelse, body_exits)
        ctx["phase"] = "handler"
        h_exits = []
        for hd, hn in zip(s.handlers, handlers):
            h_exits += self._block(hd.body, [(hn, "")])
        ctx["phase"] = "done"
        self._tries.pop()
        exits = body_exits + h_exits
        if fin is None:
            return exits
        self._connect(exits, fin)
        f_exits = self._block(s.finalbody, [(fin, "")])
        pend = ctx["fin_pending"]
        for n, lab in f_exits:
            if "return" in pend:
                self._jump(n, "return")
            if "raise" in pend or True:
                # an exception may always pass through a finally block
                for t in self._exc_targets() if self._tries else [self.rexit]:
                    self._edge(n, t, "exc")
        return f_exits

    # ------------------------------------------------------------------ queries
    def node(self, stmt: ast.AST) -> Node:
        n = stmt
        while n is not None and n not in self.of:
            n = getattr(n, "_parent", None)
        if n is None:
            raise KeyError("statement not in this CFG")
        return self.of[n]

    def _compute_dom(self) -> None:
        nodes = [n for n in self.nodes]
        reach = self._reach_from(self.entry)
        full = set(reach)
        dom = {n: set(full) for n in reach}
        dom[self.entry] = {self.entry}
        changed = True
        order = sorted(reach, key=lambda n: n.id)
        while changed:
            changed = False
            for n in order:
                if n is self.entry:
                    continue
                ps = [p for p, _ in n.pred if p in reach]
                new = set.intersection(*(dom[p] for p in ps)) if ps else set()
                new = new | {n}
                if new != dom[n]:
                    dom[n] = new
                    changed = True
        self._dom = dom
        _ = nodes

    def _reach_from(self, src: Node, avoid: set[Node] | None = None, exc: bool = True) -> set[Node]:
        avoid = avoid or set()
        seen = set()
        stack = [src]
        while stack:
            n = stack.pop()
            if n in seen or n in avoid:
                continue
            seen.add(n)
            for m, lab in n.succ:
                if not exc and lab == "exc":
                    continue
                stack.append(m)
        return seen

    def dominates(self, a: ast.AST | Node, b: ast.AST | Node) -> bool:
        """Every path from the function entry to ``b`` passes through ``a``."""
        na = a if isinstance(a, Node) else self.node(a)
        nb = b if isinstance(b, Node) else self.node(b)
        if self._dom is None:
            self._compute_dom()
        assert self._dom is not None
        if nb not in self._dom:
            return True  # b unreachable
        return na in self._dom[nb]

    def exists_path(
        self,
        src: ast.AST | Node,
        dst: ast.AST | Node,
        avoid: list | set = (),
        exc: bool = True,
        strict: bool = True,
    ) -> bool:
        """Is there a path src -> dst that does not pass through any node in ``avoid``?

        ``strict``: the path has at least one edge (src itself does not count as reached).
        """
        ns = src if isinstance(src, Node) else self.node(src)
        nd = dst if isinstance(dst, Node) else self.node(dst)
        av = {a if isinstance(a, Node) else self.node(a) for a in avoid}
        seen: set[Node] = set()
        stack = [m for m, lab in ns.succ if exc or lab != "exc"] if strict else [ns]
        while stack:
            n = stack.pop()
            if n in seen or n in av:
                continue
            if n is nd:
                return True
            seen.add(n)
            for m, lab in n.succ:
                if not exc and lab == "exc":
                    continue
                stack.append(m)
        return False

    def postdominates(self, a: ast.AST | Node, b: ast.AST | Node) -> bool:
        """Every path from ``b`` to the *normal* exit passes through ``a`` (exc edges ignored)."""
        na = a if isinstance(a, Node) else self.node(a)
        nb = b if isinstance(b, Node) else self.node(b)
        if na is nb:
            return True
        if not self.exists_path(nb, self.exit, exc=False):
            return True  # b never returns normally
        return not self.exists_path(nb, self.exit, avoid={na}, exc=False)

    def reachable(self, a: ast.AST | Node, b: ast.AST | Node, exc: bool = True) -> bool:
        return self.exists_path(a, b, exc=exc)

    def branch_of(self, if_stmt: ast.If, stmt: ast.AST) -> str | None:
        """'T'/'F' if ``stmt`` is lexically in the body/orelse of ``if_stmt``."""
        n = stmt
        while n is not None:
            p = getattr(n, "_parent", None)
            if p is if_stmt:
                if n in if_stmt.body:
                    return "T"
                if n in if_stmt.orelse:
                    return "F"
                return None
            n = p
        return None

    def stmts(self) -> list[ast.AST]:
        return [n.stmt for n in self.nodes if n.stmt is not None and n.kind != "finally"]


_CACHE: dict[int, CFG] = {}


def cfg_of(fn_node: ast.AST) -> CFG:
    c = _CACHE.get(id(fn_node))
    if c is None or c.fn is not fn_node:
        c = CFG(fn_node)  # type: ignore[arg-type]
        _CACHE[id(fn_node)] = c
    return c


def lexically_inside(node: ast.AST, kinds, pred=None) -> ast.AST | None:
    """Innermost ancestor of ``node`` of the given kinds (satisfying pred), within the function."""
    p = getattr(node, "_parent", None)
    while p is not None and not isinstance(p, (ast.FunctionDef, ast.AsyncFunctionDef, ast.Lambda)):
        if isinstance(p, kinds) and (pred is None or pred(p)):
            return p
        p = getattr(p, "_parent", None)
    return None


def in_body_of(node: ast.AST, compound: ast.AST, field_name: str = "body") -> bool:
    """Is ``node`` lexically inside ``compound.<field_name>``?"""
    n = node
    while n is not None:
        p = getattr(n, "_parent", None)
        if p is compound:
            return any(n is x for x in getattr(compound, field_name, []))
        n = p
    return False
