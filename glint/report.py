"""Obligations, findings, evidence, replay files and known findings."""

from __future__ import annotations

import ast
import hashlib
import json
import os
import re
import time
from dataclasses import dataclass
from dataclasses import field

from glint.index import AnalysisError
from glint.index import FunctionInfo
from glint.index import Repo
from glint.index import short

VERIF = os.path.dirname(os.path.dirname(os.path.abspath(__file__)))


@dataclass
class Obligation:
    rule: str  # e.g. C09-R1
    instance: str  # stable id of the instance (qualified function + role), no line numbers
    ok: bool
    file: str
    line: int
    function: str
    construct: str  # normalised text of the construct examined
    message: str  # what was required / what was found
    trace: list[str] = field(default_factory=list)

    @property
    def key(self) -> str:
        return f"{self.function} :: {self.construct}"

    def ident(self) -> str:
        h = hashlib.sha1(f"{self.rule}|{self.instance}|{self.key}".encode()).hexdigest()[:8]
        return h


class Shortfall(AnalysisError):
    """A rule matched fewer sites than its frozen minimum."""


class Ctx:
    """Per run context handed to every rule."""

    def __init__(self, repo: Repo, prop: str, tier: str, only_instance: str | None = None):
        self.repo = repo
        self.prop = prop
        self.tier = tier
        self.obligations: list[Obligation] = []
        self.functions: set[str] = set()
        self.call_sites = 0
        self.unresolved: list[str] = []
        self.notes: list[str] = []
        self.site_counts: dict[str, int] = {}
        self.only_instance = only_instance
        self.rules_run: list[str] = []
        self.shortfalls: list[str] = []
        self.selfvalidation: dict | None = None

    # ---------------------------------------------------------------- recording
    def touch(self, fi: FunctionInfo) -> FunctionInfo:
        self.functions.add(fi.qualname)
        self.repo.consulted.add(fi.rel)
        return fi

    def fn(self, rel: str, name: str) -> FunctionInfo:
        return self.touch(self.repo.fn(rel, name))

    def ob(
        self,
        rule: str,
        instance: str,
        ok: bool,
        fi: FunctionInfo | None,
        node: ast.AST | None,
        message: str,
        trace: list[str] | None = None,
        construct: str | None = None,
    ) -> bool:
        if fi is not None:
            self.touch(fi)
        line = getattr(node, "lineno", None) or (fi.node.lineno if fi is not None else 0)
        c = construct if construct is not None else (short(node, 160) if node is not None else "")
        self.obligations.append(
            Obligation(
                rule,
                instance,
                bool(ok),
                fi.rel if fi is not None else "",
                line,
                fi.short if fi is not None else "",
                c,
                message,
                list(trace or []),
            )
        )
        return bool(ok)

    def sites(self, rule: str, what: str, count: int, minimum: int) -> None:
        """Non-vacuity floor: fewer matched sites than confirmed by hand => analysis broken."""
        self.site_counts[f"{rule}:{what}"] = count
        if count < minimum:
            msg = (
                f"{rule}: only {count} site(s) of '{what}' matched, frozen minimum is {minimum} "
                "(the code moved away from the shape this rule was written for; the rule must be "
                "re-confirmed, it cannot pass vacuously)"
            )
            self.shortfalls.append(msg)
            if count == 0:
                # nothing to evaluate: stop this rule here, the run ends as a violation (if other
                # obligations already failed) or as ANALYSIS-ERROR - never as a pass
                raise Shortfall(msg)

    def note(self, text: str) -> None:
        self.notes.append(text)


# ---------------------------------------------------------------- known findings
@dataclass
class Known:
    prop: str
    rule: str
    construct: str
    what: str


def load_known(path: str | None = None) -> tuple[list[Known], list[str]]:
    path = path or os.path.join(VERIF, "known_findings.txt")
    known: list[Known] = []
    fixed: list[str] = []
    if not os.path.exists(path):
        return known, fixed
    for raw in open(path, encoding="utf-8"):
        line = raw.strip()
        if not line or line.startswith("#"):
            continue
        if line.startswith("fixed:"):
            fixed.append(line)
            continue
        m = re.match(r"known:\s+property=(\S+)\s+rule=(\S+)\s+construct=(.*?)\s+::::\s+(.*)$", line)
        if not m:
            raise AnalysisError(f"malformed known_findings line: {line}")
        known.append(Known(m.group(1), m.group(2), m.group(3).strip(), m.group(4).strip()))
    return known, fixed


def match_known(ob: Obligation, prop: str, known: list[Known]) -> Known | None:
    for k in known:
        if k.prop == prop and k.rule == ob.rule and k.construct == ob.key:
            return k
    return None


# ------------------------------------------------------------------- reporting
def finish(ctx: Ctx, t0: float, seed: int, stats: dict, replay_only: bool = False) -> int:
    prop = ctx.prop
    known, _fixed = load_known()
    viol = [o for o in ctx.obligations if not o.ok]
    unlisted: list[Obligation] = []
    listed: list[tuple[Obligation, Known]] = []
    for o in viol:
        k = match_known(o, prop, known)
        if k is None:
            unlisted.append(o)
        else:
            listed.append((o, k))
    print(
        f"glint: indexed {stats['modules']} modules, {stats['classes']} classes, "
        f"{stats['functions']} functions ({stats['lines']} lines) from {ctx.repo.root}"
    )
    for o in ctx.obligations:
        if o.ok:
            continue
        print(f"{o.rule} {o.instance}  {o.file}:{o.line}  {o.function}")
        print(f"    `{o.construct}`")
        print(f"    {o.message}")
        for t in o.trace:
            print(f"      {t}")
    os.makedirs(os.path.join(VERIF, "replays"), exist_ok=True)
    for o, k in listed:
        print(f"KNOWN-FINDING: property={prop} {k.what}")
    for o in unlisted:
        path = os.path.join(VERIF, "replays", f"{prop}-{o.rule}-{o.ident()}.json")
        with open(path, "w", encoding="utf-8") as fh:
            json.dump(
                {
                    "property": prop,
                    "rule": o.rule,
                    "instance": o.instance,
                    "file": o.file,
                    "line": o.line,
                    "function": o.function,
                    "construct": o.construct,
                    "message": o.message,
                    "trace": o.trace,
                    "replay": f"./check {prop} --replay {path}",
                },
                fh,
                indent=1,
            )
        print(f"VIOLATION property={prop} replay={path}")
    rules = sorted({o.rule for o in ctx.obligations})
    n_ok = sum(1 for o in ctx.obligations if o.ok)
    print(
        f"{prop}: {len(rules)} rules, {len(ctx.obligations)} obligations, {n_ok} discharged, "
        f"{len(viol)} violated ({len(listed)} known) - tier {ctx.tier} - "
        f"{'exit 1' if unlisted else 'exit 0'}"
    )
    if not replay_only:
        write_evidence(ctx, t0, seed, stats, len(unlisted), len(listed))
    return 1 if unlisted else 0


def write_evidence(ctx: Ctx, t0: float, seed: int, stats: dict, n_viol: int, n_known: int) -> None:
    prop = ctx.prop
    obs = ctx.obligations
    rules = sorted({o.rule for o in obs})
    distinct = {(o.rule, o.instance, o.key) for o in obs}
    per_rule = {}
    for o in obs:
        d = per_rule.setdefault(o.rule, {"obligations": 0, "discharged": 0})
        d["obligations"] += 1
        d["discharged"] += int(o.ok)
    samples = []
    seen_rules = set()
    for o in obs:
        if o.rule in seen_rules and len(samples) >= 12:
            continue
        seen_rules.add(o.rule)
        samples.append(
            {
                "rule": o.rule,
                "instance": o.instance,
                "site": f"{o.file}:{o.line}",
                "function": o.function,
                "construct": o.construct,
                "required": o.message,
                "holds": o.ok,
            }
        )
        if len(samples) >= 40:
            break
    from glint.rules import RULE_DOC  # late import

    doc = RULE_DOC.get(prop, {})
    ev = {
        "property_id": prop,
        "tier": ctx.tier,
        "seed": seed,
        "level": "other",
        "coverage": {
            "explanation": (
                doc.get("explanation", "")
                + f" This run: {len(rules)} rules, {len(obs)} obligations over "
                f"{len(ctx.functions)} functions in {len(ctx.repo.consulted)} files; "
                f"decided from the source text of the working tree (sha256 of analysed universe "
                f"{ctx.repo.digest()[:16]}), nothing executed."
            ),
            "obligations": len(obs),
            "discharged": sum(1 for o in obs if o.ok),
            "evaluations": len(obs),
            "distinct_nontrivial": len(distinct),
            "rule": (
                "one evaluation = one rule instance applied to one matched construct of /repo's "
                "current source; distinct = distinct (rule, instance, normalised construct); every "
                "counted instance matched at least one site (rules with zero sites fail closed)"
            ),
            "rules": {r: per_rule[r] for r in rules},
            "rule_statements": doc.get("rules", {}),
            "declined_clauses": doc.get("declined", []),
            "site_counts": ctx.site_counts,
            "functions_analysed": sorted(ctx.functions),
            "files_consulted": sorted(ctx.repo.consulted),
            "call_sites": ctx.call_sites,
            "unresolved_receivers": len(ctx.unresolved),
            "known_findings_reported": n_known,
            "indexed": stats,
            "samples": samples,
            "notes": ctx.notes,
            "checker_selfvalidation": ctx.selfvalidation,
            "exhaustive": False,
        },
        "assumptions": doc.get("assumptions", [])
        + [
            "CPython semantics of the constructs inspected; numpy/scipy/xarray/LAPACK behave as documented",
            "structural clauses only: a pass means every listed obligation holds in the source, not that the behaviour was observed",
        ],
        "wall_s": round(time.time() - t0, 3),
        "violations": n_viol,
    }
    os.makedirs(os.path.join(VERIF, "evidence"), exist_ok=True)
    with open(os.path.join(VERIF, "evidence", f"{prop}.json"), "w", encoding="utf-8") as fh:
        json.dump(ev, fh, indent=1, sort_keys=False)
        fh.write("\n")
