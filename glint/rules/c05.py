"""C05 - Gaussian IRF convolution is exact, for every index of a dispersed or shifted IRF."""

from __future__ import annotations

import ast

from glint import lib
from glint.fc import ref_flow
from glint.fc import to_ref_names
from glint.index import norm
from glint.terms import Poly

GIRF = "glotaran/builtin/megacomplexes/decay/decay_matrix_gaussian_irf.py"
IRF = "glotaran/builtin/megacomplexes/decay/irf.py"
DUT = "glotaran/builtin/megacomplexes/decay/util.py"

DOC = {
    "explanation": (
        "Index agreement of every per-index quantity of the dispersed/shifted IRF path "
        "(matrix slice, centres, widths, shift, axis value all taken at one position), "
        "formula conformance of the effective centre/width (centre - shift, dispersion "
        "polynomial in either dispersion variable) and of both numerical alternatives of the "
        "closed-form convolution plus the backsweep term against an independently written "
        "reference (polynomial normal form, parameters matched positionally), and agreement "
        "of the two implementations on the normalisation by the sum of the scales."
    ),
    "rules": {
        "C05-R1": "index agreement: parameter(i, axis), centres - shift and widths appended per i in one loop; kernel i gets matrix[i], all_centers[i], all_widths[i]; shift = self.shift[global_index]; dispersion evaluated at global_axis[global_index]",
        "C05-R2": "effective centre = centre - shift in both implementations; dispersion: centre += c_i * dist**(i+1), width likewise, dist = (x - x0)/100 or 1e3/x - 1e3/x0",
        "C05-R3": "kernel: alpha = k*sigma/sqrt2, beta = (t-mu)/(sigma*sqrt2); beta-alpha < threshold: s/2*erfcx(alpha-beta)*exp(-beta^2); else s/2*(1+erf(beta-alpha))*exp(alpha^2-2*alpha*beta); backsweep s*(e^{-k(t-mu+T)}+e^{-k(T/2-(t-mu))})/(1-e^{-kT}); every term accumulated into matrix[n_t, n_r]",
        "C05-R4": "both implementations divide by sum(scales) exactly when irf.normalize, after the kernel filled the matrix",
    },
    "declined": ["accuracy at the branch switch, under/overflow regimes (numeric)", "that the closed form equals the convolution integral (mathematics, argued in the rule comment)"],
    "assumptions": ["scipy.special erf/erfcx"],
}

REF_KERNEL = '''
def ref(matrix, rates, times, centers, widths, scales, backsweep, backsweep_period):
    for n_i in range(centers.size):
        for n_r in range(rates.size):
            for n_t in range(times.size):
                k = rates[n_r]
                t = times[n_t]
                mu = centers[n_i]
                sigma = widths[n_i]
                s = scales[n_i]
                alpha = k * sigma / np.sqrt(2)
                beta = (t - mu) / (sigma * np.sqrt(2))
                switch = beta - alpha
                small = s * 0.5 * erfcx(alpha - beta) * np.exp(-(beta ** 2))
                large = s * 0.5 * (1 + erf(beta - alpha)) * np.exp(alpha ** 2 - 2 * alpha * beta)
                sweep = s * (np.exp(-k * (t - mu + backsweep_period)) + np.exp(-k * (backsweep_period / 2 - (t - mu)))) / (1 - np.exp(-k * backsweep_period))
'''
# The closed form: for f(t) = exp(-k t) (t >= 0) and the area normalised Gaussian g with centre mu, width sigma,
# (f*g)(t) = 1/2 exp(k(mu - t) + k^2 sigma^2/2) (1 + erf((t - mu - k sigma^2)/(sigma sqrt2))) = 1/2 exp(alpha^2 - 2 alpha beta)(1 + erf(beta - alpha)),
# and with erfcx(x) = exp(x^2) erfc(x): 1/2 erfcx(alpha - beta) exp(-beta^2) is the same value written without overflow for beta - alpha << 0.


def r1_deciders(ctx) -> None:
    """Who decides that a dataset needs one matrix per global index: a shift or a dispersion must switch it on."""
    repo = ctx.repo
    f1 = ctx.fn(IRF, "IrfMultiGaussian.is_index_dependent")
    r1_ = lib.nodes(f1, ast.Return)
    ctx.ob("C05-R1", "IrfMultiGaussian.is_index_dependent/shift", len(r1_) == 1 and norm(r1_[0].value) == "self.shift is not None", f1,
           r1_[0] if r1_ else f1.node, "an IRF with a shift needs one matrix per global index (otherwise the shift is silently ignored)")
    f2 = ctx.fn(IRF, "IrfSpectralMultiGaussian.is_index_dependent")
    r2_ = lib.nodes(f2, ast.Return)
    ok = len(r2_) == 1 and isinstance(r2_[0].value, ast.BoolOp) and isinstance(r2_[0].value.op, ast.Or) and \
        {norm(v) for v in r2_[0].value.values} == {"super().is_index_dependent()", "self.dispersion_center is not None"}
    ctx.ob("C05-R1", "IrfSpectralMultiGaussian.is_index_dependent/shift-or-dispersion", ok, f2, r2_[0] if r2_ else f2.node,
           "a dispersed IRF is index dependent as well, and keeps the shift criterion of its base class")
    f3 = ctx.fn(DUT, "index_dependent")
    r3_ = lib.nodes(f3, ast.Return)
    dp = f3.params()[0]
    ok = len(r3_) == 1 and isinstance(r3_[0].value, ast.BoolOp) and isinstance(r3_[0].value.op, ast.And) and \
        [norm(v) for v in r3_[0].value.values] == [f"isinstance({dp}.irf, IrfMultiGaussian)", f"{dp}.irf.is_index_dependent()"]
    ctx.ob("C05-R1", "index_dependent/asks-the-irf", ok, f3, r3_[0] if r3_ else f3.node, "the dataset is index dependent iff its Gaussian IRF says so")
    # every implementation switch and every matrix shape in the megacomplexes asks this one function
    n = 0
    for fi in repo.functions.values():
        if not fi.rel.startswith("glotaran/builtin/megacomplexes/") or fi.name != "calculate_matrix":
            continue
        tests = [n_ for n_ in lib.nodes(fi, (ast.If, ast.IfExp)) if "index_dependent" in norm(n_.test)]
        for t in tests:
            n += 1
            e, pos = lib.strip_not(t.test)
            dparam = [p_ for p_ in fi.params() if p_ == "dataset_model"]
            ctx.ob("C05-R1", f"{fi.short}/switch-by-index_dependent", norm(e) == "index_dependent(dataset_model)" and bool(dparam), fi, t,
                   "matrix shape and implementation are chosen by index_dependent(dataset_model) of the dataset being calculated",
                   construct=lib.short(t.test, 80))
    ctx.sites("C05-R1", "index-dependence switches in calculate_matrix functions", n, 5)


def r1(ctx) -> None:
    repo = ctx.repo
    lib.check_no_loop_escape(ctx, "C05-R1", ("glotaran/builtin/megacomplexes/decay/", "glotaran/optimization/matrix_provider.py"), 3)
    f = ctx.fn(DUT, "decay_matrix_implementation_index_dependent")
    fl = lib.flow(f, repo)
    loops = [n for n in lib.nodes(f, ast.For)]
    ok_loop = len(loops) == 1 and isinstance(loops[0].iter, ast.Call) and norm(loops[0].iter.func) == "range" and norm(loops[0].iter.args[0]) == "global_axis.size"
    if ctx.ob("C05-R1", "index_dependent/loop-over-global-axis", ok_loop, f, loops[0] if loops else f.node, "one IRF parameter set per global index"):
        pos = norm(loops[0].target)
        cs = [c for c in lib.method_calls(loops[0], "parameter")]
        ok = len(cs) == 1 and [norm(a) for a in cs[0].args] == [pos, "global_axis"]
        ctx.ob("C05-R1", "index_dependent/parameter-at-position", ok, f, cs[0] if cs else loops[0], f"irf.parameter({pos}, global_axis)")
        apps = {norm(c.func.value): c for c in lib.method_calls(loops[0], "append")}
        ok = set(apps) == {"all_centers", "all_widths"}
        ctx.ob("C05-R1", "index_dependent/appends-per-index", ok, f, loops[0], "centres and widths of index i are appended in iteration i (lists stay aligned with the axis)",
               construct="all_centers.append(...); all_widths.append(...)")
        if ok:
            tc = fl.term(apps["all_centers"].args[0], lib.stmt_of(apps["all_centers"]))
            par = fl.term(cs[0], lib.stmt_of(cs[0])) if cs else None
            want = Poly.atom(("item", par.key(), (0,))) - Poly.atom(("item", par.key(), (3,))) if par is not None else None
            ctx.ob("C05-R2", "index_dependent/effective-centre", tc == want, f, lib.stmt_of(apps["all_centers"]),
                   "effective centre of index i = centres - shift of the same parameter() call", [f"term: {tc!r}"])
            tw = fl.term(apps["all_widths"].args[0], lib.stmt_of(apps["all_widths"]))
            ctx.ob("C05-R1", "index_dependent/width-of-same-call", par is not None and tw == Poly.atom(("item", par.key(), (1,))), f,
                   lib.stmt_of(apps["all_widths"]), "widths come from the same parameter() call")
    kc = [c for c in lib.calls(f) if norm(c.func) == "calculate_decay_matrix_gaussian_irf"]
    ok = len(kc) == 1 and [norm(a) for a in kc[0].args] == ["matrix", "rates", "model_axis", "np.array(all_centers)", "np.array(all_widths)", "irf_scales", "backsweep", "backsweep_period"]
    ctx.ob("C05-R1", "index_dependent/kernel-arguments", ok, f, kc[0] if kc else f.node,
           "the kernel receives (matrix, rates, times, centres per index, widths per index, scales, backsweep, period)")
    kf = ctx.fn(GIRF, "calculate_decay_matrix_gaussian_irf")
    loops = [n for n in lib.nodes(kf, ast.For)]
    ok_loop = len(loops) == 1 and isinstance(loops[0].iter, ast.Call) and norm(loops[0].iter.func) in ("nb.prange", "range") and \
        norm(loops[0].iter.args[0]) in (f"{kf.params()[3]}.shape[0]", f"len({kf.params()[3]})")
    ctx.ob("C05-R1", "gaussian_irf/loop-over-indices", ok_loop, kf, loops[0] if loops else kf.node, "the parallel loop ranges over the per-index centres")
    if ok_loop:
        pos = norm(loops[0].target)
        p = kf.params()
        cs = [c for c in lib.calls(loops[0]) if norm(c.func) == "calculate_decay_matrix_gaussian_irf_on_index"]
        want = [f"{p[0]}[{pos}]", p[1], p[2], f"{p[3]}[{pos}]", f"{p[4]}[{pos}]", p[5], p[6], p[7]]
        ok = len(cs) == 1 and [norm(a) for a in cs[0].args] == want
        ctx.ob("C05-R1", "gaussian_irf/same-position-everywhere", ok, kf, cs[0] if cs else loops[0],
               f"index `{pos}`: matrix[{pos}], all_centers[{pos}], all_widths[{pos}] - all three at the same position")
    ip = ctx.fn(IRF, "IrfMultiGaussian.parameter")
    flp = lib.flow(ip, repo)
    gi = ip.params()[1]
    sh = [d for d in flp.defs_of("shift") if d.kind == "assign" and not isinstance(d.value, ast.Constant)]
    ok = len(sh) == 1 and norm(sh[0].value) == f"self.shift[{gi}]"
    ctx.ob("C05-R1", "IrfMultiGaussian.parameter/shift-at-index", ok, ip, sh[0].stmt if sh else ip.node, f"shift of index i is self.shift[{gi}]")
    z = [d for d in flp.defs_of("shift") if d.kind == "assign" and isinstance(d.value, ast.Constant)]
    ctx.ob("C05-R1", "IrfMultiGaussian.parameter/no-shift-is-zero", len(z) == 1 and z[0].value.value == 0, ip, z[0].stmt if z else ip.node, "without shift parameters the shift is 0")
    g = [n for n in lib.nodes(ip, ast.If) if norm(n.test).replace(" ", "") == f"{gi}>=len(self.shift)" and isinstance(n.body[-1], ast.Raise)]
    ctx.ob("C05-R1", "IrfMultiGaussian.parameter/shift-bounds-check", len(g) == 1, ip, g[0] if g else ip.node, "an index without shift parameter raises ModelError")
    rets = lib.nodes(ip, ast.Return)
    ctx.ob("C05-R1", "IrfMultiGaussian.parameter/return-order", len(rets) == 1 and norm(rets[0].value) == "(centers, widths, scales, shift, backsweep, backsweep_period)", ip,
           rets[0] if rets else ip.node, "returns (centers, widths, scales, shift, backsweep, backsweep_period) - the order every caller unpacks")
    sp = ctx.fn(IRF, "IrfSpectralMultiGaussian.parameter")
    fls = lib.flow(sp, repo)
    idx = [d for d in fls.defs_of("index") if d.kind == "assign"]
    ok = len(idx) == 1 and isinstance(idx[0].value, ast.IfExp) and norm(idx[0].value.body) == f"{sp.params()[2]}[{sp.params()[1]}]"
    ctx.ob("C05-R1", "IrfSpectralMultiGaussian.parameter/axis-value-at-index", ok, sp, idx[0].stmt if idx else sp.node,
           "the dispersion variable is the global axis *value* at the requested position")
    sup = [c for c in lib.calls(sp) if norm(c.func) == "super().parameter"]
    ok = len(sup) == 1 and [norm(a) for a in sup[0].args] == [sp.params()[1], sp.params()[2]]
    st = lib.stmt_of(sup[0]) if sup else None
    ok = ok and isinstance(st, ast.Assign) and norm(st.targets[0]) == "(centers, widths, scale, shift, backsweep, backsweep_period)"
    ctx.ob("C05-R1", "IrfSpectralMultiGaussian.parameter/base-parameters-of-same-index", ok, sp, st or sp.node, "the undispersed parameters are those of the same index")
    cd = ctx.fn(IRF, "IrfSpectralMultiGaussian.calculate_dispersion")
    cs = lib.method_calls(cd, "parameter")
    lp = next(iter(lib.nodes(cd, ast.For)), None)
    ok = lp is not None and norm(lp.iter) == f"enumerate({cd.params()[1]})" and len(cs) == 1 and [norm(a) for a in cs[0].args] == [norm(lp.target.elts[0]), cd.params()[1]]
    ctx.ob("C05-R1", "calculate_dispersion/position-and-axis", ok, cd, cs[0] if cs else cd.node, "the dispersion curve evaluates parameter(i, axis) for every position i")


def r2(ctx) -> None:
    repo = ctx.repo
    f = ctx.fn(DUT, "decay_matrix_implementation_index_independent")
    fl = lib.flow(f, repo)
    kc = [c for c in lib.calls(f) if norm(c.func) == "calculate_decay_matrix_gaussian_irf_on_index"]
    ctx.sites("C05-R2", "index independent kernel call", len(kc), 1)
    c = kc[0]
    par = [x for x in lib.method_calls(f, "parameter")]
    pt = fl.term(par[0], lib.stmt_of(par[0])) if par else None
    tc = fl.term(c.args[3], lib.stmt_of(c))
    want = Poly.atom(("item", pt.key(), (0,))) - Poly.atom(("item", pt.key(), (3,))) if pt is not None else None
    ctx.ob("C05-R2", "index_independent/effective-centre", tc == want, f, lib.stmt_of(c), "effective centre = centres - shift", [f"term: {tc!r}"])
    ok = [norm(a) for a in c.args[:3]] == ["matrix", "rates", "model_axis"] and [norm(a) for a in c.args[4:]] == ["widths", "irf_scales", "backsweep", "backsweep_period"]
    ctx.ob("C05-R2", "index_independent/kernel-arguments", ok, f, lib.stmt_of(c), "(matrix, rates, times, centres - shift, widths, scales, backsweep, period)")
    ok = bool(par) and [norm(a) for a in par[0].args] == ["None", "global_axis"]
    ctx.ob("C05-R2", "index_independent/parameters-without-index", ok, f, par[0] if par else f.node, "the index independent IRF is evaluated without index")
    sp = ctx.fn(IRF, "IrfSpectralMultiGaussian.parameter")
    fls = lib.flow(sp, repo)
    dist = [d for d in fls.defs_of("dist") if d.kind == "assign"]
    okd = False
    trace = []
    if dist and isinstance(dist[0].value, ast.IfExp):
        v = dist[0].value
        x = fls.term(ast.Name(id="index", ctx=ast.Load()), dist[0].node)
        x0 = Poly.atom(("attr", Poly.atom(("name", "self")).key(), "dispersion_center"))
        wn = fls.term(v.body, dist[0].node)
        wl = fls.term(v.orelse, dist[0].node)
        want_wn = Poly.const(1000) / x - Poly.const(1000) / x0
        want_wl = (x - x0) / Poly.const(100)
        trace = [f"wavenumber branch: {wn!r}", f"wavelength branch: {wl!r}"]
        okd = norm(v.test) == "self.model_dispersion_with_wavenumber" and wn == want_wn and wl == want_wl
    ctx.ob("C05-R2", "dispersion/distance", okd, sp, dist[0].stmt if dist else sp.node,
           "dist = 1e3/x - 1e3/x0 when modelling with wavenumber, else (x - x0)/100", trace)
    for what, coeffs in (("centers", "center_dispersion_coefficients"), ("widths", "width_dispersion_coefficients")):
        loops = [n for n in lib.nodes(sp, ast.For) if norm(n.iter) == f"enumerate(self.{coeffs})"]
        ok = False
        if len(loops) == 1:
            lp = loops[0]
            i, disp = norm(lp.target.elts[0]), norm(lp.target.elts[1])
            sts = [s for t, s in lib.stores(lp) if norm(t) == what]
            if len(sts) == 1:
                s = sts[0]
                inc = s.value if isinstance(s, ast.AugAssign) else (s.value.right if isinstance(s.value, ast.BinOp) and norm(s.value.left) == what and isinstance(s.value.op, ast.Add) else None)
                is_add = (isinstance(s, ast.AugAssign) and isinstance(s.op, ast.Add)) or inc is not None
                txt = norm(inc).replace(" ", "") if inc is not None else ""
                ok = is_add and txt in (f"{disp}*np.power(dist,{i}+1)", f"{disp}*dist**({i}+1)", f"np.power(dist,{i}+1)*{disp}")
        ctx.ob("C05-R2", f"dispersion/{what}-polynomial", ok, sp, loops[0] if loops else sp.node,
               f"{what} += c_i * dist**(i+1) for the i-th coefficient (first coefficient multiplies dist, no constant term)")
    # the shift is applied exactly once: by the callers (centres - shift); parameter() must hand out unshifted centres
    for rel_, nm_ in ((IRF, "IrfMultiGaussian.parameter"), (IRF, "IrfSpectralMultiGaussian.parameter")):
        pf = ctx.fn(rel_, nm_)
        bad = []
        for t_, s_ in lib.stores(pf):
            if isinstance(t_, ast.Name) and t_.id in ("centers", "center") and not isinstance(s_, ast.For):
                v_ = s_.value
                if any(isinstance(x, ast.Name) and x.id == "shift" for x in ast.walk(v_)) or "self.shift" in norm(v_):
                    bad.append(s_)
        ctx.ob("C05-R2", f"{nm_}/centres-returned-unshifted", not bad, pf, bad[0] if bad else pf.node,
               "parameter() returns the centres *and* the shift; every caller forms `centres - shift` itself, so the centres must be "
               "returned unshifted - subtracting here as well applies the shift twice",
               construct=lib.short(bad[0]) if bad else f"def {nm_}")
    rets = lib.nodes(sp, ast.Return)
    ctx.ob("C05-R2", "dispersion/return-order", len(rets) == 1 and norm(rets[0].value) == "(centers, widths, scale, shift, backsweep, backsweep_period)", sp,
           rets[0] if rets else sp.node, "returns the dispersed centres and widths in the base class' order")


def r3(ctx) -> None:
    repo = ctx.repo
    lib.check_no_overflowing_exp(ctx, "C05-R3", [fi for fi in repo.functions.values() if fi.rel in (GIRF, DUT)], 3)
    f = ctx.fn(GIRF, "calculate_decay_matrix_gaussian_irf_on_index")
    fl = lib.flow(f, repo)
    rf = ref_flow(repo, REF_KERNEL, "ref")

    def ref_term(name: str) -> Poly:
        d = [x for x in rf.defs_of(name) if x.kind == "assign"][0]
        return rf.term(d.value, d.node)

    augs = [(t, s) for t, s in lib.stores(f) if isinstance(s, ast.AugAssign) and isinstance(t, ast.Subscript) and norm(t.value) == f.params()[0]]
    ctx.sites("C05-R3", "accumulations into the matrix", len(augs), 3)
    seen = set()
    for t, s in augs:
        code_t = to_ref_names(fl.term(s.value, s), f, rf.fi)
        idx_t = [to_ref_names(fl.term(i, s), f, rf.fi) for i in (t.slice.elts if isinstance(t.slice, ast.Tuple) else [t.slice])]
        want_idx = [Poly.atom(("pos", Poly.atom(("name", "times")).key())), Poly.atom(("pos", Poly.atom(("name", "rates")).key()))]
        ctx.ob("C05-R3", f"kernel/writes-time-by-rate:{s.lineno - f.node.lineno}", idx_t == want_idx and isinstance(s.op, ast.Add), f, s,
               "each term is added to matrix[time position, rate position]")
        which = None
        for nm in ("small", "large", "sweep"):
            if code_t == ref_term(nm):
                which = nm
        seen.add(which)
        g = next((a for a in lib.ancestors(s, f.node) if isinstance(a, ast.If)), None)
        ctx.ob("C05-R3", f"kernel/formula:{which or 'unknown'}", which is not None, f, s,
               "the accumulated term must equal one of the reference terms (erfcx form, erf form, backsweep) in normal form",
               [f"code term: {code_t!r}"])
        if which in ("small", "large") and g is not None:
            te = g.test
            ok = isinstance(te, ast.Compare) and len(te.ops) == 1 and isinstance(te.ops[0], (ast.Lt, ast.LtE)) and \
                to_ref_names(fl.term(te.left, g), f, rf.fi) == ref_term("switch")
            thr = None
            try:
                from glint.index import const_value
                thr = const_value(te.comparators[0])
            except Exception:
                thr = None
            ok = ok and isinstance(thr, (int, float)) and -10 <= thr <= 0
            branch = lib.field_of(s, g)
            ok = ok and ((which == "small" and branch == "body") or (which == "large" and branch == "orelse"))
            ctx.ob("C05-R3", f"kernel/branch-selection:{which}", ok, f, g,
                   "the erfcx form is used when beta - alpha is below a (negative) threshold, the erf form otherwise",
                   construct="if " + norm(te))
        if which == "sweep":
            def sweep_on(test, pol, at):
                return pol and "backsweep" in norm(test)
            ctx.ob("C05-R3", "kernel/backsweep-optional", lib.guarded_by(fl, s, sweep_on) is not None, f, s, "the backsweep term is added only when backsweep is enabled")
    ctx.ob("C05-R3", "kernel/all-terms-present", {"small", "large", "sweep"} <= seen, f, f.node,
           "both numerical alternatives and the backsweep term are present", construct=f"found: {sorted(x for x in seen if x)}")
    # loop nest ranges over gaussians, rates, times
    loops = lib.nodes(f, ast.For)
    rng = sorted(norm(n.iter.args[0]) for n in loops if isinstance(n.iter, ast.Call) and n.iter.args)
    p = f.params()
    ctx.ob("C05-R3", "kernel/loop-nest", rng == sorted([f"{p[3]}.size", f"{p[1]}.size", f"{p[2]}.size"]), f, loops[0] if loops else f.node,
           "sum over all Gaussians, for every rate and every time", construct=", ".join(rng))
    nf = ctx.fn(DUT, "calculate_decay_matrix_no_irf")
    fln = lib.flow(nf, repo)
    augs = [(t, s) for t, s in lib.stores(nf) if isinstance(s, ast.AugAssign)]
    ok = False
    for t, s in augs:
        tt = fln.term(s.value, s)
        r = Poly.atom(("sub", Poly.atom(("name", nf.params()[1])).key(), Poly.atom(("pos", Poly.atom(("name", nf.params()[1])).key())).key()))
        tm = Poly.atom(("sub", Poly.atom(("name", nf.params()[2])).key(), Poly.atom(("pos", Poly.atom(("name", nf.params()[2])).key())).key()))
        ok = tt == Poly.atom(("exp", (-(r * tm)).key()))
    ctx.ob("C05-R3", "no_irf/exponential", ok, nf, augs[0][1] if augs else nf.node, "without IRF the column of rate k is exp(-k t)")


def r4(ctx) -> None:
    for name in ("decay_matrix_implementation_index_independent", "decay_matrix_implementation_index_dependent"):
        f = ctx.fn(DUT, name)
        cfg = lib.cfg(f)
        divs = [s for t, s in lib.stores(f) if isinstance(s, ast.AugAssign) and isinstance(s.op, ast.Div) and norm(t) == f.params()[0]]
        ok = len(divs) == 1 and norm(divs[0].value) in ("np.sum(irf_scales)", "irf_scales.sum()", "sum(irf_scales)")
        g = next((a for a in lib.ancestors(divs[0], f.node) if isinstance(a, ast.If)), None) if divs else None
        ok = ok and g is not None and norm(g.test) == "dataset_model.irf.normalize"
        ctx.ob("C05-R4", f"{name}/normalise-iff-requested", ok, f, divs[0] if divs else f.node,
               "the matrix is divided by the sum of the IRF scales exactly when irf.normalize is set")
        kc = [c for c in lib.calls(f) if norm(c.func).startswith("calculate_decay_matrix_gaussian_irf")]
        if divs and kc:
            g = g if g is not None else divs[0]
            ctx.ob("C05-R4", f"{name}/normalise-after-kernel", cfg.dominates(lib.stmt_of(kc[0]), g) and lib.stmt_of(kc[0]).lineno < g.lineno, f, g,
                   "normalisation happens after the kernel filled the matrix")


def check(ctx) -> None:
    for g in check.groups:
        g(ctx)


check.groups = [r1_deciders, r1, r2, r3, r4]
