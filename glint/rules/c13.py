"""C13 - fit statistics are consistent with each other and with the reported data."""

from __future__ import annotations

import ast
from fractions import Fraction

from glint import lib
from glint.dataflow import matmul
from glint.dataflow import transpose
from glint.index import norm
from glint.terms import Poly

OPT = "glotaran/optimization/optimizer.py"
GRP = "glotaran/optimization/optimization_group.py"
MAT = "glotaran/optimization/matrix_provider.py"

DOC = {
    "explanation": (
        "Formula conformance of every statistic assembled in Optimizer.create_result and "
        "OptimizationGroup.create_result_data (reaching-definition terms in polynomial normal "
        "form compared with the documented formulas), of the SVD pseudo-inverse and the "
        "log-space error mapping; provenance of the clp count (reduced label lists); and a "
        "dominance rule that every value-dependent read of provider state happens after an "
        "evaluation that follows the last write of the parameters."
    ),
    "rules": {
        "C13-R7": "accumulators of an evaluation (clp penalties, per-index results) are reset exactly once per evaluation - before the first accumulation and not once per dataset - so cost, chi-square, number_of_residuals and additional_penalty contain the penalties of all datasets (shared with C10-R5)",
        "C13-R6": "every evaluation (scipy's `fun`, the re-evaluation for `cost`, the result datasets) sees expression parameters at their exact fixed point, evaluated on the working copy itself (shared with C12-R2, C12-R4)",
        "C13-R5": "the matrices that are fitted (and whose columns number_of_clps counts) are the reduced ones: relations, then constraints, then the weight applied to the reduced matrix (shared with C02-R2)",
        "C13-R1": "residuals = fun.size, free parameters = x.size, dof = residuals - free - clps, chi2 = sum(fun**2), reduced = chi2/dof, rmse = sqrt(reduced), cost = 1/2 p.p with p re-evaluated at the optimum; per-dataset rmse = sqrt(sum(res**2)/(n_model*n_global)), weighted likewise",
        "C13-R2": "covariance = (V^T[m]^T / s^2[m]) V^T[m] with m = s^2 > eps from the thin SVD of the Jacobian; standard errors = rmse*sqrt(diag) in free-parameter order; non-negative parameters: value*(exp(e)-1) if e < |log value| else |value|",
        "C13-R3": "number_of_clps counts the labels of the reduced (prepared / aligned) containers per index, and len(model labels) x len(global labels) for full models; the optimiser sums it over all groups",
        "C13-R4": "in create_result every value-dependent read of provider state (additional penalties, result data, penalty used for the cost) is dominated by an evaluation that comes after the last write of the parameters",
    },
    "declined": ["numeric agreement of cost with scipy's own cost and of chi2 with the reported datasets (values)", "positive semi-definiteness beyond the formula (numeric)"],
    "assumptions": ["numpy.linalg.svd returns singular values and right singular vectors in matching order"],
}

SELF = Poly.atom(("name", "self"))


def A(base: Poly, attr: str) -> Poly:
    return Poly.atom(("attr", base.key(), attr))


def r1(ctx) -> None:
    repo = ctx.repo
    cr = ctx.fn(OPT, "Optimizer.create_result")
    fl = lib.flow(cr, repo)
    res = A(SELF, "_optimization_result")
    fun = A(res, "fun")
    x = A(res, "x")
    ret = lib.nodes(cr, ast.Return)[-1]

    def val(key: str) -> Poly | None:
        for t, s in lib.stores(cr):
            if isinstance(t, ast.Subscript) and norm(t.value) == "result_args" and lib.const_str(t.slice) == key:
                return fl.term(s.value, s), s
        return None

    def check(key: str, want: list[Poly], text: str) -> None:
        got = val(key)
        if got is None:
            ctx.ob("C13-R1", f"create_result/{key}", False, cr, cr.node, f"`{key}` is not computed", construct="def create_result")
            return
        t, s = got
        ctx.ob("C13-R1", f"create_result/{key}", t in want, cr, s, f"{key} = {text}", [f"code term: {t!r}"])

    n_res = A(fun, "size")
    n_free = A(x, "size")
    check("number_of_residuals", [n_res], "size of the final penalty vector (data points + penalties)")
    check("number_of_free_parameters", [n_free], "size of the optimiser's vector")
    got = val("number_of_clps")
    n_clps = got[0] if got else None
    ok = False
    if got is not None:
        a = got[0].single_atom()
        # sum(group.number_of_clps for group in self._optimization_groups)
        ok = bool(a and a[0] == "call" and a[1] == "sum" and "number_of_clps" in repr(a[2]) and "_optimization_groups" in repr(a[2]))
        comp = got[1].value.args[0] if isinstance(got[1].value, ast.Call) and got[1].value.args else None
        ok = ok and isinstance(comp, ast.GeneratorExp) and not comp.generators[0].ifs and norm(comp.generators[0].iter) == "self._optimization_groups"
    ctx.ob("C13-R1", "create_result/number_of_clps", ok, cr, got[1] if got else cr.node, "number_of_clps = sum over all optimisation groups",
           construct=lib.short(got[1], 110) if got else "def")
    if n_clps is not None:
        check("degrees_of_freedom", [n_res - n_free - n_clps], "residuals - free parameters - clps")
        chi = Poly.atom(("call", "sum", ((fun * fun).key(),)))
        check("chi_square", [chi], "sum of squared penalty entries")
        dof = n_res - n_free - n_clps
        check("reduced_chi_square", [chi / dof], "chi_square / degrees_of_freedom")
        check("root_mean_square_error", [(chi / dof).pow(Poly.const(Fraction(1, 2)))], "sqrt(reduced_chi_square)")
    got = val("cost")
    ok = False
    if got is not None:
        t, s = got
        pen = Poly.atom(("mcall", SELF.key(), "calculate_penalty", (), ()))
        ok = t == Poly.const(Fraction(1, 2)) * matmul(pen, pen)
    ctx.ob("C13-R1", "create_result/cost", ok, cr, got[1] if got else cr.node, "cost = 1/2 * p.p with p = the re-evaluated penalty vector",
           [f"code term: {got[0]!r}"] if got else [])
    check("jacobian", [A(res, "jac")], "the optimiser's Jacobian")
    got = val("covariance_matrix")
    ok = False
    if got is not None:
        c = got[1].value
        ok = isinstance(c, ast.Call) and norm(c.func) == "self.calculate_covariance_matrix_and_standard_errors" and len(c.args) == 2 and \
            fl.term(c.args[0], got[1]) == A(res, "jac") and n_clps is not None and \
            fl.term(c.args[1], got[1]) == ((Poly.atom(("call", "sum", ((fun * fun).key(),)))) / (n_res - n_free - n_clps)).pow(Poly.const(Fraction(1, 2)))
    ctx.ob("C13-R1", "create_result/covariance-inputs", ok, cr, got[1] if got else cr.node,
           "the covariance is computed from the reported Jacobian and the reported root mean square error")
    okr = isinstance(ret.value, ast.Call) and norm(ret.value.func) == "Result" and any(k.arg is None and norm(k.value) == "result_args" for k in ret.value.keywords)
    ctx.ob("C13-R1", "create_result/returns-result-of-args", okr, cr, ret, "the Result is built from exactly these values")
    # per dataset statistics
    cd = ctx.fn(GRP, "OptimizationGroup.create_result_data")
    fld = lib.flow(cd, repo)
    sts = {}
    for t, s in lib.stores(cd):
        if isinstance(t, ast.Subscript) and norm(t.value) == "result_dataset.attrs" and lib.const_str(t.slice):
            sts[lib.const_str(t.slice)] = s
    rd = Poly.atom(("name", "RD"))

    def rmse_want(var: str) -> Poly:
        r = A(rd, var)
        shape = A(r_shape_src, "shape")
        size = Poly.atom(("sub", shape.key(), Poly.const(0).key())) * Poly.atom(("sub", shape.key(), Poly.const(1).key()))
        inner = Poly.atom(("call", "sum", ((r * r).key(),))) / size
        return A(inner.pow(Poly.const(Fraction(1, 2))), "data")

    s = sts.get("root_mean_square_error")
    ok = False
    if s is not None:
        t = fld.term(s.value, s)
        # normalise the result dataset variable name
        rdv = None
        for a in t.all_atoms():
            if a[0] == "attr" and a[2] == "residual":
                rdv = Poly(dict(a[1]))
        if rdv is not None:
            rd = rdv
            r_shape_src = A(rd, "residual")
            ok = t == rmse_want("residual")
    ctx.ob("C13-R1", "create_result_data/root_mean_square_error", ok, cd, s or cd.node,
           "dataset rmse = sqrt(sum(residual**2) / (n_model * n_global))", [f"code term: {fld.term(s.value, s)!r}"] if s is not None else [])
    s = sts.get("weighted_root_mean_square_error")
    ok = False
    if s is not None and isinstance(s.value, ast.IfExp):
        tb = fld.term(s.value.body, s)
        r_shape_src = A(rd, "residual")
        ok = tb == rmse_want("weighted_residual") and "weighted_residual" in norm(s.value.test) and \
            norm(s.value.orelse).replace(" ", "") == "result_dataset.attrs['root_mean_square_error']"
    ctx.ob("C13-R1", "create_result_data/weighted_root_mean_square_error", ok, cd, s or cd.node,
           "weighted rmse = sqrt(sum(weighted_residual**2) / size) when the dataset is weighted, else the plain rmse")
    s = sts.get("dataset_scale")
    ok = s is not None and isinstance(s.value, ast.IfExp) and norm(s.value.test) == "dataset_model.scale is None" and norm(s.value.body) == "1" \
        and norm(s.value.orelse) == "dataset_model.scale.value"
    ctx.ob("C13-R1", "create_result_data/dataset_scale", ok, cd, s or cd.node, "dataset_scale = 1 if the dataset has no scale, else the scale parameter's value")
    # the statistics are computed after the weight handling (so residual is the un-weighted one)
    aw = lib.method_calls(cd, "add_weight_to_result_data")
    if aw and sts.get("root_mean_square_error") is not None:
        ctx.ob("C13-R1", "create_result_data/rmse-after-unweighting", lib.cfg(cd).dominates(lib.stmt_of(aw[0]), sts["root_mean_square_error"]), cd,
               sts["root_mean_square_error"], "the dataset rmse uses the un-weighted residual (computed after the weight division)")


def r2(ctx) -> None:
    repo = ctx.repo
    f = ctx.fn(OPT, "Optimizer.calculate_covariance_matrix_and_standard_errors")
    fl = lib.flow(f, repo)
    jp, rp = f.params()[1], f.params()[2]
    svds = [c for c in lib.calls(f) if norm(c.func) in ("np.linalg.svd", "numpy.linalg.svd", "scipy.linalg.svd")]
    if not ctx.ob("C13-R2", "covariance/svd", len(svds) == 1 and norm(svds[0].args[0]) == jp, f, svds[0] if svds else f.node, "thin SVD of the Jacobian",
                  construct=lib.short(svds[0]) if svds else "def"):
        return
    fm = next((k.value for k in svds[0].keywords if k.arg == "full_matrices"), None)
    ctx.ob("C13-R2", "covariance/thin-svd", isinstance(fm, ast.Constant) and fm.value is False, f, svds[0], "full_matrices=False (V^T has one row per singular value)")
    svd_t = fl.term(svds[0], lib.stmt_of(svds[0]))
    s = Poly.atom(("item", svd_t.key(), (1,)))
    vt = Poly.atom(("item", svd_t.key(), (2,)))
    s2 = s * s
    eps = A(Poly.atom(("call", "numpy.finfo", (Poly.atom(("name", "float")).key(),))), "eps")
    mask = Poly.atom(("cmp", (s2.key(), "Gt", eps.key())))

    def sel(p: Poly) -> Poly:
        return Poly.atom(("sub", p.key(), mask.key()))

    want = matmul(transpose(sel(vt)) / sel(s2), sel(vt))
    rets = lib.nodes(f, ast.Return)
    r = rets[0] if rets else None
    got = fl.term(r.value, r) if r is not None else None
    ctx.ob("C13-R2", "covariance/pseudo-inverse", got == want, f, r or f.node,
           "covariance = (V^T[m]^T / s^2[m]) @ V^T[m], m = s^2 > machine eps: the symmetric pseudo-inverse of J^T J",
           [f"code term: {got!r}", f"reference: {want!r}"])
    se = [d for d in fl.defs_of("standard_errors") if d.kind == "assign"]
    ok = False
    if se and got is not None:
        t = fl.term(se[0].value, se[0].node)
        ok = t == Poly.atom(("name", rp)) * Poly.atom(("call", "diag", (want.key(),))).pow(Poly.const(Fraction(1, 2)))
    ctx.ob("C13-R2", "covariance/standard-errors", ok, f, se[0].stmt if se else f.node, "standard errors = rmse * sqrt(diag(covariance))")
    # mapping for non-negative parameters
    sts = [(t, s_) for t, s_ in lib.stores(f) if isinstance(t, ast.Attribute) and t.attr == "standard_error"]
    ctx.sites("C13-R2", "standard_error stores", len(sts), 3)
    kinds = {}
    for t, s_ in sts:
        tt = fl.term(s_.value, s_)
        g_nn = lib.guarded_by(fl, s_, lambda te, po, at: "non_negative" in norm(te) and po)
        g_lin = lib.guarded_by(fl, s_, lambda te, po, at: "non_negative" in norm(te) and not po)
        if g_lin is not None:
            kinds["linear"] = tt == Poly.atom(("elem", (Poly.atom(("name", rp)) * Poly.atom(("call", "diag", (want.key(),))).pow(Poly.const(Fraction(1, 2)))).key()))
        elif g_nn is not None:
            pv = None
            for a in tt.all_atoms():
                if a[0] == "attr" and a[2] == "value":
                    pv = Poly.atom(a)
            err = Poly.atom(("elem", (Poly.atom(("name", rp)) * Poly.atom(("call", "diag", (want.key(),))).pow(Poly.const(Fraction(1, 2)))).key()))
            if pv is not None and tt == pv * (Poly.atom(("exp", err.key())) - Poly.const(1)):
                def small(te, po, at):
                    txt = norm(te).replace(" ", "")
                    return po and txt in ("error<np.abs(_log_value(parameter.value))", "np.abs(_log_value(parameter.value))>error")
                kinds["log-small"] = lib.guarded_by(fl, s_, small) is not None
            elif pv is not None and tt == Poly.atom(("call", "abs", (pv.key(),))):
                kinds["log-large"] = True
    ctx.ob("C13-R2", "covariance/error-linear-parameters", kinds.get("linear") is True, f, f.node,
           "ordinary parameters get the standard error itself", construct="parameter.standard_error = error")
    ctx.ob("C13-R2", "covariance/error-non-negative-small", kinds.get("log-small") is True, f, f.node,
           "non-negative parameters (optimised as logarithms): value * (exp(error) - 1) when error < |log value|",
           construct="parameter.standard_error = parameter.value * (np.exp(error) - 1.0)")
    ctx.ob("C13-R2", "covariance/error-non-negative-large", kinds.get("log-large") is True, f, f.node,
           "otherwise |value|", construct="parameter.standard_error = np.abs(parameter.value)")


def r3(ctx) -> None:
    repo = ctx.repo
    un = ctx.fn(MAT, "MatrixProviderUnlinked.number_of_clps")
    txt = lib.xfn(un, repo)
    ok_full = "len(self.get_matrix_container(dataset_label).clp_labels) * len(self.get_global_matrix_container(dataset_label).clp_labels)" in txt
    ctx.ob("C13-R3", "MatrixProviderUnlinked.number_of_clps/full-model", ok_full, un, un.node,
           "full models: number of model clp labels times number of global clp labels", construct="len(model_clp_labels) * len(global_clp_labels)")
    gens = [n for n in lib.nodes(un, ast.GeneratorExp)]
    fl = lib.flow(un, repo)
    # temporaries (the index range, hoisted sub-expressions) are looked through
    xg = [n for n in ast.walk(fl.inlined_function()) if isinstance(n, ast.GeneratorExp)]
    ok = any(norm(g.elt) == "len(self.get_prepared_matrix_container(dataset_label, index).clp_labels)" and not g.generators[0].ifs
             and norm(g.generators[0].iter) == "range(len(self._data_provider.get_global_axis(dataset_label)))" for g in xg)
    ctx.ob("C13-R3", "MatrixProviderUnlinked.number_of_clps/reduced-per-index", ok, un, gens[0] if gens else un.node,
           "per index the labels of the *prepared* (constraint and relation reduced) container are counted, over every global index",
           construct=lib.short(gens[0], 110) if gens else "def")
    loops = lib.nodes(un, ast.For)
    ok = len(loops) == 1 and norm(loops[0].iter) == "self.group.dataset_models.items()"
    acc = [s for t, s in lib.stores(un) if isinstance(s, ast.AugAssign) and isinstance(s.op, ast.Add) and norm(t) == "nr_of_clps"]
    ctx.ob("C13-R3", "MatrixProviderUnlinked.number_of_clps/all-datasets", ok and len(acc) == 2, un, loops[0] if loops else un.node,
           "summed over all dataset models of the group")
    li = ctx.fn(MAT, "MatrixProviderLinked.number_of_clps")
    gens = [n for n in lib.nodes(li, ast.GeneratorExp)]
    fll = lib.flow(li, repo)
    xg = [n for n in ast.walk(fll.inlined_function()) if isinstance(n, ast.GeneratorExp)]
    ok = any(norm(g.elt) == "len(self.get_aligned_matrix_container(index).clp_labels)" and not g.generators[0].ifs
             and norm(g.generators[0].iter) == "range(len(self._data_provider.aligned_global_axis))" for g in xg)
    ctx.ob("C13-R3", "MatrixProviderLinked.number_of_clps/reduced-per-aligned-index", ok, li, gens[0] if gens else li.node,
           "linked groups: labels of the reduced aligned container at every aligned index", construct=lib.short(gens[0], 100) if gens else "def")
    gp = ctx.fn(GRP, "OptimizationGroup.number_of_clps")
    rets = lib.nodes(gp, ast.Return)
    ctx.ob("C13-R3", "OptimizationGroup.number_of_clps/delegates", len(rets) == 1 and norm(rets[0].value) == "self._matrix_provider.number_of_clps", gp,
           rets[0] if rets else gp.node, "the group reports its matrix provider's count")


def r4(ctx) -> None:
    repo = ctx.repo
    cr = ctx.fn(OPT, "Optimizer.create_result")
    cfg = lib.cfg(cr)
    writes = [lib.stmt_of(c) for c in lib.calls(cr) if isinstance(c.func, ast.Attribute) and c.func.attr in ("set_from_label_and_value_arrays", "set_from_history")]
    ctx.sites("C13-R4", "parameter writes in create_result", len(writes), 2)
    evals = [(c, lib.stmt_of(c)) for c in lib.calls(cr) if isinstance(c.func, ast.Attribute) and c.func.attr in ("calculate_penalty", "calculate")]
    ctx.sites("C13-R4", "evaluations in create_result", len(evals), 1)
    reads = [(c, lib.stmt_of(c)) for c in lib.calls(cr, nested=True) if isinstance(c.func, ast.Attribute) and c.func.attr in ("get_additional_penalties", "create_result_data")]
    ctx.sites("C13-R4", "value dependent state reads", len(reads), 2)
    last_write_line = max(w.lineno for w in writes)
    good_evals = [(c, s) for c, s in evals if s.lineno > last_write_line and all(not cfg.exists_path(s, w) for w in writes)]
    for c, s in reads + [(c, s) for c, s in evals if c.func.attr == "calculate_penalty"]:
        if c.func.attr == "calculate_penalty":
            ok = (c, s) in good_evals
            ctx.ob("C13-R4", "create_result/cost-penalty-after-last-write", ok, cr, s,
                   "the penalty used for `cost` is evaluated after the last write of the parameters (optimum or restored record)")
            continue
        doms = [e for ce, e in good_evals if cfg.dominates(e, s) and e.lineno <= s.lineno and e is not s] + [
            e for ce, e in good_evals if lib.is_inside(c, e)]
        # an evaluation in the same loop body preceding the read also counts
        same_block = [e for ce, e in good_evals if getattr(e, "_parent", None) is getattr(s, "_parent", None) and e.lineno < s.lineno]
        ctx.ob("C13-R4", f"create_result/fresh-state:{c.func.attr}", bool(doms or same_block), cr, s,
               f"`{c.func.attr}()` reads state left by the most recent evaluation; scipy's last objective calls are finite-difference "
               "probes, so it must be preceded (dominated) by a re-evaluation made after the parameters were set to the optimum")
    # the parameter object evaluated is the optimiser's copy that was just written
    for c, s in evals:
        if c.func.attr == "calculate":
            ctx.ob("C13-R4", "create_result/evaluates-written-parameters", len(c.args) == 1 and norm(c.args[0]) == "self._parameters", cr, s,
                   "groups are re-evaluated with the parameter set that was written")
    # the standard errors of non-negative parameters are mapped back with the parameter *values*: optimum first
    cov = [(c, lib.stmt_of(c)) for c in lib.calls(cr, nested=True) if isinstance(c.func, ast.Attribute) and c.func.attr == "calculate_covariance_matrix_and_standard_errors"]
    ctx.sites("C13-R4", "covariance / standard error computation", len(cov), 1)
    opt_writes = [lib.stmt_of(c) for c in lib.calls(cr) if isinstance(c.func, ast.Attribute) and c.func.attr == "set_from_label_and_value_arrays"
                  and len(c.args) == 2 and norm(c.args[1]) == "self._optimization_result.x"]
    for c, s_ in cov:
        ok = any(cfg.dominates(w, s_) and w.lineno < s_.lineno for w in opt_writes) and not any(
            w.lineno > s_.lineno for w in opt_writes)
        ctx.ob("C13-R4", "create_result/optimum-set-before-standard-errors", ok, cr, s_,
               "calculate_covariance_matrix_and_standard_errors reads parameter.value (log-space back-mapping of non-negative parameters): the "
               "parameters must already hold the optimum x, not the last point the solver probed")
    op = [s for t, s in lib.stores(cr) if isinstance(t, ast.Subscript) and lib.const_str(t.slice) == "optimized_parameters"]
    ctx.ob("C13-R4", "create_result/optimized-parameters", len(op) == 1 and norm(op[0].value) == "self._parameters" and op[0].lineno > last_write_line, cr,
           op[0] if op else cr.node, "optimized_parameters is the parameter set the statistics were evaluated at")


def r5(ctx) -> None:
    """The clp count is the column count of the matrices actually fitted: reduction precedes weighting (shared with C02-R2)."""
    from glint.rules import c02

    c02.r2(ctx, rule="C13-R5")


def r6(ctx) -> None:
    """The statistics are computed from one mutually consistent parameter set (shared with C12-R2 and C12-R4)."""
    from glint.rules import c12

    c12.r2(ctx, rule="C13-R6")
    c12.r4(ctx, rule="C13-R6")


def r7(ctx) -> None:
    """Every penalty of the evaluation is in the residual vector the statistics are computed from (shared with C10-R5)."""
    from glint.rules import c10

    c10.r5(ctx, rule="C13-R7")


def check(ctx) -> None:
    for g in check.groups:
        g(ctx)


check.groups = [r1, r2, r3, r4, r5, r6, r7]
