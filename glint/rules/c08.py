"""C08 - interval-scoped constraints, relations, penalties, weights act on their interval."""

from __future__ import annotations

import ast

from glint import lib
from glint.index import norm
from glint.terms import Poly

ITV = "glotaran/model/interval_item.py"
CON = "glotaran/model/clp_constraint.py"
DAT = "glotaran/optimization/data_provider.py"
EST = "glotaran/optimization/estimation_provider.py"
MAT = "glotaran/optimization/matrix_provider.py"

DOC = {
    "explanation": (
        "Static decision of: closedness and order-insensitivity of the membership test, the "
        "`only` constraint being the exact negation of `zero`, the slice bounds for finite "
        "and infinite interval ends (term comparison), the dataset-weight precedence guard "
        "dominating the model-weight store, absence of truthiness tests on array valued "
        "weights, ordering of raw interval bounds before they are compared or clamped, and "
        "pairing of every interval with the axis of its own dimension."
    ),
    "rules": {
        "C08-R6": "relations are applied before constraints (a relation whose source is constrained away must still act; retrieve_clps inverts exactly this order), weights are complete before use, and the flattened weight of a full model follows the layout of the flattened data (shared with C02-R2 and C03-R5)",
        "C08-R1": "IntervalItem.applies: no interval or no index => True; bounds swapped when reversed; `lower <= index <= upper` (closed at both ends); a list of intervals is their union",
        "C08-R2": "OnlyConstraint.applies is `not ZeroConstraint.applies`; ZeroConstraint does not override applies",
        "C08-R3": "get_axis_slice_from_interval orders the bounds, starts at 0 for an infinite lower bound and at the nearest point otherwise, stops at axis.size for an infinite upper bound and one past the nearest point otherwise",
        "C08-R4": "add_model_weight: the `dataset weight is not None` test (identity test, not truthiness) warns and returns before any model weight is stored; model intervals index the model axis, global intervals the global axis; the model weight multiplies a ones array",
        "C08-R5": "raw interval bounds are ordered before any comparison / clamp in _get_area; the clamped interval and the same global axis are handed to get_axis_slice_from_interval; the area is read at positions of that slice",
    },
    "declined": ["monotonicity in the interval for arbitrary (non-monotonic) axes", "which of two equidistant axis points is 'nearest' (argmin tie-breaking)"],
    "assumptions": ["axes are strictly increasing (stated in the property's quantifier)"],
}


def r1_r2(ctx) -> None:
    repo = ctx.repo
    ap = ctx.fn(ITV, "IntervalItem.applies")
    inner = repo.functions.get(ap.qualname + ".<locals>.applies")
    idx_p = ap.params()[1]
    g0 = [n for n in lib.nodes(ap, ast.If) if n.body and isinstance(n.body[0], ast.Return) and isinstance(n.body[0].value, ast.Constant)
          and n.body[0].value.value is True]
    ok = False
    for n in g0:
        t = norm(n.test)
        ok = ok or ("self.interval is None" in t and f"{idx_p} is None" in t and isinstance(n.test, ast.BoolOp) and isinstance(n.test.op, ast.Or))
    ctx.ob("C08-R1", "IntervalItem.applies/no-interval-applies-everywhere", ok, ap, g0[0] if g0 else ap.node,
           "an item without interval (or evaluated without index) applies everywhere", construct=lib.short(g0[0], 80) if g0 else "def applies")
    if inner is None:
        ctx.ob("C08-R1", "IntervalItem.applies/inner-test", False, ap, ap.node, "inner membership function not found", construct="def applies")
    else:
        ctx.touch(inner)
        fl = lib.flow(inner, repo)
        ip = inner.params()[0]
        rets = lib.nodes(inner, ast.Return)
        okc = False
        trace = []
        for r in rets:
            v = r.value
            if isinstance(v, ast.Compare) and len(v.ops) == 2 and all(isinstance(o, ast.LtE) for o in v.ops) and norm(v.comparators[0]) == idx_p:
                lo = fl.term(v.left, r)
                hi = fl.term(v.comparators[1], r)
                trace += [f"lower: {lo!r}", f"upper: {hi!r}"]
                # after the conditional swap both are phi(bound0, bound1)
                b0 = Poly.atom(("sub", Poly.atom(("name", ip)).key(), Poly.const(0).key()))
                b1 = Poly.atom(("sub", Poly.atom(("name", ip)).key(), Poly.const(1).key()))
                la, ha = lo.single_atom(), hi.single_atom()
                okc = bool(la and ha and la[0] == "phi" and ha[0] == "phi" and set(la[2]) == {b0.key(), b1.key()} and set(ha[2]) == {b0.key(), b1.key()})
            elif isinstance(v, ast.BoolOp) and isinstance(v.op, ast.And):
                t = norm(v).replace(" ", "")
                okc = t in (f"lower<={idx_p}and{idx_p}<=upper", f"{idx_p}>=lowerand{idx_p}<=upper")
        ctx.ob("C08-R1", "IntervalItem.applies/closed", okc, inner, rets[0] if rets else inner.node,
               "membership is `lower <= index <= upper`: closed at both ends, on the ordered bounds", trace)
        swaps = [n for n in lib.nodes(inner, ast.If) if isinstance(n.test, ast.Compare) and isinstance(n.test.ops[0], (ast.Gt, ast.GtE, ast.Lt, ast.LtE))
                 and any(isinstance(s, ast.Assign) and isinstance(s.targets[0], ast.Tuple) and isinstance(s.value, ast.Tuple)
                         and [norm(x) for x in s.targets[0].elts] == [norm(x) for x in reversed(s.value.elts)] for s in n.body)]
        mm = "min(" in norm(inner.node) and "max(" in norm(inner.node)
        ctx.ob("C08-R1", "IntervalItem.applies/order-insensitive", len(swaps) == 1 and norm(swaps[0].test).replace(" ", "") in ("lower>upper", "upper<lower") or mm,
               inner, swaps[0] if swaps else inner.node, "reversed bounds are swapped before the test",
               construct=lib.short(swaps[0], 80) if swaps else "def applies")
    rets = lib.nodes(ap, ast.Return)
    anyr = [r for r in rets if isinstance(r.value, ast.Call) and norm(r.value.func) == "any"]
    oku = len(anyr) == 1 and isinstance(anyr[0].value.args[0], ast.GeneratorExp) and norm(anyr[0].value.args[0].generators[0].iter) == "self.interval" \
        and not anyr[0].value.args[0].generators[0].ifs
    ctx.ob("C08-R1", "IntervalItem.applies/list-is-union", oku, ap, anyr[0] if anyr else ap.node,
           "a list of intervals applies where any of them applies", construct=lib.short(anyr[0]) if anyr else "def applies")
    single = [r for r in rets if isinstance(r.value, ast.Call) and norm(r.value.func) == "applies" and norm(r.value.args[0]) == "self.interval"]
    ctx.ob("C08-R1", "IntervalItem.applies/single-interval", len(single) == 1, ap, single[0] if single else ap.node, "a single interval is tested directly",
           construct=lib.short(single[0]) if single else "def applies")
    # R2
    oc = ctx.fn(CON, "OnlyConstraint.applies")
    rets = lib.nodes(oc, ast.Return)
    ok = len(rets) == 1 and isinstance(rets[0].value, ast.UnaryOp) and isinstance(rets[0].value.op, ast.Not) and \
        norm(rets[0].value.operand) == f"super().applies({oc.params()[1]})"
    ctx.ob("C08-R2", "OnlyConstraint.applies/negates-zero", ok, oc, rets[0] if rets else oc.node, "`only` applies exactly where `zero` does not")
    only = repo.cls(CON, "OnlyConstraint")
    zero = repo.cls(CON, "ZeroConstraint")
    ctx.ob("C08-R2", "OnlyConstraint/derives-from-zero", zero.qualname in only.bases and "applies" not in zero.methods and
           "applies" not in repo.cls(CON, "ClpConstraint").methods, None, only.node,
           "OnlyConstraint derives from ZeroConstraint, whose membership is IntervalItem.applies unchanged", construct="class OnlyConstraint(ZeroConstraint)")
    di = ctx.fn(MAT, "MatrixProvider.does_interval_item_apply")
    rets = lib.nodes(di, ast.Return)
    ok = any(norm(r.value) == f"{di.params()[0]}.applies({di.params()[1]})" for r in rets)
    ctx.ob("C08-R1", "does_interval_item_apply/delegates", ok, di, rets[-1] if rets else di.node, "the matrix provider delegates the decision to the item's applies()")


def r3(ctx) -> None:
    repo = ctx.repo
    f = ctx.fn(DAT, "DataProvider.get_axis_slice_from_interval")
    fl = lib.flow(f, repo)
    ip, ax = f.params()[0], f.params()[1]
    rets = lib.nodes(f, ast.Return)
    ctx.sites("C08-R3", "return slice", len(rets), 1)
    r = rets[0]
    v = r.value
    if not (isinstance(v, ast.Call) and norm(v.func) == "slice" and len(v.args) == 2):
        ctx.ob("C08-R3", "get_axis_slice_from_interval/returns-slice", False, f, r, "returns slice(start, stop)")
        return
    start_t = fl.term(v.args[0], r)
    stop_t = fl.term(v.args[1], r)
    b0 = Poly.atom(("sub", Poly.atom(("name", ip)).key(), Poly.const(0).key()))
    b1 = Poly.atom(("sub", Poly.atom(("name", ip)).key(), Poly.const(1).key()))
    phi_keys = {b0.key(), b1.key()}

    def is_bound(p: Poly, which: str) -> bool:
        a = p.single_atom()
        if a and a[0] == "phi":
            return set(a[2]) == phi_keys
        if a and a[0] == "call" and a[1] in ("min", "max") and a[1] == which:
            return True
        return False

    def analyse(t: Poly, which: str):
        """-> (cond bound ok, value for infinite, nearest expr ok, offset)"""
        a = t.single_atom()
        if not (a and a[0] == "ite"):
            return None
        cond, tv, fv = Poly(dict(a[1])), Poly(dict(a[2])), Poly(dict(a[3]))
        ca = cond.single_atom()
        cond_ok = bool(ca and ca[0] == "call" and ca[1].endswith("isinf") and is_bound(Poly(dict(ca[2][0])), which))
        # finite arm: argmin(|axis - bound|) + offset
        off = fv.terms.get((), 0)
        rest = fv - Poly.const(off)
        ra = rest.single_atom()
        near_ok = False
        if ra and ra[0] == "mcall" and ra[2] == "argmin":
            inner = Poly(dict(ra[1])).single_atom()
            if inner and inner[0] == "call" and inner[1] == "abs":
                d = Poly(dict(inner[2][0]))
                axis_atom = Poly.atom(("name", ax))
                other = d - axis_atom
                other2 = d + axis_atom
                near_ok = is_bound(-other, which) or is_bound(other2, which)
        return cond_ok, tv, near_ok, off

    sa = analyse(start_t, "min")
    so = analyse(stop_t, "max")
    ctx.ob("C08-R3", "get_axis_slice_from_interval/start", bool(sa) and sa[0] and sa[1] == Poly.const(0) and sa[2] and sa[3] == 0, f, r,
           "start = 0 for an infinite lower bound, else the position of the axis point nearest to the lower bound",
           [f"start term: {start_t!r}"], construct="slice start: " + norm(v.args[0]))
    size_ok = False
    if so:
        tv = so[1]
        ta = tv.single_atom()
        size_ok = bool(ta and ((ta[0] == "attr" and ta[2] == "size" and ta[1] == Poly.atom(("name", ax)).key())
                               or (ta[0] == "call" and ta[1] == "len" and ta[2] == (Poly.atom(("name", ax)).key(),))))
    ctx.ob("C08-R3", "get_axis_slice_from_interval/stop", bool(so) and so[0] and size_ok and so[2] and so[3] == 1, f, r,
           "stop = axis.size for an infinite upper bound (the last point is included), else one past the position of the axis point "
           "nearest to the upper bound", [f"stop term: {stop_t!r}"], construct="slice stop: " + norm(v.args[1]))
    swaps = [n for n in lib.nodes(f, ast.If) if isinstance(n.test, ast.Compare) and any(
        isinstance(s, ast.Assign) and isinstance(s.targets[0], ast.Tuple) and isinstance(s.value, ast.Tuple)
        and [norm(x) for x in s.targets[0].elts] == [norm(x) for x in reversed(s.value.elts)] for s in n.body)]
    mm = any(isinstance(c, ast.Call) and norm(c.func) in ("min", "max", "sorted") for c in lib.calls(f))
    ctx.ob("C08-R3", "get_axis_slice_from_interval/order-insensitive", bool(swaps) or mm, f, swaps[0] if swaps else f.node,
           "reversed bounds are ordered before they are used", construct=lib.short(swaps[0], 90) if swaps else "def")
    # which variable holds the lower / the upper bound after ordering
    lo_var = hi_var = None
    for n in swaps:
        t = n.test
        if isinstance(t.ops[0], ast.Gt) and isinstance(t.left, ast.Name) and isinstance(t.comparators[0], ast.Name):
            lo_var, hi_var = t.left.id, t.comparators[0].id
        if isinstance(t.ops[0], ast.Lt) and isinstance(t.left, ast.Name) and isinstance(t.comparators[0], ast.Name):
            hi_var, lo_var = t.left.id, t.comparators[0].id
    for t_, s_ in lib.stores(f):
        if isinstance(s_, ast.Assign) and isinstance(s_.targets[0], ast.Tuple) and isinstance(s_.value, ast.Tuple) and len(s_.value.elts) == 2:
            a_, b_ = s_.value.elts
            if isinstance(a_, ast.Call) and isinstance(b_, ast.Call) and norm(a_.func) == "min" and norm(b_.func) == "max":
                lo_var, hi_var = norm(s_.targets[0].elts[0]), norm(s_.targets[0].elts[1])

    def names_of_bound(e: ast.AST) -> set:
        """bound variables mentioned in the expression that defines a slice end (following one local definition)."""
        if isinstance(e, ast.Name) and e.id not in (lo_var, hi_var):
            ds = [d for d in fl.reaching(e.id, r) if d.kind == "assign"]
            out = set()
            for d in ds:
                out |= {x for x in lib.names_in(d.value) if x in (lo_var, hi_var)}
            return out
        return {x for x in lib.names_in(e) if x in (lo_var, hi_var)}

    if lo_var and hi_var:
        ctx.ob("C08-R3", "get_axis_slice_from_interval/start-uses-lower-bound", names_of_bound(v.args[0]) == {lo_var}, f, r,
               f"the slice start is derived from the lower bound `{lo_var}` only", construct="slice start: " + norm(v.args[0]))
        ctx.ob("C08-R3", "get_axis_slice_from_interval/stop-uses-upper-bound", names_of_bound(v.args[1]) == {hi_var}, f, r,
               f"the slice stop is derived from the upper bound `{hi_var}` only", construct="slice stop: " + norm(v.args[1]))
    else:
        ctx.ob("C08-R3", "get_axis_slice_from_interval/bound-variables", False, f, f.node,
               "cannot tell which variable holds the lower and which the upper bound after ordering", construct="def")


def r4(ctx) -> None:
    repo = ctx.repo
    f = ctx.fn(DAT, "DataProvider.add_model_weight")
    fl = lib.flow(f, repo)
    cfg = fl.cfg
    lab = f.params()[2]
    st = [(t, s) for t, s in lib.stores(f) if isinstance(t, ast.Subscript) and lib.chain_text(t.value) == "self._weight"]
    ctx.sites("C08-R4", "model weight store", len(st), 1)
    guards = []
    for n in lib.nodes(f, ast.If):
        t = n.test
        if isinstance(t, ast.Compare) and len(t.ops) == 1 and isinstance(t.ops[0], ast.IsNot) and norm(t.left) == f"self._weight[{lab}]" \
                and isinstance(t.comparators[0], ast.Constant) and t.comparators[0].value is None and n.body and isinstance(n.body[-1], ast.Return):
            guards.append(n)
    ok = len(guards) == 1
    ctx.ob("C08-R4", "add_model_weight/precedence-guard", ok, f, guards[0] if guards else f.node,
           "`if self._weight[label] is not None: warn; return` - the dataset's own weight wins",
           construct=lib.short(guards[0], 90) if guards else "def add_model_weight")
    if guards:
        g = guards[0]
        warns = [c for c in lib.calls(ast.Module(body=g.body, type_ignores=[])) if norm(c.func) in ("warnings.warn", "warn")]
        ctx.ob("C08-R4", "add_model_weight/warns", len(warns) >= 1, f, g, "a warning is issued when the model weight is ignored")
        for t, s in st:
            ctx.ob("C08-R4", "add_model_weight/guard-before-store", cfg.dominates(g, s) and g.lineno < s.lineno, f, s,
                   "the precedence guard dominates the store of the model weight")
    # truthiness on array valued weights anywhere in the optimisation package
    n_tests = 0
    for fi in repo.functions_in("glotaran/optimization/"):
        flf = None
        for node in lib.nodes(fi, (ast.If, ast.IfExp, ast.While, ast.BoolOp, ast.UnaryOp), nested=True):
            tests = []
            if isinstance(node, (ast.If, ast.IfExp, ast.While)):
                tests = [node.test]
            elif isinstance(node, ast.BoolOp):
                tests = list(node.values)
            elif isinstance(node, ast.UnaryOp) and isinstance(node.op, ast.Not):
                tests = [node.operand]
            for t in tests:
                while isinstance(t, ast.UnaryOp) and isinstance(t.op, ast.Not):
                    t = t.operand
                if isinstance(t, (ast.Compare, ast.BoolOp, ast.Call, ast.Constant)):
                    continue
                txt = norm(t)
                arrayish = "_weight[" in txt or "_data[" in txt or txt in ("weight", "data")
                if txt in ("weight", "data"):
                    if flf is None:
                        flf = lib.flow(fi, repo)
                    try:
                        ds = flf.reaching(txt, lib.stmt_of(node))
                    except KeyError:
                        ds = []
                    arrayish = any(d.value is not None and any(k in norm(d.value) for k in ("get_weight", "get_aligned_weight", "_weight[", "get_data", "get_flattened"))
                                   for d in ds)
                if arrayish:
                    n_tests += 1
                    ctx.ob("C08-R4", f"{fi.short}/no-array-truthiness", False, fi, lib.stmt_of(node),
                           f"`{txt}` is an ndarray (or None); its truth value is ambiguous - test `is not None`")
    ctx.note(f"C08-R4: {n_tests} truthiness tests on array valued weights/data found")
    ctx.ob("C08-R4", "optimization/array-truthiness-scan", True, None, None, "scanned glotaran/optimization for truthiness tests on weight/data arrays",
           construct=f"{n_tests} found")
    # pairing of interval, dimension and axis
    pairs = []
    for t, s in lib.stores(f):
        if isinstance(t, ast.Subscript) and norm(t.value) == "idx" and isinstance(s.value, ast.Call) and norm(s.value.func).endswith("get_axis_slice_from_interval"):
            pairs.append((norm(t.slice), [norm(a) for a in s.value.args], s))
    ctx.sites("C08-R4", "interval -> slice conversions", len(pairs), 2)
    for dim, args, s in pairs:
        kind = "global" if "global" in dim else "model"
        ok = len(args) == 2 and args[0] == f"model_weight.{kind}_interval" and args[1] == f"{kind}_axis"
        ctx.ob("C08-R4", f"add_model_weight/{kind}-interval-on-{kind}-axis", ok, f, s,
               f"the {kind} interval is converted on the {kind} axis and indexes the {kind} dimension")
        g = next((a for a in lib.ancestors(s, f.node) if isinstance(a, ast.If)), None)
        ctx.ob("C08-R4", f"add_model_weight/{kind}-interval-optional", g is not None and norm(g.test) == f"model_weight.{kind}_interval is not None", f, s,
               f"without {kind} interval the whole {kind} axis is weighted")
    # the slice dict is rebuilt for every model weight
    wl = next((n_ for n_ in lib.nodes(f, ast.For) if norm(n_.iter) == "model_weights"), None)
    idx_inits = [d for d in fl.defs_of("idx") if d.kind == "assign"]
    ok_reset = wl is not None and len(idx_inits) >= 1 and all(isinstance(d.value, ast.Dict) and not d.value.keys and lib.is_inside(d.stmt, wl) and d.stmt in wl.body
                                                              for d in idx_inits)
    if ok_reset:
        first_cond = min((s_.lineno for _, _, s_ in pairs), default=10**9)
        ok_reset = all(d.stmt.lineno < first_cond for d in idx_inits)
    ctx.ob("C08-R4", "add_model_weight/slices-reset-per-weight", ok_reset, f, idx_inits[0].stmt if idx_inits else (wl or f.node),
           "the dict of slices is rebuilt for every model weight: a weight that leaves an interval unset must act on the whole axis, "
           "not inherit the slice of the previous weight")
    axes = {d.var: norm(d.value) for v in ("model_axis", "global_axis") for d in fl.defs_of(v) if d.kind == "assign"}
    ctx.ob("C08-R4", "add_model_weight/axes-of-this-dataset", axes.get("model_axis") == f"self._model_axes[{lab}]" and axes.get("global_axis") == f"self._global_axes[{lab}]",
           f, f.node, "the axes are those of the dataset being weighted", construct=str(axes))
    ones = [d for d in fl.defs_of("weight") if d.kind == "assign"]
    ok = any("np.ones((model_axis.size, global_axis.size))" in lib.xnorm(fl, d.value, d.stmt) for d in ones)
    ctx.ob("C08-R4", "add_model_weight/starts-from-ones", ok, f, ones[0].stmt if ones else f.node, "the model weight starts as ones over (model, global)")
    mult = [s for t, s in lib.stores(f) if isinstance(s, ast.AugAssign) and norm(t) == "weight[idx]"]
    ok = len(mult) == 1 and isinstance(mult[0].op, ast.Mult) and norm(mult[0].value) == "model_weight.value"
    ctx.ob("C08-R4", "add_model_weight/multiplies-on-interval", ok, f, mult[0] if mult else f.node, "each model weight multiplies its value onto its interval block")
    sel = [d for d in fl.defs_of("model_weights") if d.kind == "assign"]
    ok = any(isinstance(d.value, ast.ListComp) and norm(d.value.generators[0].iter) == "model.weights" and
             [norm(i) for i in d.value.generators[0].ifs] == [f"{lab} in weight.datasets"] for d in sel)
    ctx.ob("C08-R4", "add_model_weight/weights-of-this-dataset", ok, f, sel[0].stmt if sel else f.node, "only model weights that list this dataset are used")
    init = ctx.fn(DAT, "DataProvider.__init__")
    cfgi = lib.cfg(init)
    ws = [s for t, s in lib.stores(init) if isinstance(t, ast.Subscript) and lib.chain_text(t.value) == "self._weight"]
    mw = [lib.stmt_of(c) for c in lib.method_calls(init, "add_model_weight")]
    ok = len(ws) == 1 and len(mw) == 1 and cfgi.dominates(ws[0], mw[0]) and ws[0].lineno < mw[0].lineno
    ctx.ob("C08-R4", "DataProvider.__init__/dataset-weight-loaded-first", ok, init, mw[0] if mw else init.node,
           "the dataset's own weight is loaded before model weights are considered")


def r5(ctx) -> None:
    repo = ctx.repo
    f = ctx.fn(EST, "_get_area")
    fl = lib.flow(f, repo)
    loop = next((n for n in lib.nodes(f, ast.For) if norm(n.iter) == f.params()[3]), None)
    if loop is None:
        ctx.ob("C08-R5", "_get_area/interval-loop", False, f, f.node, "loop over the intervals not found", construct="def _get_area")
        return
    iv = norm(loop.target)
    raw_uses = [n for n in lib.nodes(loop, ast.Subscript) if norm(n.value) == iv and isinstance(n.slice, ast.Constant)]
    # raw bounds may only appear inside an ordering construct
    bad = []
    for n in raw_uses:
        p = n._parent
        ordering = False
        # (a) arguments of min(...)/max(...) together with the other raw bound, (b) the swap test/statement
        if isinstance(p, ast.Call) and norm(p.func) in ("min", "max", "sorted") and len([a for a in p.args if norm(a).startswith(iv + "[")]) == 2:
            ordering = True
        st = lib.stmt_of(n)
        if isinstance(st, ast.If) and isinstance(st.test, ast.Compare) and all(norm(x).startswith(iv + "[") for x in [st.test.left] + st.test.comparators):
            ordering = True
        if isinstance(st, ast.Assign) and isinstance(st.value, ast.Tuple) and all(norm(x).startswith(iv + "[") for x in st.value.elts):
            ordering = True
        if not ordering:
            bad.append(n)
    whole_ordered = any(isinstance(c, ast.Call) and norm(c.func) in ("min", "max", "sorted") and len(c.args) == 1 and norm(c.args[0]) == iv for c in lib.calls(loop))
    ctx.ob("C08-R5", "_get_area/bounds-ordered-before-use", not bad and (whole_ordered or bool(raw_uses)), f, lib.stmt_of(bad[0]) if bad else loop,
           f"`{iv}[0]` / `{iv}[1]` are the bounds as written by the user; they must be ordered (min/max or swap) before they are "
           "compared with the axis or clamped, otherwise a reversed interval selects nothing",
           construct=lib.short(lib.stmt_of(bad[0]), 90) if bad else f"for {iv} in intervals: lower, upper = min({iv}), max({iv})")
    # an interval may be skipped only when it provably contains no axis point:
    # min(interval) > last axis point, or max(interval) < first axis point (strict)
    ax = f.params()[4]
    last_forms = {f"{ax}[-1]", f"np.max({ax})", f"{ax}.max()", f"max({ax})"}
    first_forms = {f"{ax}[0]", f"np.min({ax})", f"{ax}.min()", f"min({ax})"}

    def bound_kind(e):
        t = lib.xnorm(fl, e, lib.stmt_of(e))
        ds = fl.reaching(e.id, lib.stmt_of(e)) if isinstance(e, ast.Name) else []
        vals = {norm(d.value) + (str(d.path) if d.path else "") for d in ds if d.value is not None}
        for d in ds:
            if d.kind == "unpack" and isinstance(d.value, ast.Tuple) and len(d.path) == 1 and isinstance(d.path[0], int):
                vals.add(norm(d.value.elts[d.path[0]]))
        vals.add(t)
        if vals & {f"min({iv})", f"np.min({iv})"}:
            return "lower"
        if vals & {f"max({iv})", f"np.max({iv})"}:
            return "upper"
        return None

    skips = [n for n in lib.nodes(loop, ast.If) if n.body and isinstance(n.body[-1], ast.Continue) and not n.orelse and lib.field_of(n, loop) == "body"]
    for g in skips:
        atoms = g.test.values if isinstance(g.test, ast.BoolOp) and isinstance(g.test.op, ast.Or) else [g.test]
        bad_atoms = []
        for a in atoms:
            good = False
            if isinstance(a, ast.Compare) and len(a.ops) == 1 and isinstance(a.ops[0], (ast.Lt, ast.Gt)):
                small, big = (a.left, a.comparators[0]) if isinstance(a.ops[0], ast.Lt) else (a.comparators[0], a.left)
                if norm(small) in last_forms and bound_kind(big) == "lower":
                    good = True
                if norm(big) in first_forms and bound_kind(small) == "upper":
                    good = True
            if not good:
                bad_atoms.append(norm(a))
        ctx.ob("C08-R5", "_get_area/skip-only-empty-intervals", not bad_atoms, f, g,
               "an interval is skipped only if it lies wholly beyond the axis (min(interval) > last point or max(interval) < first point); "
               "any other test drops intervals that contain axis points", [f"unjustified skip condition: {x}" for x in bad_atoms] or None,
               construct=lib.short(g.test, 110))
    ctx.note(f"C08-R5: {len(skips)} skip guard(s) in _get_area examined") if hasattr(ctx, "note") else None
    cs = [c for c in lib.calls(loop) if norm(c.func).endswith("get_axis_slice_from_interval")]
    ctx.sites("C08-R5", "slice conversion in _get_area", len(cs), 1)
    for c in cs:
        ok = len(c.args) == 2 and norm(c.args[1]) == f.params()[4]
        ctx.ob("C08-R5", "_get_area/slice-on-global-axis", ok, f, lib.stmt_of(c), "the interval is converted on the global axis it is given in")
        t = fl.term(c.args[0], lib.stmt_of(c))
        a = t.single_atom()
        okb = bool(a and a[0] == "seq" and len(a[2]) == 2 and "max" in repr(a[2][0]) and "min" in repr(a[2][1]))
        ctx.ob("C08-R5", "_get_area/clamped-to-axis", okb, f, lib.stmt_of(c),
               "the interval handed over is (max(lower, axis min), min(upper, axis max))", [f"interval term: {t!r}"])
    rng = [n for n in lib.nodes(loop, ast.For) if isinstance(n.iter, ast.Call) and norm(n.iter.func) == "range"]
    ok = len(rng) == 1 and [norm(a) for a in rng[0].iter.args] == ["start_idx", "end_idx"] and any(
        d.kind == "unpack" and norm(d.value) == "(interval_slice.start, interval_slice.stop)" for d in fl.defs_of("start_idx"))
    ctx.ob("C08-R5", "_get_area/reads-slice-positions", ok, f, rng[0] if rng else loop, "the area is read at exactly the positions start..stop-1 of that slice")
    if rng:
        pos = norm(rng[0].target)
        reads = [c for c in lib.method_calls(rng[0], "append")]
        ok = len(reads) == 1 and norm(reads[0].args[0]).replace(" ", "") == f"clps[{pos}][index_clp_labels.index(clp_label)]"
        ctx.ob("C08-R5", "_get_area/clp-by-label-at-position", ok, f, reads[0] if reads else rng[0],
               "the clp is looked up by its label in the label list of the same position")
        lab = [d for d in fl.defs_of("index_clp_labels")]
        ok = any(d.value is not None and f"clp_labels[{pos}]" in norm(d.value) for d in lab)
        ctx.ob("C08-R5", "_get_area/labels-of-same-position", ok, f, lab[0].stmt if lab else rng[0], "per-index label lists are taken at the same position")


def r6(ctx) -> None:
    """Interval items act through the shared preparation pipeline and layout (shared with C02-R2 and C03-R5)."""
    from glint.rules import c02
    from glint.rules import c03

    c02.r2(ctx, rule="C08-R6")
    c03.r5(ctx, rule="C08-R6", full_model_only=True)


def check(ctx) -> None:
    for g in check.groups:
        g(ctx)


check.groups = [r1_r2, r3, r4, r5, r6]
