"""C02 - the minimised objective is the documented separable least-squares problem."""

from __future__ import annotations

import ast

from glint import lib
from glint.index import norm
from glint.terms import Poly

OPT = "glotaran/optimization/optimizer.py"
GRP = "glotaran/optimization/optimization_group.py"
EST = "glotaran/optimization/estimation_provider.py"
MAT = "glotaran/optimization/matrix_provider.py"
DAT = "glotaran/optimization/data_provider.py"
DSM = "glotaran/model/dataset_model.py"

DOC = {
    "explanation": (
        "Static decision of: complete, exactly-once iteration over groups, datasets and "
        "aligned indices when the penalty vector is assembled; the order and single "
        "application of the preparation stages (megacomplex scale, dataset scale, relations, "
        "constraints, weight) on every def-use path from calculate_matrix to "
        "calculate_residual, for the unlinked, linked (including single-dataset indices) and "
        "full-model paths; agreement of every per-index accessor with the loop position; "
        "the equal-area penalty term against its documented formula."
    ),
    "rules": {
        "C02-R9": "evaluation-level accumulators are reset once per evaluation, never once per dataset: the penalty vector holds the equal-area penalties of all datasets (shared with C10-R5)",
        "C02-R8": "linked groups: the aligned axis is built from the aligned points of every dataset (refusal before merge, merge of the aligned - not the original - points) and data, indices, groups, weights, matrices and scales are stacked in one order (shared with C09-R3 and C09-R4)",
        "C02-R7": "constructors of the data/matrix/estimation providers read no parameter-valued attribute (dataset scale, megacomplex parameters, group parameters): such values change on every evaluation and are read where they are used",
        "C02-R6": "the data provider works on its own copy of the data and weights: in-place weighting never reaches the caller's arrays, so a dataset used twice is weighted once each time (shared with C10-R3)",
        "C02-R1": "calculate_penalty evaluates and concatenates every optimisation group once; get_full_penalty ranges over all dataset models / all aligned indices (no slice, no filter besides the global-model dispatch) and appends the clp penalties once, after the residuals; estimate() visits every dataset / index",
        "C02-R2": "stages in order, each once: megacomplex scale (in calculate_dataset_matrix) -> dataset scale (create_scaled_matrix / align_matrices on every return path) -> relations -> constraints -> weight; data is multiplied by the weight exactly once (DataProvider.__init__)",
        "C02-R3": "inside every per-index loop each per-index accessor is called with exactly the loop position and each interval test receives the axis value",
        "C02-R4": "full models: rows of kron(global, model) are flat(G,M) like the flattened data and the flattened weight ((M,G).T.flatten()); the Kronecker matrix is paired with the flattened data of the same dataset",
        "C02-R5": "equal-area penalty = |sum(source area) - parameter * sum(target area)| * weight",
    },
    "declined": ["entry-for-entry numeric equality with an independent evaluation (values)", "the value dependent outcome of DatasetGroup.is_linkable"],
    "assumptions": ["numpy.concatenate keeps the order of its inputs"],
}


def _unfiltered_comp(comp, iter_text: str) -> bool:
    g = comp.generators[0]
    return len(comp.generators) == 1 and not g.ifs and norm(g.iter) == iter_text


def r1(ctx) -> None:
    repo = ctx.repo
    cp = ctx.fn(OPT, "Optimizer.calculate_penalty")
    loops = [n for n in lib.nodes(cp, ast.For) if lib.method_calls(n, "calculate")]
    ok = len(loops) == 1 and norm(loops[0].iter) == "self._optimization_groups" and not any(
        isinstance(x, (ast.Break, ast.Continue)) for x in ast.walk(loops[0]))
    ctx.ob("C02-R1", "calculate_penalty/evaluates-all-groups", ok, cp, loops[0] if loops else cp.node,
           "every optimisation group is evaluated (no slice, break or continue)", construct=lib.short(loops[0], 90) if loops else "def")
    if loops:
        c = lib.method_calls(loops[0], "calculate")[0]
        ctx.ob("C02-R1", "calculate_penalty/evaluates-with-current-parameters", len(c.args) == 1 and norm(c.args[0]) == "self._parameters", cp, c,
               "groups are evaluated at the optimiser's current parameters")
    comps = [n for n in lib.nodes(cp, ast.ListComp) if "get_full_penalty" in norm(n.elt)]
    ok = len(comps) == 1 and _unfiltered_comp(comps[0], "self._optimization_groups") and norm(comps[0].elt) == f"{norm(comps[0].generators[0].target)}.get_full_penalty()"
    ctx.ob("C02-R1", "calculate_penalty/collects-all-groups-once", ok, cp, comps[0] if comps else cp.node,
           "the penalty of every group is collected exactly once", construct=lib.short(comps[0], 100) if comps else "def")
    rets = lib.nodes(cp, ast.Return)
    okr = False
    for r in rets:
        t = norm(r.value).replace(" ", "")
        okr = t in ("np.concatenate(penalties)iflen(penalties)!=1elsepenalties[0]", "np.concatenate(penalties)")
    ctx.ob("C02-R1", "calculate_penalty/concatenates", okr, cp, rets[0] if rets else cp.node, "the group penalties are concatenated in group order")
    init = ctx.fn(OPT, "Optimizer.__init__")
    comps = [n for n in lib.nodes(init, ast.ListComp) if "OptimizationGroup(" in norm(n.elt)]
    ok = len(comps) == 1 and _unfiltered_comp(comps[0], "scheme.model.get_dataset_groups().values()")
    ctx.ob("C02-R1", "Optimizer.__init__/all-dataset-groups", ok, init, comps[0] if comps else init.node,
           "one optimisation group per dataset group of the model", construct=lib.short(comps[0], 110) if comps else "def")
    obj = ctx.fn(OPT, "Optimizer.objective_function")
    rets = lib.nodes(obj, ast.Return)
    ctx.ob("C02-R1", "objective_function/returns-penalty", len(rets) == 1 and norm(rets[0].value) == "self.calculate_penalty()", obj,
           rets[0] if rets else obj.node, "the objective is the penalty vector itself (no post-processing)")
    # unlinked
    gu = ctx.fn(EST, "EstimationProviderUnlinked.get_full_penalty")
    comps = [n for n in lib.nodes(gu, ast.ListComp)]
    ok = False
    for comp in comps:
        if _unfiltered_comp(comp, "self.group.dataset_models.items()") and isinstance(comp.elt, ast.IfExp):
            e = comp.elt
            lab = norm(comp.generators[0].target.elts[0]) if isinstance(comp.generators[0].target, ast.Tuple) else "?"
            ok = "has_dataset_model_global_model" in norm(e.test) and norm(e.body) == f"self._residuals[{lab}]" \
                and norm(e.orelse) == f"np.concatenate(self._residuals[{lab}])"
    ctx.ob("C02-R1", "EstimationProviderUnlinked.get_full_penalty/all-datasets", ok, gu, comps[0] if comps else gu.node,
           "every dataset model of the group contributes its whole residual once (full-model vector or the concatenated per-index residuals)",
           construct=lib.short(comps[0], 140) if comps else "def")
    pens = [n for n in lib.nodes(gu, ast.If) if "_clp_penalty" in norm(n.test)]
    okp = len(pens) == 1 and norm(pens[0].body[0]).replace(" ", "") == "full_penalty=np.concatenate([full_penalty,self._clp_penalty])" and len(pens[0].body) == 1
    ctx.ob("C02-R1", "EstimationProviderUnlinked.get_full_penalty/penalties-after-residuals", okp, gu, pens[0] if pens else gu.node,
           "the clp penalties are appended once, after all residuals", construct=lib.short(pens[0], 120) if pens else "def")
    eu = ctx.fn(EST, "EstimationProviderUnlinked.estimate")
    loops = lib.nodes(eu, ast.For)
    ok = len(loops) == 1 and norm(loops[0].iter) == "self.group.dataset_models.values()" and not any(isinstance(x, (ast.Break, ast.Continue)) for x in ast.walk(loops[0]))
    body_calls = {c.func.attr for c in lib.calls(loops[0]) if isinstance(c.func, ast.Attribute)} if loops else set()
    ctx.ob("C02-R1", "EstimationProviderUnlinked.estimate/all-datasets", ok and {"calculate_full_model_estimation", "calculate_estimation"} <= body_calls, eu,
           loops[0] if loops else eu.node, "every dataset model is estimated, dispatched only on having a global model")
    ce = ctx.fn(EST, "EstimationProviderUnlinked.calculate_estimation")
    loops = [n for n in lib.nodes(ce, ast.For) if lib.method_calls(n, "calculate_residual")]
    ok = len(loops) == 1 and norm(loops[0].iter) == "enumerate(global_axis)" and not any(isinstance(x, (ast.Break, ast.Continue)) for x in ast.walk(loops[0]))
    ctx.ob("C02-R1", "calculate_estimation/all-indices", ok, ce, loops[0] if loops else ce.node, "every global index of the dataset is estimated once")
    apps = [c for c in lib.method_calls(ce, "append") if norm(c.func.value) == "self._residuals[label]"]
    ctx.ob("C02-R1", "calculate_estimation/one-residual-per-index", len(apps) == 1 and loops and lib.is_inside(apps[0], loops[0]), ce,
           apps[0] if apps else ce.node, "one residual vector is recorded per global index")
    # linked
    gl = ctx.fn(EST, "EstimationProviderLinked.get_full_penalty")
    rets = lib.nodes(gl, ast.Return)
    ok = len(rets) == 1 and norm(rets[0].value).replace(" ", "") in (
        "np.concatenate((np.concatenate(self._residuals),self._clp_penalty))", "np.concatenate([np.concatenate(self._residuals),self._clp_penalty])")
    ctx.ob("C02-R1", "EstimationProviderLinked.get_full_penalty/all-indices-then-penalties", ok, gl, rets[0] if rets else gl.node,
           "residuals of all aligned indices, then the clp penalties, once each")
    el = ctx.fn(EST, "EstimationProviderLinked.estimate")
    loops = [n for n in lib.nodes(el, ast.For) if lib.method_calls(n, "calculate_residual")]
    ok = len(loops) == 1 and norm(loops[0].iter) == "enumerate(self._data_provider.aligned_global_axis)" and not any(
        isinstance(x, (ast.Break, ast.Continue)) for x in ast.walk(loops[0]))
    ctx.ob("C02-R1", "EstimationProviderLinked.estimate/all-aligned-indices", ok, el, loops[0] if loops else el.node,
           "every aligned global index is estimated once")
    # group evaluation order: parameters -> matrices -> estimation
    gc = ctx.fn(GRP, "OptimizationGroup.calculate")
    seq = [norm(c.func) for c in lib.calls(gc)]
    ctx.ob("C02-R1", "OptimizationGroup.calculate/sequence", seq == ["self._dataset_group.set_parameters", "self._matrix_provider.calculate", "self._estimation_provider.estimate"],
           gc, gc.node, "an evaluation fills the models with the parameters, computes the matrices, then estimates", construct=" -> ".join(seq))
    for rel, name, want in ((MAT, "MatrixProviderUnlinked.calculate", ["self.calculate_dataset_matrices", "self.calculate_global_matrices", "self.calculate_prepared_matrices", "self.calculate_full_matrices"]),
                            (MAT, "MatrixProviderLinked.calculate", ["self.calculate_dataset_matrices", "self.calculate_aligned_matrices"])):
        f = ctx.fn(rel, name)
        seq = [norm(c.func) for c in lib.calls(f)]
        ctx.ob("C02-R1", f"{name}/sequence", seq == want, f, f.node, "dataset matrices are computed before the prepared / aligned / full matrices derived from them",
               construct=" -> ".join(seq))
    cdm = ctx.fn(MAT, "MatrixProvider.calculate_dataset_matrices")
    loops = lib.nodes(cdm, ast.For)
    ok = len(loops) == 1 and norm(loops[0].iter) == "self.group.dataset_models.items()" and not any(isinstance(x, (ast.Break, ast.Continue)) for x in ast.walk(loops[0]))
    ctx.ob("C02-R1", "calculate_dataset_matrices/all-datasets", ok, cdm, loops[0] if loops else cdm.node, "a matrix is computed for every dataset model")


def r2(ctx, rule: str = "C02-R2") -> None:
    repo = ctx.repo
    # megacomplex scale
    cdm = ctx.fn(MAT, "MatrixProvider.calculate_dataset_matrix")
    cfg = lib.cfg(cdm)
    fl = lib.flow(cdm, repo)
    scs = [s for t, s in lib.stores(cdm) if isinstance(s, ast.AugAssign) and norm(t) == "this_matrix" and isinstance(s.op, ast.Mult)]
    ok = len(scs) == 1 and norm(scs[0].value) == "scale"
    g = None
    if scs:
        for a in lib.ancestors(scs[0], cdm.node):
            if isinstance(a, ast.If):
                g = a
                break
    ctx.ob(rule, "calculate_dataset_matrix/megacomplex-scale", ok and g is not None and norm(g.test) == "scale is not None", cdm,
           scs[0] if scs else cdm.node, "each megacomplex matrix is multiplied by its megacomplex scale exactly once when a scale is given",
           construct=lib.short(g, 70) if g is not None else "def")
    combs = [c for c in lib.calls(cdm) if norm(c.func).endswith("combine_megacomplex_matrices")]
    uses = [s for t, s in lib.stores(cdm) if isinstance(s, ast.Assign) and norm(s.value) == "this_matrix"]
    for u in [lib.stmt_of(c) for c in combs] + uses:
        if scs:
            ctx.ob(rule, f"calculate_dataset_matrix/scale-before-combine:{lib.short(u, 30)}", cfg.dominates(g, u) and g.lineno < u.lineno, cdm, u,
                   "the megacomplex scale is applied before the matrix is combined with the others")
    loop = next(iter(lib.nodes(cdm, ast.For)), None)
    ok = loop is not None and isinstance(loop.target, ast.Tuple) and [norm(x) for x in loop.target.elts] == ["scale", "megacomplex"] and norm(loop.iter) == "megacomplex_iterator"
    ctx.ob(rule, "calculate_dataset_matrix/scale-of-same-megacomplex", ok, cdm, loop or cdm.node,
           "scale and megacomplex come as pairs from the dataset model iterator")
    for name, coll, scl in (("iterate_dataset_model_megacomplexes", "megacomplex", "megacomplex_scale"),
                            ("iterate_dataset_model_global_megacomplexes", "global_megacomplex", "global_megacomplex_scale")):
        f = ctx.fn(DSM, name)
        lp = next(iter(lib.nodes(f, ast.For)), None)
        okp = lp is not None and norm(lp.iter) == f"enumerate(dataset_model.{coll})" and f"dataset_model.{scl}[i]" in norm(f.node) and "yield (scale, megacomplex)" in norm(f.node)
        ctx.ob(rule, f"{name}/scale-i-with-megacomplex-i", okp, f, lp or f.node, f"megacomplex i is paired with {scl}[i]")
    # dataset scale, relations, constraints, weight (unlinked)
    cp = ctx.fn(MAT, "MatrixProviderUnlinked.calculate_prepared_matrices")
    flp = lib.flow(cp, repo)
    reds = lib.method_calls(cp, "reduce_matrix")
    ctx.sites(rule, "reduce_matrix call (unlinked)", len(reds), 1)
    for c in reds:
        a0 = c.args[0] if c.args else None
        ok = isinstance(a0, ast.Call) and isinstance(a0.func, ast.Attribute) and a0.func.attr == "create_scaled_matrix" \
            and norm(a0.func.value) == "self.get_matrix_container(label)" and len(a0.args) == 1
        scale_t = flp.term(a0.args[0], lib.stmt_of(c)) if ok else None
        want = None
        if ok:
            a = scale_t.single_atom()
            # float(dataset_model.scale or 1) normalises to bool<Or, (dataset_model.scale, 1)>
            want = bool(a and a[0] == "bool" and a[1] == "Or" and "scale" in repr(a[2][0]) and a[2][1] == Poly.const(1).key())
        ctx.ob(rule, "calculate_prepared_matrices/dataset-scale-then-reduce", ok and bool(want), cp, lib.stmt_of(c),
               "reduce_matrix receives the dataset matrix scaled once by the dataset scale (1 if none)",
               [f"scale term: {scale_t!r}"] if scale_t is not None else [])
        ctx.ob(rule, "calculate_prepared_matrices/reduce-on-own-axis", len(c.args) == 2 and norm(c.args[1]) == "self._data_provider.get_global_axis(label)", cp,
               lib.stmt_of(c), "constraints and relations are evaluated on the dataset's own global axis")
    ws = lib.method_calls(cp, "create_weighted_matrix")
    ctx.sites(rule, "weighting (unlinked)", len(ws), 1)
    for w in ws:
        st = lib.stmt_of(w)
        ok = bool(reds) and lib.cfg(cp).dominates(lib.stmt_of(reds[0]), st) and norm(w.func.value) == "matrix"
        comp = next((a for a in lib.ancestors(w, cp.node) if isinstance(a, ast.ListComp)), None)
        src_ok = comp is not None and norm(comp.generators[0].iter) == "enumerate(self._prepared_matrix_container[label])"
        gd = next((a for a in lib.ancestors(w, cp.node) if isinstance(a, ast.If)), None)
        ctx.ob(rule, "calculate_prepared_matrices/weight-after-reduce", ok and src_ok and gd is not None and norm(gd.test) == "weight is not None", cp, st,
               "the weight is applied last, to the reduced per-index matrices, when the dataset has a weight")
    rm = ctx.fn(MAT, "MatrixProvider.reduce_matrix")
    seq = [(c.func.attr, lib.stmt_of(c)) for c in lib.calls(rm) if isinstance(c.func, ast.Attribute) and c.func.attr in ("apply_relations", "apply_constraints")]
    ok = [x[0] for x in seq] == ["apply_relations", "apply_constraints"] and lib.cfg(rm).dominates(seq[0][1], seq[1][1]) \
        and all(isinstance(s, ast.Assign) and norm(s.targets[0]) == "result" and norm(s.value.args[0]) == "result" for _, s in seq)
    ctx.ob(rule, "reduce_matrix/relations-then-constraints", ok, rm, seq[0][1] if seq else rm.node,
           "relations are applied first, then constraints, each once, on the same list",
           construct=" ; ".join(lib.short(s, 60) for _, s in seq))
    rets = lib.nodes(rm, ast.Return)
    ctx.ob(rule, "reduce_matrix/returns-reduced", len(rets) == 1 and norm(rets[0].value) == "result", rm, rets[0] if rets else rm.node, "the reduced list is returned")
    # linked
    am = ctx.fn(MAT, "MatrixProviderLinked.align_matrices")
    fla = lib.flow(am, repo)
    rets = lib.nodes(am, ast.Return)
    ctx.sites(rule, "returns of align_matrices", len(rets), 2)
    for r in rets:
        v = r.value
        t = norm(v).replace(" ", "")
        if isinstance(v, ast.Call) and isinstance(v.func, ast.Attribute) and v.func.attr == "create_scaled_matrix":
            ok = t == "matrices[0].create_scaled_matrix(scales[0])"
            ctx.ob(rule, "align_matrices/single-matrix-scaled", ok, am, r, "a single matrix is returned scaled by its dataset scale")
        elif isinstance(v, ast.Call) and norm(v.func) == "MatrixContainer":
            sts = [s for tt, s in lib.stores(am) if isinstance(tt, ast.Subscript) and norm(tt.value) == "full_matrix"]
            ok = len(sts) == 1 and norm(sts[0].value).replace(" ", "") in ("m.matrix*scales[i]", "scales[i]*m.matrix")
            lp = next((a for a in lib.ancestors(sts[0], am.node) if isinstance(a, ast.For)), None) if sts else None
            ok = ok and lp is not None and norm(lp.iter) == "enumerate(matrices)" and [norm(x) for x in lp.target.elts] == ["i", "m"]
            ctx.ob(rule, "align_matrices/stacked-matrices-scaled", ok, am, sts[0] if sts else r,
                   "block i of the stacked matrix is matrix i times scale i")
        else:
            ctx.ob(rule, "align_matrices/unscaled-return", False, am, r,
                   "every return path of align_matrices must apply the dataset scale (an aligned index holding a single dataset "
                   "is fitted with an unscaled matrix otherwise)")
    cam = ctx.fn(MAT, "MatrixProviderLinked.calculate_aligned_matrices")
    cfgc = lib.cfg(cam)
    seq = {}
    for c in lib.calls(cam):
        if isinstance(c.func, ast.Attribute) and c.func.attr in ("align_matrices", "reduce_matrix", "create_weighted_matrix"):
            seq[c.func.attr] = c
    ok = all(k in seq for k in ("align_matrices", "reduce_matrix", "create_weighted_matrix")) and \
        cfgc.dominates(lib.stmt_of(seq["align_matrices"]), lib.stmt_of(seq["reduce_matrix"])) and \
        cfgc.dominates(lib.stmt_of(seq["reduce_matrix"]), lib.stmt_of(seq["create_weighted_matrix"]))
    ctx.ob(rule, "calculate_aligned_matrices/scale-reduce-weight", ok, cam, lib.stmt_of(seq["reduce_matrix"]) if "reduce_matrix" in seq else cam.node,
           "linked path: stack and scale (align_matrices) -> relations/constraints (reduce_matrix) -> weight")
    if ok:
        flc = lib.flow(cam, repo)
        c = seq["reduce_matrix"]
        ctx.ob(rule, "calculate_aligned_matrices/reduce-the-stacked-matrix", norm(c.args[0]) == "group_matrix" and any(
            d.kind == "assign" and d.value is seq["align_matrices"] for d in flc.reaching("group_matrix", lib.stmt_of(c))), cam, lib.stmt_of(c),
            "reduce_matrix receives the scaled stacked matrix")
        c2 = seq["align_matrices"]
        # matrices and scales of one aligned index are listed over the same datasets in the same order
        loop = next((a for a in lib.ancestors(c2, cam.node) if isinstance(a, ast.For)), None)
        sc_defs = [d for d in flc.reaching("matrix_scales", lib.stmt_of(c2)) if d.kind == "assign"]
        ok_sc = loop is not None and len(sc_defs) == 1 and lib.is_inside(sc_defs[0].stmt, loop) and isinstance(sc_defs[0].value, ast.ListComp) \
            and norm(sc_defs[0].value.generators[0].iter) == "self._data_provider.group_definitions[group_label]" and not sc_defs[0].value.generators[0].ifs
        zips = [z for z in lib.calls(loop) if norm(z.func) == "zip"] if loop is not None else []
        ok_mc = any(z.args and norm(z.args[0]) == "self._data_provider.group_definitions[group_label]" for z in zips)
        ctx.ob(rule, "calculate_aligned_matrices/scales-of-the-stacked-datasets", ok_sc and ok_mc, cam, sc_defs[0].stmt if sc_defs else cam.node,
               "for every aligned index the scale list is built over exactly the datasets whose matrices are stacked there "
               "(same group definition, same order); a list built once for the whole group pairs scales with the wrong datasets")
        ctx.ob(rule, "calculate_aligned_matrices/scales-passed", len(c2.args) == 2 and norm(c2.args[0]) == "matrix_containers" and norm(c2.args[1]) == "matrix_scales",
               cam, lib.stmt_of(c2), "align_matrices receives the matrices and their dataset scales")
        w = seq["create_weighted_matrix"]
        gd = next((a for a in lib.ancestors(w, cam.node) if isinstance(a, ast.If)), None)
        ctx.ob(rule, "calculate_aligned_matrices/weight-last", norm(w.func.value) == "group_matrix_single" and gd is not None and norm(gd.test) == "weight is not None"
               and norm(lib.stmt_of(w).targets[0]) == "group_matrix_single", cam, lib.stmt_of(w), "the aligned weight is applied to the reduced matrix of that index")
        st = [s for t, s in lib.stores(cam) if isinstance(t, ast.Subscript) and norm(t.value) == "self._aligned_matrices"]
        ctx.ob(rule, "calculate_aligned_matrices/stores-prepared", len(st) == 1 and norm(st[0].value) == "group_matrix_single" and cfgc.dominates(gd, st[0]), cam,
               st[0] if st else cam.node, "the stored aligned matrix is the scaled, reduced and weighted one")
    # data weighted exactly once
    init = ctx.fn(DAT, "DataProvider.__init__")
    wd = [s for t, s in lib.stores(init) if isinstance(s, ast.AugAssign) and isinstance(s.op, ast.Mult) and norm(t) == "self._data[label]"]
    gd = next((a for a in lib.ancestors(wd[0], init.node) if isinstance(a, ast.If)), None) if wd else None
    ok = len(wd) == 1 and norm(wd[0].value) == "self._weight[label]" and gd is not None and norm(gd.test) == "self._weight[label] is not None"
    ctx.ob(rule, "DataProvider.__init__/data-weighted-once", ok, init, wd[0] if wd else init.node,
           "the data is multiplied by the weight exactly once, when there is a weight")
    if wd:
        mw = [c for c in lib.method_calls(init, "add_model_weight")]
        ctx.ob(rule, "DataProvider.__init__/model-weight-before-use", bool(mw) and lib.cfg(init).dominates(lib.stmt_of(mw[0]), wd[0]), init,
               lib.stmt_of(mw[0]) if mw else init.node, "model weights are resolved before the data is weighted")
        fl_i = lib.flow(init, repo)
        fd = [s for t, s in lib.stores(init) if isinstance(t, ast.Subscript) and lib.chain_text(t.value) == "self._flattened_data"]
        ctx.ob(rule, "DataProvider.__init__/flattened-data-is-weighted", bool(fd) and lib.cfg(init).dominates(gd, fd[0]), init, fd[0] if fd else init.node,
               "the flattened (full-model) data is derived from the weighted data")
        _ = fl_i
    n_other = 0
    for fi in repo.functions_in("glotaran/optimization/"):
        if fi.qualname == init.qualname:
            continue
        for t, s in lib.stores(fi):
            if isinstance(s, ast.AugAssign) and ("_data" in norm(t) or norm(t) == "data") and isinstance(s.op, (ast.Mult, ast.Div)):
                n_other += 1
                ctx.ob(rule, f"{fi.short}/data-weighted-again", False, fi, s, "data is scaled in place a second time")
    ctx.note(f"C02-R2: {n_other} further in-place scalings of data found")
    ce = ctx.fn(EST, "EstimationProviderUnlinked.calculate_estimation")
    fle = lib.flow(ce, repo)
    ds = [d for d in fle.defs_of("data") if d.kind == "assign"]
    ctx.ob(rule, "calculate_estimation/fits-weighted-data", len(ds) == 1 and norm(ds[0].value) == "self._data_provider.get_data(label)", ce,
           ds[0].stmt if ds else ce.node, "the per-index fit uses the provider's (already weighted) data unchanged")
    cs = lib.method_calls(ce, "calculate_residual")
    ctx.sites(rule, "sites iterated at rules/c02.py:300 (cs)", len(cs), 1)
    for c in cs:
        ctx.ob(rule, "calculate_estimation/fits-prepared-matrix", norm(c.args[0]) == "matrix_container.matrix" and any(
            d.kind == "assign" and isinstance(d.value, ast.Call) and d.value.func.attr == "get_prepared_matrix_container"
            for d in fle.reaching("matrix_container", lib.stmt_of(c))), ce, lib.stmt_of(c),
            "the per-index fit uses the prepared (scaled, reduced, weighted) matrix")
    el = ctx.fn(EST, "EstimationProviderLinked.estimate")
    fll = lib.flow(el, repo)
    for c in lib.method_calls(el, "calculate_residual"):
        okm = norm(c.args[0]) == "matrix_container.matrix" and any(
            d.kind == "assign" and isinstance(d.value, ast.Call) and d.value.func.attr == "get_aligned_matrix_container" for d in fll.reaching("matrix_container", lib.stmt_of(c)))
        okd = norm(c.args[1]) == "data" and any(
            d.kind == "assign" and isinstance(d.value, ast.Call) and d.value.func.attr == "get_aligned_data" for d in fll.reaching("data", lib.stmt_of(c)))
        ctx.ob(rule, "EstimationProviderLinked.estimate/fits-aligned-pair", okm and okd, el, lib.stmt_of(c),
               "the linked fit pairs the aligned (prepared) matrix with the aligned (weighted) data")


PER_INDEX_CALLS = {
    "get_prepared_matrix_container": 1, "get_aligned_matrix_container": 0, "get_aligned_data": 0, "get_aligned_group_label": 0,
    "get_aligned_dataset_indices": 0, "get_aligned_weight": 0,
}
PER_INDEX_SUBSCRIPTS = {
    "clp_labels", "self._clps", "self._residuals", "self._matrix_provider.aligned_full_clp_labels", "self._aligned_full_clp_labels",
    "self._aligned_matrices", "self._data_provider.aligned_global_axis", "matrices", "weight", "data", "matrix.matrix", "global_matrix",
}
VALUE_CALLS = {"retrieve_clps": 3, "does_interval_item_apply": 1, "applies": 0}


def r3(ctx) -> None:
    repo = ctx.repo
    lib.check_no_loop_escape(ctx, "C02-R3", ("glotaran/optimization/",), 10)
    targets = [
        (EST, "EstimationProviderUnlinked.calculate_estimation"), (EST, "EstimationProviderLinked.estimate"),
        (MAT, "MatrixProviderLinked.calculate_aligned_matrices"), (MAT, "MatrixProvider.apply_constraints"),
        (MAT, "MatrixProvider.apply_relations"), (MAT, "MatrixProviderUnlinked.calculate_prepared_matrices"),
        (MAT, "MatrixProviderUnlinked.calculate_full_matrices"), (MAT, "MatrixProvider.reduce_matrix"),
    ]
    n = 0
    for rel, name in targets:
        fi = ctx.fn(rel, name)
        loops = []
        for node in lib.nodes(fi, (ast.For, ast.ListComp), nested=True):
            gens = [(node.target, node.iter, node)] if isinstance(node, ast.For) else [(g.target, g.iter, node) for g in node.generators]
            for tgt, it, holder in gens:
                pos = val = None
                if isinstance(it, ast.Call) and norm(it.func) == "enumerate" and isinstance(tgt, ast.Tuple) and len(tgt.elts) == 2:
                    pos = norm(tgt.elts[0])
                    val = norm(tgt.elts[1]) if isinstance(tgt.elts[1], ast.Name) else None
                elif isinstance(it, ast.Call) and norm(it.func) == "range" and isinstance(tgt, ast.Name):
                    pos = tgt.id
                if pos is not None:
                    loops.append((pos, val, holder, it))
        for pos, val, holder, it in loops:
            is_axis_loop = any(k in norm(it) for k in ("global_axis", "aligned_global_axis", "_prepared_matrix_container", "matrix.shape[0]"))
            if not is_axis_loop:
                continue
            body = holder
            for c in lib.calls(body, nested=True):
                nm = c.func.attr if isinstance(c.func, ast.Attribute) else (c.func.id if isinstance(c.func, ast.Name) else "")
                if nm in PER_INDEX_CALLS and len(c.args) > PER_INDEX_CALLS[nm]:
                    a = c.args[PER_INDEX_CALLS[nm]]
                    n += 1
                    ctx.ob("C02-R3", f"{fi.short}/{nm}", isinstance(a, ast.Name) and a.id == pos, fi, lib.stmt_of(c),
                           f"inside the loop over position `{pos}` the per-index accessor `{nm}` must be called with `{pos}` itself "
                           f"(found `{norm(a)}`)")
                if nm in VALUE_CALLS and val is not None and len(c.args) > VALUE_CALLS[nm]:
                    a = c.args[VALUE_CALLS[nm]]
                    if isinstance(a, ast.Name) and a.id in (pos, val):
                        n += 1
                        ctx.ob("C02-R3", f"{fi.short}/{nm}-gets-axis-value", a.id == val, fi, lib.stmt_of(c),
                               f"`{nm}` decides on the global axis *value* (`{val}`), not on the position `{pos}`")
            for sub in lib.nodes(body, ast.Subscript, nested=True):
                base = norm(sub.value)
                if base not in PER_INDEX_SUBSCRIPTS:
                    continue
                idx = sub.slice.elts if isinstance(sub.slice, ast.Tuple) else [sub.slice]
                uses_pos = [i for i in idx if pos in lib.names_in(i)]
                consts = [i for i in idx if isinstance(i, ast.Constant) and isinstance(i.value, int)]
                if not uses_pos and not consts:
                    continue
                if consts and not uses_pos and base not in ("matrices", "self._clps", "self._residuals", "data", "weight"):
                    continue
                n += 1
                ok = bool(uses_pos) and all(isinstance(i, ast.Name) and i.id == pos for i in uses_pos) and not consts
                ctx.ob("C02-R3", f"{fi.short}/{base}[{pos}]", ok, fi, lib.stmt_of(sub),
                       f"per-index container `{base}` must be subscripted with the loop position `{pos}` itself (found `{norm(sub)}`)")
    ctx.sites("C02-R3", "per-index accesses", n, 14)


def r5(ctx) -> None:
    repo = ctx.repo
    cp = ctx.fn(EST, "EstimationProvider.calculate_clp_penalties")
    fl = lib.flow(cp, repo)
    apps = [c for c in lib.method_calls(cp, "append") if norm(c.func.value) == "penalties"]
    ctx.sites("C02-R5", "penalty append", len(apps), 1)
    src = fl.defs_of("source_area")
    tgt = fl.defs_of("target_area")

    def area_ok(ds, role):
        for d in ds:
            v = d.value
            if isinstance(v, ast.Call) and norm(v.func) == "_get_area" and len(v.args) == 5:
                return norm(v.args[0]) == f"penalty.{role}" and norm(v.args[3]) == f"penalty.{role}_intervals" and norm(v.args[1]) == "clp_labels" \
                    and norm(v.args[2]) == "clps" and norm(v.args[4]) == "global_axis"
        return False

    ctx.ob("C02-R5", "calculate_clp_penalties/source-area", area_ok(src, "source"), cp, src[0].stmt if src else cp.node,
           "source area = clp `penalty.source` over `penalty.source_intervals`")
    ctx.ob("C02-R5", "calculate_clp_penalties/target-area", area_ok(tgt, "target"), cp, tgt[0].stmt if tgt else cp.node,
           "target area = clp `penalty.target` over `penalty.target_intervals`")
    for c in apps:
        t = fl.term(c.args[0], lib.stmt_of(c))
        s_src = Poly.atom(("call", "sum", (Poly.atom(("name", "SRC")).key(),)))
        # build the reference from the code's own area terms
        st = fl.term(ast.Name(id="source_area", ctx=ast.Load()), lib.stmt_of(c))
        tt = fl.term(ast.Name(id="target_area", ctx=ast.Load()), lib.stmt_of(c))
        pen = fl.term(ast.parse("penalty.parameter", mode="eval").body, lib.stmt_of(c))
        wgt = fl.term(ast.parse("penalty.weight", mode="eval").body, lib.stmt_of(c))
        ssum = Poly.atom(("call", "sum", (st.key(),)))
        tsum = Poly.atom(("call", "sum", (tt.key(),)))
        inner = ssum - pen * tsum
        ref1 = Poly.atom(("call", "abs", (inner.key(),))) * wgt
        ref2 = Poly.atom(("call", "abs", ((-inner).key(),))) * wgt
        ctx.ob("C02-R5", "calculate_clp_penalties/formula", t in (ref1, ref2), cp, lib.stmt_of(c),
               "penalty = |sum(source area) - parameter * sum(target area)| * weight", [f"code term: {t!r}"])
        _ = s_src
    fills = [c for c in lib.calls(cp) if norm(c.func) == "fill_item"]
    ctx.ob("C02-R5", "calculate_clp_penalties/filled-with-current-parameters", len(fills) == 1 and [norm(a) for a in fills[0].args] == ["penalty", "model", "parameters"]
           and any(d.kind == "assign" and norm(d.value) == "self.group.parameters" for d in fl.defs_of("parameters")), cp, fills[0] if fills else cp.node,
           "the penalty item is filled with the group's current parameters")
    loops = [n for n in lib.nodes(cp, ast.For) if norm(n.iter) == "model.clp_penalties"]
    ctx.ob("C02-R5", "calculate_clp_penalties/all-penalties", len(loops) == 1, cp, loops[0] if loops else cp.node, "every clp penalty of the model is considered")
    rets = lib.nodes(cp, ast.Return)
    ctx.ob("C02-R5", "calculate_clp_penalties/returns-list", len(rets) == 1 and norm(rets[0].value) == "penalties", cp, rets[0] if rets else cp.node,
           "the list of penalties is returned")
    # callers hand over matching labels / clps / axis
    ce = ctx.fn(EST, "EstimationProviderUnlinked.calculate_estimation")
    cs = lib.method_calls(ce, "calculate_clp_penalties")
    ctx.sites('C02-R5', "sites iterated at rules/c02.py:437 (cs)", len(cs), 1)
    for c in cs:
        ok = [norm(a) for a in c.args] == ["clp_labels", "self._clps[label]", "global_axis"]
        ctx.ob("C02-R5", "calculate_estimation/penalty-arguments", ok, ce, lib.stmt_of(c), "penalties are computed from this dataset's labels, clps and global axis")
        ctx.ob("C02-R5", "calculate_estimation/penalty-after-loop", not any(isinstance(a, ast.For) for a in lib.ancestors(c, ce.node)), ce, lib.stmt_of(c),
               "the clp penalties are computed once per dataset, after all indices were estimated")
    el = ctx.fn(EST, "EstimationProviderLinked.estimate")
    for c in lib.method_calls(el, "calculate_clp_penalties"):
        ok = [norm(a) for a in c.args] == ["self._matrix_provider.aligned_full_clp_labels", "self._clps", "self._data_provider.aligned_global_axis"]
        ctx.ob("C02-R5", "EstimationProviderLinked.estimate/penalty-arguments", ok, el, lib.stmt_of(c), "penalties are computed on the aligned labels, clps and axis")
        ctx.ob("C02-R5", "EstimationProviderLinked.estimate/penalty-after-loop", not any(isinstance(a, ast.For) for a in lib.ancestors(c, el.node)), el, lib.stmt_of(c),
               "once per evaluation, after all aligned indices")


def r4(ctx) -> None:
    """Kronecker / flatten pairing of the full-model path (shared with C03-R5)."""
    from glint.rules.c03 import r5 as layout

    layout(ctx, rule="C02-R4", full_model_only=True)


def r6(ctx) -> None:
    """The provider weights a private copy of the data exactly once (ownership analysis shared with C10-R3, data provider only)."""
    from glint.rules.c10 import r3 as ownership

    ownership(ctx, rule="C02-R6", scope=("glotaran/optimization/data_provider.py",), floors=False)


def r7(ctx) -> None:
    """Nothing that depends on parameter values is captured when the providers are constructed."""
    lib.check_no_parameter_state_in_constructors(ctx, "C02-R7")


def r8(ctx) -> None:
    """Linked groups: which points share a linear sub-problem (shared with C09-R3 and C09-R4)."""
    from glint.rules import c09

    c09.r3(ctx, rule="C02-R8")
    c09.r4(ctx, rule="C02-R8")


def r9(ctx) -> None:
    """The objective contains every group's and dataset's penalties exactly once (accumulator discipline shared with C10-R5)."""
    from glint.rules import c10

    c10.r5(ctx, rule="C02-R9")


def check(ctx) -> None:
    for g in check.groups:
        g(ctx)


check.groups = [r1, r2, r3, r4, r5, r6, r7, r8, r9]
