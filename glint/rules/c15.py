"""C15 - failures during optimisation are contained and reported."""

from __future__ import annotations

import ast

from glint import lib
from glint.index import AnalysisError
from glint.index import norm
from glint.terms import Poly

OPT = "glotaran/optimization/optimizer.py"
TEE = "glotaran/utils/tee.py"
EST = "glotaran/optimization/estimation_provider.py"

DOC = {
    "explanation": (
        "Static decision of the structural clauses of C15: handler discipline around "
        "least_squares, the tee context that owns sys.stdout, None-guards on the optimiser "
        "result in create_result, validation dominating group construction, history append "
        "after the group evaluations. Decided on the CFG (dominance / path queries) and on "
        "reaching-definition terms of Optimizer.optimize/create_result/__init__/"
        "calculate_penalty and TeeContext; the sys.stdout ownership rule scans every module."
    ),
    "rules": {
        "C15-R7": "the optimisation group writes result variables (singular vectors, weights, finalised data) only into the copies made in create_result_data, never into the datasets of scheme.data (shared with C10-R3)",
        "C15-R1": "least_squares is called inside a try whose handler catches Exception; the handler re-raises the caught object only under the raise flag and otherwise warns and stores the error text as termination reason",
        "C15-R2": "that try is inside `with <TeeContext>`; TeeContext.__exit__ restores sys.stdout on every path, returns falsy and cannot raise; sys.stdout is assigned nowhere else in the package",
        "C15-R3": "every attribute load on the optimiser result in create_result is guarded by the success test; the InitialParameterError test dominates every evaluation; the fallback to the history precedes the re-evaluation on the failure path",
        "C15-R4": "the three validation raises of Optimizer.__init__ dominate the first OptimizationGroup construction; an unknown residual function raises UnsupportedResidualFunctionError in the provider constructor",
        "C15-R5": "the parameter history is appended only after every group of the evaluation was calculated; ParameterHistory.append stores one record on every non-raising path (the record count is what create_result uses to tell 'initial parameters failed' from 'a later evaluation failed' and to pick record -2)",
        "C15-R6": "the record restored after a fault is read back through the inverse of the transform it was written with (history pair, shared with C11-R4)",
    },
    "declined": [
        "which history record is restored for each fault position (value of the index, depends on the run)",
        "behaviour for non-finite matrices (values)",
    ],
    "assumptions": ["scipy.optimize.least_squares raises only Exception subclasses from the objective"],
}


def _flag_attr(ctx, init, param: str) -> str | None:
    """The ``self.<attr>`` that __init__ binds to constructor parameter ``param``."""
    fl = lib.flow(init, ctx.repo)
    for t, s in lib.stores(init):
        ch = lib.attr_chain(t)
        if ch and ch[0] == "self" and len(ch) == 2 and isinstance(s, (ast.Assign, ast.AnnAssign)):
            if s.value is not None and fl.term(s.value, s) == Poly.atom(("name", param)):
                return ch[1]
    return None


def r1_r2(ctx) -> None:
    repo = ctx.repo
    opt = ctx.fn(OPT, "Optimizer.optimize")
    init = ctx.fn(OPT, "Optimizer.__init__")
    fl = lib.flow(opt, repo)
    cfg = fl.cfg
    ls = [c for c in lib.calls(opt) if lib.resolved(repo, opt, c.func) == "scipy.optimize.least_squares"]
    ctx.sites("C15-R1", "least_squares call", len(ls), 1)
    flag = _flag_attr(ctx, init, "raise_exception")
    if flag is None:
        raise AnalysisError("C15-R1: Optimizer.__init__ no longer stores raise_exception on self")
    create = ctx.fn(OPT, "Optimizer.create_result")
    term_attr = None
    for d in lib.nodes(create, ast.Dict):
        for k, v in zip(d.keys, d.values):
            if lib.const_str(k) == "termination_reason":
                ch = lib.attr_chain(v)
                if ch and ch[0] == "self":
                    term_attr = ch[1]
    if term_attr is None:
        for t, s in lib.stores(create):
            if isinstance(t, ast.Subscript) and lib.const_str(t.slice) == "termination_reason":
                ch = lib.attr_chain(s.value)
                if ch and ch[0] == "self":
                    term_attr = ch[1]
    if term_attr is None:
        raise AnalysisError("C15-R1: cannot find the attribute reported as termination_reason")

    for i, call in enumerate(ls):
        inst = f"Optimizer.optimize/least_squares#{i}"
        tr = None
        for a in lib.ancestors(call, opt.node):
            if isinstance(a, ast.Try) and lib.field_of(call, a) == "body":
                tr = a
                break
        if not ctx.ob("C15-R1", inst + "/in-try", tr is not None, opt, call,
                      "least_squares must be called inside the body of a try statement"):
            continue
        catch = [h for h in tr.handlers if h.type is None or norm(h.type) in ("Exception", "BaseException")]
        # a narrower handler listed before the catch-all is fine only if it obeys the same discipline
        ok = bool(catch) and all(
            h in catch for h in tr.handlers
        )
        ctx.ob("C15-R1", inst + "/catch-all", ok, opt, tr.handlers[0] if tr.handlers else tr,
               "the handler(s) of the try around least_squares must catch `Exception` (all errors of a model evaluation)",
               [f"handlers: {[norm(h.type) if h.type else 'bare' for h in tr.handlers]}"],
               construct="except " + ", ".join(norm(h.type) if h.type else "<bare>" for h in tr.handlers))
        if tr.finalbody:
            for r in lib.raises(ast.Module(body=tr.finalbody, type_ignores=[])):
                ctx.ob("C15-R1", inst + "/finally-raise", False, opt, r, "finally block of the optimisation try raises")
        for h in tr.handlers:
            hname = h.name
            hnode = cfg.of[h]
            flag_atom_ok = lambda test, pol, at: (  # noqa: E731
                pol is True and _is_flag(fl, test, at, flag)
            )
            rs = lib.raises(ast.Module(body=h.body, type_ignores=[]))
            good_reraise = 0
            for r in rs:
                same = r.exc is None or (isinstance(r.exc, ast.Name) and r.exc.id == hname)
                guard = lib.guarded_by(fl, r, flag_atom_ok, stop=h)
                if same and guard is not None:
                    good_reraise += 1
                ctx.ob("C15-R1", inst + "/reraise-same-object", same, opt, r,
                       "a raise inside the handler must re-raise the caught exception object unchanged "
                       "(bare `raise` or `raise <handler name>`)")
                ctx.ob("C15-R1", inst + "/raise-only-under-flag", guard is not None, opt, r,
                       f"a raise inside the handler must be guarded by the raise flag `self.{flag}`")
            ctx.ob("C15-R1", inst + "/flag-reraises", good_reraise >= 1, opt, h,
                   f"with `self.{flag}` set the handler must re-raise the original exception",
                   construct=f"except {norm(h.type) if h.type else ''} as {hname}")
            # not-flag path: reaches the normal exit, warns and records the error text
            reaches = cfg.exists_path(hnode, cfg.exit, exc=False)
            ctx.ob("C15-R1", inst + "/handler-returns", reaches, opt, h,
                   "without the raise flag the handler must complete normally (the error is contained)",
                   construct=f"except {norm(h.type) if h.type else ''} as {hname}")
            warn_stmts = [lib.stmt_of(c) for c in lib.calls(ast.Module(body=h.body, type_ignores=[]))
                          if lib.resolved(repo, opt, c.func) in ("warnings.warn", "warn")]
            warn_ok = bool(warn_stmts) and not cfg.exists_path(hnode, cfg.exit, avoid=warn_stmts, exc=False)
            ctx.ob("C15-R1", inst + "/warns", warn_ok, opt, h,
                   "every normal path through the handler issues a warning",
                   construct=f"except {norm(h.type) if h.type else ''} as {hname}")
            st = [s for t, s in lib.attr_stores(ast.Module(body=h.body, type_ignores=[]), f"self.{term_attr}")
                  if hname and hname in lib.names_in(s.value)]
            st_ok = bool(st) and not cfg.exists_path(hnode, cfg.exit, avoid=st, exc=False)
            ctx.ob("C15-R1", inst + "/termination-reason", st_ok, opt, h,
                   f"every normal path through the handler stores the error text in `self.{term_attr}` "
                   "(reported as termination_reason)",
                   construct=f"except {norm(h.type) if h.type else ''} as {hname}")
            for ret in lib.nodes(ast.Module(body=h.body, type_ignores=[]), ast.Return):
                pass  # returning from the handler is a normal completion
        # ---- R2: inside `with <tee>`
        tee_cls = ctx.repo.cls(TEE, "TeeContext")
        tee_attr = None
        for t, s in lib.stores(init):
            ch = lib.attr_chain(t)
            if ch and ch[0] == "self" and len(ch) == 2 and isinstance(getattr(s, "value", None), ast.Call):
                if lib.resolved(repo, init, s.value.func) == tee_cls.qualname:
                    tee_attr = ch[1]
        w = None
        for a in lib.ancestors(tr, opt.node):
            if isinstance(a, ast.With):
                for item in a.items:
                    ch = lib.attr_chain(item.context_expr)
                    if ch == ["self", tee_attr]:
                        w = a
        ctx.ob("C15-R2", "Optimizer.optimize/try-inside-tee", w is not None and tee_attr is not None, opt, tr,
               "the try around least_squares must be lexically inside `with self.<TeeContext instance>` so that "
               "stdout is restored after the handler has run",
               construct="try: ... least_squares(...)")


def _is_flag(fl, test, at, flag: str) -> bool:
    t = fl.term(test, lib.stmt_of(at) if not isinstance(at, ast.stmt) else at)
    flag_atom = Poly.atom(("attr", Poly.atom(("name", "self")).key(), flag))
    if t == flag_atom:
        return True
    a = t.single_atom()
    if a and a[0] == "cmp" and len(a[1]) == 3:
        l, op, r = a[1]
        if l == flag_atom.key() and op in ("Is", "Eq") and r == Poly.atom(("constant", "True")).key():
            return True
    return False


def r2_tee(ctx) -> None:
    repo = ctx.repo
    ex = ctx.fn(TEE, "TeeContext.__exit__")
    en = ctx.fn(TEE, "TeeContext.__enter__")
    tinit = ctx.fn(TEE, "TeeContext.__init__")
    cfg = lib.cfg(ex)
    st = [(t, s) for t, s in lib.stores(ex) if lib.chain_text(t) == "sys.stdout"]
    ctx.sites("C15-R2", "sys.stdout restore in __exit__", len(st), 1)
    stmts = [s for _, s in st]
    ok = not cfg.exists_path(cfg.entry, cfg.exit, avoid=stmts, exc=False)
    ctx.ob("C15-R2", "TeeContext.__exit__/restores-on-every-path", ok, ex, stmts[0],
           "every path through __exit__ assigns sys.stdout (restore is unconditional)")
    # the restored value is the saved original
    saved = None
    for t, s in lib.stores(tinit):
        ch = lib.attr_chain(t)
        if ch and ch[0] == "self" and lib.chain_text(getattr(s, "value", None) or ast.Constant(None)) == "sys.stdout":
            saved = ch[1]
    for t, s in lib.stores(en):
        ch = lib.attr_chain(t)
        if ch and ch[0] == "self" and lib.chain_text(getattr(s, "value", None) or ast.Constant(None)) == "sys.stdout":
            saved = ch[1]
    for t, s in st:
        ctx.ob("C15-R2", "TeeContext.__exit__/restores-saved-stream",
               saved is not None and lib.chain_text(s.value) == f"self.{saved}", ex, s,
               "the value restored must be the stream saved from sys.stdout (self.<saved>)")
    # saved stream attribute is not overwritten by other methods
    tee_cls = repo.cls(TEE, "TeeContext")
    for m in tee_cls.methods.values():
        ctx.touch(m)
        if m.name in ("__init__", "__enter__"):
            continue
        for t, s in lib.stores(m):
            if saved and lib.chain_text(t) == f"self.{saved}":
                ctx.ob("C15-R2", "TeeContext/saved-stream-immutable", False, m, s,
                       "the saved original stream must not be reassigned outside __init__/__enter__")
    for r in lib.raises(ex):
        ctx.ob("C15-R2", "TeeContext.__exit__/no-raise", False, ex, r, "__exit__ must not raise")
    rets = lib.nodes(ex, ast.Return)
    for r in rets:
        falsy = r.value is None or (isinstance(r.value, ast.Constant) and not r.value.value)
        ctx.ob("C15-R2", "TeeContext.__exit__/returns-falsy", falsy, ex, r,
               "__exit__ must return a falsy constant, a truthy value would swallow the exception that "
               "raise_exception=True has to propagate")
    if not rets:
        ctx.ob("C15-R2", "TeeContext.__exit__/returns-falsy", True, ex, ex.node, "no return statement: returns None",
               construct="def __exit__")
    ens = [(t, s) for t, s in lib.stores(en) if lib.chain_text(t) == "sys.stdout"]
    ctx.ob("C15-R2", "TeeContext.__enter__/redirects", len(ens) == 1 and lib.chain_text(ens[0][1].value) == "self"
           if ens else False, en, ens[0][1] if ens else en.node,
           "__enter__ redirects sys.stdout to the tee object itself")
    # who may assign sys.stdout in the package
    n = 0
    for fi in repo.functions.values():
        for t, s in lib.stores(fi):
            if lib.chain_text(t) in ("sys.stdout", "sys.__stdout__"):
                n += 1
                allowed = fi.qualname in (en.qualname, ex.qualname)
                ctx.ob("C15-R2", "package/sys.stdout-owner", allowed, fi, s,
                       "sys.stdout may only be assigned in TeeContext.__enter__/__exit__")
        for c in lib.calls(fi):
            q = lib.resolved(repo, fi, c.func)
            if q in ("setattr",) and len(c.args) >= 2 and norm(c.args[0]) == "sys" and lib.const_str(c.args[1]) == "stdout":
                ctx.ob("C15-R2", "package/sys.stdout-owner", False, fi, c, "setattr(sys, 'stdout', ...) outside TeeContext")
            if q in ("contextlib.redirect_stdout",) and fi.rel.startswith("glotaran/optimization"):
                ctx.ob("C15-R2", "package/sys.stdout-owner", False, fi, c, "redirect_stdout inside the optimisation package")
    for mi in repo.modules.values():
        for node in mi.tree.body:
            if isinstance(node, ast.Assign) and any(lib.chain_text(t) == "sys.stdout" for t in node.targets):
                n += 1
                ctx.obligations  # module level store
                from glint.index import FunctionInfo
                ctx.ob("C15-R2", "package/sys.stdout-owner", False, None, node,
                       f"module level assignment to sys.stdout in {mi.rel}")
    ctx.sites("C15-R2", "sys.stdout stores", n, 2)


def r3(ctx) -> None:
    repo = ctx.repo
    cr = ctx.fn(OPT, "Optimizer.create_result")
    fl = lib.flow(cr, repo)
    cfg = fl.cfg
    res_attr = "_optimization_result"
    self_res = Poly.atom(("attr", Poly.atom(("name", "self")).key(), res_attr))
    none = Poly.atom(("constant", "None"))

    def cond_ok(test, pol, at):
        st = at if isinstance(at, ast.stmt) else lib.stmt_of(at)
        inner, pos = lib.strip_not(test)
        t = fl.term(inner, st)
        a = t.single_atom()
        want_not_none = pol if pos else not pol
        if a and a[0] == "cmp" and len(a[1]) == 3 and a[1][0] == self_res.key() and a[1][2] == none.key():
            if a[1][1] == "IsNot":
                return want_not_none
            if a[1][1] == "Is":
                return not want_not_none
        return False

    loads = []
    for n in lib.nodes(cr, ast.Attribute):
        ch = lib.attr_chain(n)
        if ch and ch[:2] == ["self", res_attr] and len(ch) >= 3 and isinstance(n.ctx, ast.Load):
            # only the outermost attribute of the chain
            p = n._parent
            if isinstance(p, ast.Attribute):
                continue
            loads.append(n)
    ctx.sites("C15-R3", "attribute loads on the optimiser result", len(loads), 7)
    for n in sorted(loads, key=lambda x: (x.lineno, x.col_offset)):
        g = lib.guarded_by(fl, n, cond_ok)
        ctx.ob("C15-R3", f"create_result/guarded:{norm(n)}", g is not None, cr, lib.stmt_of(n),
               f"`{norm(n)}` dereferences the optimiser result, which is None after a failed optimisation; "
               "it must only be evaluated under the success test",
               construct=norm(n) + " @ " + lib.short(lib.stmt_of(n), 80))
    # InitialParameterError dominates every evaluation
    ipe = [r for r in lib.raises(cr) if (lib.raised_name(repo, cr, r) or "").endswith("InitialParameterError")]
    guard_if = None
    if not ctx.ob("C15-R3", "create_result/raises-InitialParameterError", bool(ipe), cr, ipe[0] if ipe else cr.node,
                  "create_result must raise InitialParameterError when not even the initial parameters could be evaluated",
                  construct=lib.short(ipe[0]) if ipe else "def create_result"):
        ipe = []
    for a in lib.ancestors(ipe[0], cr.node) if ipe else []:
        if isinstance(a, ast.If):
            guard_if = a
    evals = lib.calls_to(repo, cr, "calculate_penalty", "calculate", "create_result_data", "set_from_history",
                         "get_additional_penalties", "set_from_label_and_value_arrays")
    ctx.sites("C15-R3", "evaluation / state reading calls", len(evals), 5)
    for c in evals:
        ctx.ob("C15-R3", f"create_result/initial-error-first:{norm(c.func)}",
               guard_if is not None and cfg.dominates(guard_if, c), cr, lib.stmt_of(c),
               "the InitialParameterError test must dominate every evaluation/state access of create_result")
    if guard_if is not None:
        ok = "number_of_records" in norm(guard_if.test) and any(
            isinstance(n, ast.Constant) and n.value == 1 for n in ast.walk(guard_if.test))
        ctx.ob("C15-R3", "create_result/initial-error-test", ok, cr, guard_if,
               "InitialParameterError is raised iff the history only holds the initial record",
               construct="if " + norm(guard_if.test))
    # failure path: fallback precedes re-evaluation
    sfh = lib.calls_to(repo, cr, "set_from_history")
    ctx.sites("C15-R3", "set_from_history", len(sfh), 1)
    for c in sfh:
        g = lib.guarded_by(fl, c, lambda t, p, a: cond_ok(t, not p, a))
        ctx.ob("C15-R3", "create_result/fallback-on-failure", g is not None, cr, lib.stmt_of(c),
               "the history fallback must be taken exactly when the optimisation did not succeed")
        cps = lib.calls_to(repo, cr, "calculate_penalty", "calculate")
        ctx.sites('C15-R3', "sites iterated at rules/c15.py:323 (cps)", len(cps), 1)
        for cp in cps:
            # on the failure path no evaluation may precede the fallback: every path entry->cp
            # which is not under `success` passes the fallback; structurally: the if holding the
            # fallback dominates cp and cp is not before it
            holder = g if isinstance(g, ast.If) else lib.stmt_of(c)
            top = holder
            for a in lib.ancestors(holder, cr.node):
                if isinstance(a, ast.If):
                    top = a
            ctx.ob("C15-R3", f"create_result/fallback-before:{norm(cp.func)}", cfg.dominates(top, cp), cr,
                   lib.stmt_of(cp), "the re-evaluation must come after the (conditional) history fallback")


def r4(ctx) -> None:
    repo = ctx.repo
    init = ctx.fn(OPT, "Optimizer.__init__")
    cfg = lib.cfg(init)
    og = [c for c in lib.calls(init, nested=True) if lib.resolved(repo, init, c.func).endswith("optimization_group.OptimizationGroup")]
    ctx.sites("C15-R4", "OptimizationGroup construction", len(og), 1)
    want = ["MissingDatasetsError", "ParameterNotInitializedError", "UnsupportedMethodError"]
    rs = lib.raises(init)
    for w in want:
        r = [x for x in rs if (lib.raised_name(repo, init, x) or "").endswith(w)]
        if not r:
            ctx.ob("C15-R4", f"Optimizer.__init__/raises:{w}", False, init, init.node,
                   f"Optimizer.__init__ must raise {w} for the corresponding invalid scheme", construct="def __init__")
            continue
        holder = r[0]
        for a in lib.ancestors(r[0], init.node):
            if isinstance(a, ast.If):
                holder = a
        for c in og:
            ctx.ob("C15-R4", f"Optimizer.__init__/validate-first:{w}", cfg.dominates(holder, c), init, lib.stmt_of(c),
                   f"the {w} test must dominate the construction of optimization groups (nothing is set up or "
                   "evaluated for an invalid scheme)",
                   [f"test: {lib.short(holder, 90)}"])
    # also copy of parameters (used by C10) is not needed here
    est = ctx.fn(EST, "EstimationProvider.__init__")
    rs = [x for x in lib.raises(est) if (lib.raised_name(repo, est, x) or "").endswith("UnsupportedResidualFunctionError")]
    ok = False
    for r in rs:
        for a in lib.ancestors(r, est.node):
            if isinstance(a, ast.ExceptHandler) and a.type is not None and "KeyError" in norm(a.type):
                ok = True
    ctx.ob("C15-R4", "EstimationProvider.__init__/unknown-residual-function", ok, est, rs[0] if rs else est.node,
           "an unknown residual function name must raise UnsupportedResidualFunctionError from the lookup's KeyError",
           construct=lib.short(rs[0], 100) if rs else "def __init__")


def r5(ctx) -> None:
    repo = ctx.repo
    cp = ctx.fn(OPT, "Optimizer.calculate_penalty")
    cfg = lib.cfg(cp)
    loops = [n for n in lib.nodes(cp, ast.For) if lib.method_calls(n, "calculate")]
    ctx.sites("C15-R5", "group evaluation loop", len(loops), 1)
    apps = [c for c in lib.method_calls(cp, "append") if "history" in lib.chain_text(c.func.value)]
    ctx.sites("C15-R5", "history append", len(apps), 1)
    for a in apps:
        s = lib.stmt_of(a)
        ok = all(not lib.is_inside(s, lp) and cfg.dominates(lp, s) and s.lineno > lp.lineno for lp in loops)
        ctx.ob("C15-R5", "calculate_penalty/append-after-evaluation", ok, cp, s,
               "the history record of an evaluation is appended after all groups were calculated, so that a "
               "parameter set whose evaluation raised never enters the history")
    cls = repo.cls(OPT, "Optimizer")
    for m in cls.methods.values():
        if m.name in ("__init__", "calculate_penalty"):
            continue
        ctx.touch(m)
        for c in lib.method_calls(m, "append"):
            if "history" in lib.chain_text(c.func.value):
                ctx.ob("C15-R5", "Optimizer/no-other-append", False, m, lib.stmt_of(c),
                       "the parameter history may only be appended in __init__ (initial) and calculate_penalty")


def r1_escape(ctx) -> None:
    """Model evaluations made by the public optimize() outside the handler discipline of Optimizer.optimize."""
    repo = ctx.repo
    pub = ctx.fn("glotaran/optimization/optimize.py", "optimize")
    create = ctx.fn(OPT, "Optimizer.create_result")
    ctx.touch(pub)
    # what the public entry point calls after/besides Optimizer.optimize
    called = {c.func.attr for c in lib.calls(pub) if isinstance(c.func, ast.Attribute)}
    ctx.ob("C15-R1", "optimize/entry-sequence", {"optimize", "create_result"} <= called, pub, pub.node,
           "the public optimize() runs Optimizer.optimize() (handler discipline checked above) and then create_result()",
           construct="optimizer.optimize(); return optimizer.create_result()")
    evals = []
    for fi in (pub, create):
        for c in lib.calls(fi):
            if isinstance(c.func, ast.Attribute) and c.func.attr in ("calculate_penalty", "calculate", "objective_function"):
                evals.append((fi, c))
    ctx.sites("C15-R1", "model evaluations outside Optimizer.optimize", len(evals), 1)
    for fi, c in evals:
        tr = None
        for a in lib.ancestors(c, fi.node):
            if isinstance(a, ast.Try) and lib.field_of(c, a) == "body" and any(
                    h.type is None or norm(h.type) in ("Exception", "BaseException") for h in a.handlers):
                tr = a
                break
        ctx.ob("C15-R1", f"{fi.short}/evaluation-contained", tr is not None, fi, lib.stmt_of(c),
               "a model evaluation made while building the result is not covered by the try/except of Optimizer.optimize: an exception "
               "raised there propagates even with raise_exception=False instead of yielding a Result with success False",
               construct=lib.short(lib.stmt_of(c), 100))


def r5_records(ctx) -> None:
    PH = "glotaran/parameter/parameter_history.py"
    ap = ctx.fn(PH, "ParameterHistory.append")
    cfg = lib.cfg(ap)
    recs = [lib.stmt_of(c) for c in lib.method_calls(ap, "append") if lib.chain_text(c.func.value) == "self._parameters"]
    ctx.sites("C15-R5", "history record store", len(recs), 1)
    ok = bool(recs) and not cfg.exists_path(cfg.entry, cfg.exit, avoid=recs, exc=False)
    ctx.ob("C15-R5", "ParameterHistory.append/one-record-per-call", ok, ap, recs[0] if recs else ap.node,
           "every call that returns stores a record: create_result counts records (== 1: the initial parameters failed) and restores "
           "record -2 after a fault; a skipped record (e.g. 'same as the previous one') shifts both")
    nr = ctx.fn(PH, "ParameterHistory.number_of_records")
    rets = lib.nodes(nr, ast.Return)
    ok = len(rets) == 1 and norm(rets[0].value) == "len(self._parameters)"
    ctx.ob("C15-R5", "ParameterHistory.number_of_records/counts-records", ok, nr, rets[0] if rets else nr.node, "the count is the number of stored records")
    init = ctx.fn(OPT, "Optimizer.__init__")
    first = [c for c in lib.method_calls(init, "append") if "history" in lib.chain_text(c.func.value)]
    ctx.ob("C15-R5", "Optimizer.__init__/initial-record", len(first) == 1, init, first[0] if first else init.node,
           "the history starts with exactly one record, the initial parameters")


def r6(ctx) -> None:
    from glint.rules import c11

    c11.history_pair(ctx, "C15-R6")
    c11.r1(ctx, rule="C15-R6")


def r7(ctx) -> None:
    """The caller's scheme is untouched: datasets (shared with C10-R3)."""
    from glint.rules import c10

    c10.datasets_untouched(ctx, "C15-R7")


def r1_options(ctx) -> None:
    lib.check_option_forwarding(ctx, "C15-R1", ("raise_exception", "verbose"), 2, prefixes=("glotaran/optimization/", "glotaran/project/"))


def check(ctx) -> None:
    for g in check.groups:
        g(ctx)


check.groups = [r1_r2, r1_escape, r2_tee, r3, r4, r5, r5_records, r6, r1_options, r7]
