"""C11 - parameter transformations, bounds and fixed parameters are respected."""

from __future__ import annotations

import ast

from glint import lib
from glint.index import kwarg
from glint.index import norm
from glint.terms import Poly

PS = "glotaran/parameter/parameters.py"
P = "glotaran/parameter/parameter.py"
OPT = "glotaran/optimization/optimizer.py"

DOC = {
    "explanation": (
        "Static decision of: log applied to value and both bounds exactly under the "
        "non_negative flag and exp applied exactly under the same flag on the way back "
        "(term comparison); export of a parameter guarded by `not exclude_non_vary or vary` "
        "and the optimiser requesting exclude_non_vary=True; an expression forcing vary=False "
        "on every path; labels/values/lower/upper appended in one block from one call and "
        "unpacked in the same order into x0 and bounds=(lower, upper); the one label list "
        "accompanying the optimiser vector, the result vector and the standard errors; "
        "optimiser-space vectors reaching Parameter.value only through "
        "set_value_from_optimization."
    ),
    "rules": {
        "C11-R5": "both conversions refresh expression parameters first/last; the refresh touches exactly the parameters whose expression is set now, so a parameter released from its expression (expression = None, vary = True) keeps the value the optimiser gave it (shared with C12-R2)",
        "C11-R1": "get_value_and_bounds_for_optimization returns (value, minimum, maximum) with _log_value applied to all three exactly when non_negative; set_value_from_optimization stores exp(x) exactly when non_negative; _log_value is log(value) with pass-through of non-finite values",
        "C11-R2": "a parameter is exported iff `not exclude_non_vary or parameter.vary`; Optimizer.optimize asks for exclude_non_vary=True; set_transformed_expression sets vary=False on every path that installs an expression",
        "C11-R3": "label, value, lower and upper bound of a parameter are appended together, from one get_value_and_bounds_for_optimization call, and returned/unpacked in one order; bounds=(lower, upper), x0=values; the same label list is used for the optimiser vector, the optimum and the standard errors",
        "C11-R4": "in Optimizer every optimiser-space vector (objective argument, OptimizeResult.x) reaches the parameters only via set_from_label_and_value_arrays with the free-parameter labels; nothing else assigns parameter values",
    },
    "declined": ["iterates staying inside the box (scipy.optimize.least_squares)", "magnitudes near bounds, value exactly 1"],
    "assumptions": ["scipy.optimize.least_squares honours `bounds`"],
}

SELF = Poly.atom(("name", "self"))


def _attr(name: str) -> Poly:
    return Poly.atom(("attr", SELF.key(), name))


def r1(ctx, rule: str = "C11-R1") -> None:
    repo = ctx.repo
    g = ctx.fn(P, "Parameter.get_value_and_bounds_for_optimization")
    fl = lib.flow(g, repo)
    rets = lib.nodes(g, ast.Return)
    ctx.sites(rule, "returns", len(rets), 1)
    for r in rets:
        ok = isinstance(r.value, ast.Tuple) and len(r.value.elts) == 3
        terms = [fl.term(e, r) for e in r.value.elts] if ok else []
        want = []
        for a in ("value", "minimum", "maximum"):
            raw = _attr(a)
            logd = Poly.atom(("call", "glotaran.parameter.parameter._log_value", (raw.key(),)))
            want.append((raw, logd))
        good = ok
        trace = []
        for t, (raw, logd), nm in zip(terms, want, ("value", "minimum", "maximum")):
            a = t.single_atom()
            trace.append(f"{nm}: {t!r}")
            # phi(name, {raw, log(raw)}) : both definitions reach, the log one under the flag
            if not (a and a[0] == "phi" and set(a[2]) == {raw.key(), logd.key()}):
                good = False
        ctx.ob(rule, "get_value_and_bounds_for_optimization/returns-log-or-raw", good, g, r,
               "each of value, minimum, maximum is returned either raw or as _log_value(of itself), in this order", trace)
    # the log definitions are all under `if self.non_negative`
    flag = _attr("non_negative")
    logs = [c for c in lib.calls(g) if norm(c.func) == "_log_value"]
    ctx.sites(rule, "_log_value applications", len(logs), 3)

    def under_flag(test, pol, at):
        return pol is True and fl.term(test, at if isinstance(at, ast.stmt) else lib.stmt_of(at)) == flag

    guards = set()
    for c in logs:
        gd = lib.guarded_by(fl, c, under_flag)
        guards.add(id(gd))
        ctx.ob(rule, f"get_value_and_bounds_for_optimization/log-under-flag:{norm(c.args[0])}", gd is not None, g, lib.stmt_of(c),
               "the logarithm is applied exactly when the parameter is non_negative")
    ctx.ob(rule, "get_value_and_bounds_for_optimization/one-guard", len(guards) == 1, g, g.node,
           "value and both bounds are transformed under one and the same test (they are always in the same space)",
           construct="if self.non_negative: value, minimum, maximum = log...")
    s = ctx.fn(P, "Parameter.set_value_from_optimization")
    fls = lib.flow(s, repo)
    st = lib.attr_stores(s, "self.value")
    ctx.sites(rule, "value store in set_value_from_optimization", len(st), 1)
    p = s.params()[1]
    x = Poly.atom(("name", p))
    want = Poly.atom(("ite", flag.key(), Poly.atom(("exp", x.key())).key(), x.key()))
    for t, stmt in st:
        got = fls.term(stmt.value, stmt)
        alt_ok = False
        a = got.single_atom()
        if a and a[0] == "phi":
            alt_ok = set(a[2]) == {Poly.atom(("exp", x.key())).key(), x.key()}
        ok = got == want
        if not ok and isinstance(stmt.value, ast.Name):
            # if/else form: value rebound under the flag
            defs = fls.reaching(stmt.value.id, stmt)
            exp_defs = [d for d in defs if d.kind == "assign" and fls.term(d.value, d.node) == Poly.atom(("exp", x.key()))]
            ok = alt_ok and bool(exp_defs) and all(lib.guarded_by(fls, d.stmt, lambda te, po, at: po is True and fls.term(te, at) == flag) for d in exp_defs)
        ctx.ob(rule, "set_value_from_optimization/exp-iff-non-negative", ok, s, stmt,
               "the stored value is exp(x) exactly when the parameter is non_negative and x otherwise (inverse of the export)",
               [f"stored term: {got!r}"])
    lv = ctx.fn(P, "_log_value")
    fll = lib.flow(lv, repo)
    vp = lv.params()[0]
    rets = lib.nodes(lv, ast.Return)
    n_log = 0
    for r in rets:
        t = fll.term(r.value, r)
        a = t.single_atom()
        if a and a[0] == "call" and a[1] == "log":
            n_log += 1
            arg = Poly(dict(a[2][0]))
            names = {x for x in arg.all_atoms() if x[0] == "name"}
            ok = names == {("name", vp)}
            small = True
            for sub in arg.all_atoms():
                pass
            ctx.ob(rule, "_log_value/log-of-value", ok, lv, r, "the transformed value is log(value) (up to the documented 1e-10 nudge at 1)",
                   [f"argument: {arg!r}"])
        else:
            raw = t == Poly.atom(("name", vp))

            def nonfinite(test, pol, at):
                inner, pos = lib.strip_not(test)
                return "isfinite" in norm(inner) and ((pol if pos else not pol) is False)

            ctx.ob(rule, "_log_value/pass-through-only-non-finite", raw and lib.guarded_by(fll, r, nonfinite) is not None, lv, r,
                   "the only untransformed return is the pass-through of non-finite values (infinite bounds)")
    ctx.ob(rule, "_log_value/has-log", n_log >= 1, lv, lv.node, "_log_value returns a logarithm", construct="return np.log(value)")


def r2(ctx) -> None:
    repo = ctx.repo
    ge = ctx.fn(PS, "Parameters.get_label_value_and_bounds_arrays")
    fl = lib.flow(ge, repo)
    apps = lib.method_calls(ge, "append")
    ctx.sites("C11-R2", "appends", len(apps), 4)
    excl = ge.params()[1]

    def sel(test, pol, at):
        if not pol:
            return False
        t = test
        if isinstance(t, ast.BoolOp) and isinstance(t.op, ast.Or) and len(t.values) == 2:
            a, b = t.values
            ia, pa = lib.strip_not(a)
            if isinstance(ia, ast.Name) and ia.id == excl and not pa and isinstance(b, ast.Attribute) and b.attr == "vary":
                return True
            ib_, pb = lib.strip_not(b)
            if isinstance(ib_, ast.Name) and ib_.id == excl and not pb and isinstance(a, ast.Attribute) and a.attr == "vary":
                return True
        return False

    for c in apps:
        ctx.ob("C11-R2", f"get_label_value_and_bounds_arrays/selection:{norm(c.func.value)}", lib.guarded_by(fl, c, sel) is not None, ge,
               lib.stmt_of(c), f"a parameter is exported iff `not {excl} or parameter.vary`")
    opt = ctx.fn(OPT, "Optimizer.optimize")
    cs = lib.method_calls(opt, "get_label_value_and_bounds_arrays")
    ctx.sites("C11-R2", "export call in optimize", len(cs), 1)
    for c in cs:
        v = kwarg(c, "exclude_non_vary") or (c.args[0] if c.args else None)
        ctx.ob("C11-R2", "Optimizer.optimize/excludes-non-vary", isinstance(v, ast.Constant) and v.value is True, opt, c,
               "the optimiser only receives varying parameters (exclude_non_vary=True)")
    ste = ctx.fn(P, "set_transformed_expression")
    cfg = lib.cfg(ste)
    pp = ste.params()[0]
    ep = ste.params()[2]
    tstores = [s for t, s in lib.stores(ste) if norm(t) == f"{pp}.transformed_expression"]
    vstores = [s for t, s in lib.stores(ste) if norm(t) == f"{pp}.vary" and isinstance(s, ast.Assign)
               and isinstance(s.value, ast.Constant) and s.value.value is False]
    ctx.sites("C11-R2", "transformed expression store", len(tstores), 1)
    for s in tstores:
        before = cfg.exists_path(cfg.entry, s, avoid=vstores)
        after = cfg.exists_path(s, cfg.exit, avoid=vstores, exc=False)
        ok = bool(vstores) and not (before and after)
        ctx.ob("C11-R2", "set_transformed_expression/vary-false", ok, ste, s,
               "every path that installs a transformed expression also sets vary = False (expression parameters are "
               "never handed to the optimiser)")
    pcls = repo.cls(P, "Parameter")
    vd = pcls.class_assigns.get("vary")
    ctx.ob("C11-R2", "Parameter.vary/default", vd is not None and "default=True" in norm(vd), None, vd or pcls.node,
           "vary defaults to True", construct=f"vary = {norm(vd) if vd is not None else '?'}")
    _ = ep


def r3(ctx) -> None:
    repo = ctx.repo
    ge = ctx.fn(PS, "Parameters.get_label_value_and_bounds_arrays")
    fl = lib.flow(ge, repo)
    apps = lib.method_calls(ge, "append")
    by_list = {norm(c.func.value): c for c in apps}
    rets = lib.nodes(ge, ast.Return)
    ctx.sites("C11-R3", "return", len(rets), 1)
    r = rets[0]
    order = []
    if isinstance(r.value, ast.Tuple):
        for e in r.value.elts:
            names = [n.id for n in ast.walk(e) if isinstance(n, ast.Name) and n.id in by_list]
            order.append(names[0] if names else None)
    ok = len(order) == 4 and None not in order and len(set(order)) == 4
    ctx.ob("C11-R3", "get_label_value_and_bounds_arrays/returns-four-lists", ok, ge, r,
           "labels, values, lower and upper bounds are returned as four parallel sequences")
    if ok:
        blocks = {id(getattr(lib.stmt_of(by_list[n]), "_parent", None)) for n in order}
        ctx.ob("C11-R3", "get_label_value_and_bounds_arrays/one-block", len(blocks) == 1, ge, lib.stmt_of(by_list[order[0]]),
               "the four appends are in one block under one guard (the sequences stay parallel)")
        # what is appended
        roles = {}
        for n in order:
            c = by_list[n]
            roles[n] = fl.term(c.args[0], lib.stmt_of(c))
        t_label, t_val, t_lo, t_hi = (roles[n] for n in order)
        la = t_label.single_atom()
        lab_ok = bool(la and la[0] == "attr" and la[2] == "label")
        src = la[1] if lab_ok else None

        def item(t, idx):
            a = t.single_atom()
            if not a:
                return False
            if a[0] == "item" and a[2] == (idx,):
                inner = Poly(dict(a[1])).single_atom()
                return bool(inner and inner[0] == "mcall" and inner[2] == "get_value_and_bounds_for_optimization" and inner[1] == src)
            return False

        ctx.ob("C11-R3", "get_label_value_and_bounds_arrays/same-parameter", lab_ok and item(t_val, 0) and item(t_lo, 1) and item(t_hi, 2), ge,
               lib.stmt_of(by_list[order[1]]),
               "position 0/1/2 of one get_value_and_bounds_for_optimization() call of the *same* parameter whose label is "
               "appended go to values / lower / upper in that order",
               [f"label: {t_label!r}", f"value: {t_val!r}", f"lower: {t_lo!r}", f"upper: {t_hi!r}"])
    # consumer
    opt = ctx.fn(OPT, "Optimizer.optimize")
    flo = lib.flow(opt, repo)
    ls = [c for c in lib.calls(opt) if lib.resolved(repo, opt, c.func) == "scipy.optimize.least_squares"]
    ctx.sites("C11-R3", "least_squares", len(ls), 1)
    c = ls[0]

    def from_export(e, idx):
        t = flo.term(e, lib.stmt_of(c))
        a = t.single_atom()
        if a and a[0] == "item" and a[2] == (idx,):
            inner = Poly(dict(a[1])).single_atom()
            return bool(inner and inner[0] == "mcall" and inner[2] == "get_label_value_and_bounds_arrays")
        return False

    x0 = c.args[1] if len(c.args) > 1 else kwarg(c, "x0")
    b = kwarg(c, "bounds")
    ctx.ob("C11-R3", "Optimizer.optimize/x0", x0 is not None and from_export(x0, 1), opt, c,
           "x0 is the value array (position 1) of the export")
    ok_b = isinstance(b, ast.Tuple) and len(b.elts) == 2 and from_export(b.elts[0], 2) and from_export(b.elts[1], 3)
    ctx.ob("C11-R3", "Optimizer.optimize/bounds-order", ok_b, opt, c,
           "bounds=(lower, upper) with lower = position 2 and upper = position 3 of the export",
           construct=f"bounds={norm(b) if b is not None else '?'}")
    lab_st = lib.attr_stores(opt, "self._free_parameter_labels")
    okl = False
    for t, s in lab_st:
        # position 0 of the same unpacking
        if isinstance(s, ast.Assign) and isinstance(s.targets[0], ast.Tuple) and s.targets[0].elts and s.targets[0].elts[0] is t \
                and isinstance(s.value, ast.Call) and isinstance(s.value.func, ast.Attribute) and s.value.func.attr == "get_label_value_and_bounds_arrays":
            okl = True
    ctx.ob("C11-R3", "Optimizer.optimize/labels-from-same-export", okl, opt, lab_st[0][1] if lab_st else opt.node,
           "the free-parameter labels are position 0 of the same export that yields x0 and the bounds")
    # label list used everywhere
    cls = repo.cls(OPT, "Optimizer")
    n = 0
    for m in cls.methods.values():
        ctx.touch(m)
        for t, s in lib.attr_stores(m, "self._free_parameter_labels"):
            if m.name != "optimize":
                ctx.ob("C11-R3", f"Optimizer.{m.name}/labels-immutable", False, m, s, "the label list is only assigned in optimize()")
        for cc in lib.method_calls(m, "set_from_label_and_value_arrays"):
            n += 1
            ctx.ob("C11-R3", f"Optimizer.{m.name}/labels-with-vector", cc.args and norm(cc.args[0]) == "self._free_parameter_labels", m,
                   lib.stmt_of(cc), "optimiser-space vectors are always paired with the free-parameter label list")
    ctx.sites("C11-R3", "set_from_label_and_value_arrays calls in Optimizer", n, 2)
    cov = ctx.fn(OPT, "Optimizer.calculate_covariance_matrix_and_standard_errors")
    zs = [cc for cc in lib.calls(cov) if norm(cc.func) == "zip"]
    ok = any(len(z.args) == 2 and norm(z.args[0]) == "self._free_parameter_labels" and norm(z.args[1]) == "standard_errors" for z in zs)
    ctx.ob("C11-R3", "calculate_covariance_matrix_and_standard_errors/labels", ok, cov, zs[0] if zs else cov.node,
           "standard errors (Jacobian column order) are assigned through the same label list", construct=lib.short(zs[0]) if zs else "def")


def r4(ctx) -> None:
    repo = ctx.repo
    obj = ctx.fn(OPT, "Optimizer.objective_function")
    fl = lib.flow(obj, repo)
    xp = obj.params()[1]
    uses = [n for n in lib.nodes(obj, ast.Name) if n.id == xp and isinstance(n.ctx, ast.Load)]
    ctx.sites("C11-R4", "uses of the optimiser vector", len(uses), 1)
    for u in uses:
        par = u._parent
        ok = isinstance(par, ast.Call) and isinstance(par.func, ast.Attribute) and par.func.attr == "set_from_label_and_value_arrays" \
            and len(par.args) == 2 and par.args[1] is u
        ctx.ob("C11-R4", "objective_function/vector-sink", ok, obj, lib.stmt_of(u),
               "the optimiser's vector is consumed only as the value argument of set_from_label_and_value_arrays")
    cr = ctx.fn(OPT, "Optimizer.create_result")
    for n in lib.nodes(cr, ast.Attribute):
        if n.attr == "x" and lib.chain_text(n.value) == "self._optimization_result":
            par = n._parent
            ok = (isinstance(par, ast.Call) and isinstance(par.func, ast.Attribute) and par.func.attr == "set_from_label_and_value_arrays") \
                or (isinstance(par, ast.Attribute) and par.attr in ("size", "shape"))
            ctx.ob("C11-R4", "create_result/optimum-sink", ok, cr, lib.stmt_of(n),
                   "OptimizeResult.x (optimiser space) reaches the parameters only through set_from_label_and_value_arrays")
    sf = ctx.fn(PS, "Parameters.set_from_label_and_value_arrays")
    cs = lib.method_calls(sf, "set_value_from_optimization")
    ctx.sites('C11-R4', "sites iterated at rules/c11.py:313 (cs)", len(cs), 1)
    for c in cs:
        t = lib.flow(sf, repo).term(c.args[0], lib.stmt_of(c))
        a = t.single_atom()
        okv = bool(a and a[0] == "elem" and a[1] == Poly.atom(("name", sf.params()[2])).key())
        rt = lib.flow(sf, repo).term(c.func.value, lib.stmt_of(c))
        ra = rt.single_atom()
        okl = bool(ra and ra[0] == "mcall" and ra[2] == "get" and ra[3] and Poly(dict(ra[3][0])).single_atom() == ("elem", Poly.atom(("name", sf.params()[1])).key()))
        ctx.ob("C11-R4", "set_from_label_and_value_arrays/pairs-label-with-value", okv and okl, sf, lib.stmt_of(c),
               "value i is given to the parameter looked up by label i (zip of the two arrays)",
               [f"receiver: {rt!r}", f"value: {t!r}"])
    lens = [n for n in lib.nodes(sf, ast.If) if "len(" in norm(n.test) and isinstance(n.body[-1], ast.Raise)]
    ctx.ob("C11-R4", "set_from_label_and_value_arrays/length-check", bool(lens), sf, lens[0] if lens else sf.node,
           "a length mismatch between labels and values raises instead of silently truncating (zip)",
           construct=lib.short(lens[0], 60) if lens else "def")
    _ = fl
    history_pair(ctx, "C11-R4")


def history_pair(ctx, rule: str = "C11-R4") -> None:
    """The parameter history is written in optimiser space and read back through the inverse transform."""
    repo = ctx.repo
    PH = "glotaran/parameter/parameter_history.py"
    ap = ctx.fn(PH, "ParameterHistory.append")
    fla = lib.flow(ap, repo)
    pp = ap.params()[1]
    recs = [c for c in lib.method_calls(ap, "append") if lib.chain_text(c.func.value) == "self._parameters"]
    ctx.sites(rule, "history record store", len(recs), 1)

    def from_export(term, idx) -> bool:
        for a in term.all_atoms():
            if a[0] == "item" and a[2] == (idx,):
                inner = Poly(dict(a[1])).single_atom()
                if inner and inner[0] == "mcall" and inner[2] == "get_label_value_and_bounds_arrays" \
                        and inner[1] == Poly.atom(("name", pp)).key() and not inner[3] and not inner[4]:
                    return True
        return False

    for c in recs:
        t = fla.term(c.args[0], lib.stmt_of(c))
        ctx.ob(rule, "ParameterHistory.append/optimiser-space-values", from_export(t, 1), ap, lib.stmt_of(c),
               "history records hold the optimiser-space vector of *all* parameters (position 1 of "
               "get_label_value_and_bounds_arrays()), because set_from_history feeds them back through "
               "set_from_label_and_value_arrays, which applies the inverse transform", [f"record term: {t!r}"])
    lab_st = [s for t_, s in lib.attr_stores(ap, "self._parameter_labels")]
    ctx.sites(rule, "sites iterated at rules/c11.py:357 (lab_st)", len(lab_st), 1)
    for s_ in lab_st:
        t = fla.term(s_.value, s_)
        ctx.ob(rule, "ParameterHistory.append/labels-of-same-export", from_export(t, 0), ap, s_,
               "the history labels are position 0 of the same export (plus the leading 'iteration')", [f"label term: {t!r}"])
    # records are matched to labels by position: the label check is a comparison of sequences, and a copy keeps the order
    cmp_ok = False
    for n_ in lib.nodes(ap, ast.If):
        if n_.body and isinstance(n_.body[-1], ast.Raise):
            t_ = n_.test
            if isinstance(t_, ast.Compare) and len(t_.ops) == 1 and isinstance(t_.ops[0], ast.NotEq) and \
                    {norm(t_.left), norm(t_.comparators[0])} == {"parameter_labels", "self.parameter_labels"}:
                cmp_ok = True
            if "set(" in norm(t_) or "sorted(" in norm(t_) or "Counter(" in norm(t_):
                cmp_ok = False
                break
    ctx.ob(rule, "ParameterHistory.append/labels-compared-as-sequence", cmp_ok, ap, ap.node,
           "a record whose labels are the same *set* in another order would be stored under the wrong labels: the check is `list != list`",
           construct="if parameter_labels != self.parameter_labels: raise")
    cp = ctx.fn(PS, "Parameters.copy")
    flc = lib.flow(cp, repo)
    rets_ = lib.nodes(cp, ast.Return)
    okc = False
    for r_ in rets_:
        v_ = flc.inline(r_.value, r_) if r_.value is not None else None
        if isinstance(v_, ast.Call) and v_.args and isinstance(v_.args[0], ast.DictComp):
            g_ = v_.args[0].generators[0]
            okc = norm(g_.iter) == "self._parameters.items()" and not g_.ifs and len(v_.args[0].generators) == 1
    bad_ = [c for c in lib.calls(cp, nested=True) if (isinstance(c.func, ast.Name) and c.func.id in ("sorted", "reversed", "set")) or
            (isinstance(c.func, ast.Attribute) and c.func.attr in ("sort", "reverse"))]
    ctx.ob(rule, "Parameters.copy/keeps-declaration-order", okc and not bad_, cp, bad_[0] if bad_ else (rets_[0] if rets_ else cp.node),
           "the optimiser's working copy lists the parameters in the order of the original: labels, values, bounds and history columns are "
           "matched by position with arrays exported from the original", construct=lib.short(rets_[0], 110) if rets_ else "def copy")
    sh = ctx.fn(PS, "Parameters.set_from_history")
    cs = [c for c in lib.method_calls(sh, "set_from_label_and_value_arrays")]
    ctx.ob(rule, "set_from_history/applies-record-through-setter", len(cs) == 1, sh, cs[0] if cs else sh.node,
           "the record is applied by exactly one call of set_from_label_and_value_arrays (the only place that applies the inverse of the "
           "optimiser transform); assigning `parameter.value = <history entry>` restores log-values for non-negative parameters",
           construct=lib.short(cs[0], 100) if cs else "def set_from_history")
    direct = [st for t_, st in lib.stores(sh) if isinstance(t_, ast.Attribute) and t_.attr in ("value", "_value")]
    ctx.ob(rule, "set_from_history/no-direct-value-store", not direct, sh, direct[0] if direct else sh.node,
           "history entries are optimiser-space numbers: they are never stored into Parameter.value directly",
           construct=lib.short(direct[0], 100) if direct else "def set_from_history")
    for c in cs:
        ok = len(c.args) == 2 and all(isinstance(a, ast.Subscript) and isinstance(a.slice, ast.Slice) and a.slice.upper is None
                                      and isinstance(a.slice.lower, ast.Constant) and a.slice.lower.value == 1 for a in c.args) \
            and "parameter_labels" in norm(c.args[0]) and "get_parameters" in norm(c.args[1])
        ctx.ob(rule, "set_from_history/reads-through-inverse-transform", ok, sh, lib.stmt_of(c),
               "a history record (without its leading iteration entry) is applied with set_from_label_and_value_arrays")



def r5(ctx) -> None:
    """What the export/import of the optimiser vector refreshes (shared with C12-R2)."""
    from glint.rules import c12

    c12.r2(ctx, rule="C11-R5")


def check(ctx) -> None:
    for g in check.groups:
        g(ctx)


check.groups = [r1, r2, r3, r4, r5]
