"""C16 - parameter files round-trip in every supported format."""

from __future__ import annotations

import ast

from glint import lib
from glint.index import AnalysisError
from glint.index import kwarg
from glint.index import norm

CSV = "glotaran/builtin/io/pandas/csv.py"
TSV = "glotaran/builtin/io/pandas/tsv.py"
XLS = "glotaran/builtin/io/pandas/xlsx.py"
PAR = "glotaran/parameter/parameter.py"
PRS = "glotaran/parameter/parameters.py"

DOC = {
    "explanation": (
        "Writer/reader table agreement, decided from the source: per tabular format the set of "
        "(column, infinite bound) pairs the writer blanks equals the set the reader fills; the "
        "writer's NA representation is among the reader's NA values; the option-name maps are "
        "inverse, injective and lower case (the reader lower-cases headers); tsv delegates to "
        "csv with the same separator both ways; automatic numbering is 1-based and skips "
        "option dicts in both the list and the dict loader; the data-frame writer and reader "
        "use the same attribute set."
    ),
    "rules": {
        "C16-R3": "writers drop no column of the parameter data frame; the scientific-notation pattern (a source constant, interpreted with the stdlib on a fixed sample of spellings) accepts 1e3, 1.5e3, .5e3 with optional signs and nothing without an exponent",
        "C16-R2": "every loader (list, dict, data frame, file plugins) constructs Parameters through __init__, which ends with the expression refresh; the refresh is an exact fixed point bounded by the number of expression parameters, so expressions that reference other expression parameters - in any declaration order - hold their value after loading",
        "C16-R1": "per format: {(minimum,-inf),(maximum,+inf)} blanked by the writer == filled by the reader; na_rep in na_values; headers are lower-cased then renamed with OPTION_NAMES_DESERIALIZED, which is the inverse of the injective, lower-case OPTION_NAMES_SERIALIZED over Parameter attributes; tsv uses sep='\\t' in both directions through the csv plugin; list and dict loaders number unnamed parameters from 1 counting only non-dict entries; to_dataframe/as_dict exclude exactly the non-init attribute; NaN expressions become None",
    },
    "rules_extra": {},
    "declined": ["dtype inference of pandas / openpyxl / odf", "float text precision", "labels that look like numbers in scientific notation (value level)"],
    "assumptions": ["pandas read_csv/read_excel na_values and DataFrame.fillna/replace semantics"],
}


def _sign_inf(e: ast.AST) -> str | None:
    t = norm(e).replace(" ", "")
    return {"-np.inf": "-inf", "np.inf": "+inf", "+np.inf": "+inf", "float('-inf')": "-inf", "float('inf')": "+inf", "-math.inf": "-inf", "math.inf": "+inf"}.get(t)


def r1(ctx) -> None:
    repo = ctx.repo
    n = 0
    for rel, cls, reader_fn, writer_fn in ((CSV, "CsvProjectIo", "pd.read_csv", "to_csv"), (XLS, "ExcelProjectIo", "pd.read_excel", "to_excel")):
        ld = ctx.fn(rel, f"{cls}.load_parameters")
        sv = ctx.fn(rel, f"{cls}.save_parameters")
        fills = set()
        for c in lib.calls(ld):
            if norm(c.func) == "safe_dataframe_fillna" and len(c.args) == 3:
                fills.add((lib.const_str(c.args[1]), _sign_inf(c.args[2])))
        repl = set()
        blank = True
        for c in lib.calls(sv):
            if norm(c.func) == "safe_dataframe_replace" and len(c.args) == 4:
                repl.add((lib.const_str(c.args[1]), _sign_inf(c.args[2])))
                blank = blank and lib.const_str(c.args[3]) == ""
        n += len(fills) + len(repl)
        want = {("minimum", "-inf"), ("maximum", "+inf")}
        ctx.ob("C16-R1", f"{cls}/infinite-bounds-table", fills == repl == want and blank, ld, ld.node,
               "the writer blanks (minimum, -inf) and (maximum, +inf); the reader fills empty minimum with -inf and empty maximum with +inf - "
               "the two tables must be equal, a swapped sign or column returns an infinite bound with the wrong sign or as NaN",
               construct=f"writer: {sorted(repl)} reader: {sorted(fills)}")
        rd = [c for c in lib.calls(ld) if norm(c.func) == reader_fn]
        wr = [c for c in lib.calls(sv) if isinstance(c.func, ast.Attribute) and c.func.attr == writer_fn]
        nav = set()
        if rd:
            v = kwarg(rd[0], "na_values")
            if isinstance(v, (ast.List, ast.Tuple)):
                nav = {lib.const_str(x) for x in v.elts}
        rep = lib.const_str(kwarg(wr[0], "na_rep")) if wr and kwarg(wr[0], "na_rep") is not None else None
        ctx.ob("C16-R1", f"{cls}/na-representation", rep is not None and rep in nav, sv, wr[0] if wr else sv.node,
               "missing values (None expression, NaN standard error) are written as a token the reader recognises as NA",
               construct=f"na_rep={rep!r} na_values={sorted(x for x in nav if x)}")
        dt = kwarg(rd[0], "dtype") if rd else None
        lab_str = isinstance(dt, ast.Dict) and any(lib.const_str(k) == "label" and norm(v) == "str" for k, v in zip(dt.keys, dt.values)) or (
            dt is not None and norm(dt) == "str")
        conv = kwarg(rd[0], "converters") if rd else None
        lab_str = lab_str or (isinstance(conv, ast.Dict) and any(lib.const_str(k) == "label" and norm(v) == "str" for k, v in zip(conv.keys, conv.values)))
        ctx.ob("C16-R1", f"{cls}/labels-read-as-text", bool(lab_str), ld, rd[0] if rd else ld.node,
               "labels are text: the reader must pin the label column to str, otherwise pandas infers numbers for purely numeric labels "
               "('1.10' -> 1.1, '01' -> 1)")
        def pinned(col):
            r_ = isinstance(dt, ast.Dict) and any(lib.const_str(k) == col and norm(v) == "str" for k, v in zip(dt.keys, dt.values)) or (
                dt is not None and norm(dt) == "str")
            return r_ or (isinstance(conv, ast.Dict) and any(lib.const_str(k) == col and norm(v) == "str" for k, v in zip(conv.keys, conv.values)))

        ctx.ob("C16-R1", f"{cls}/expressions-read-as-text", bool(pinned("expression")), ld, rd[0] if rd else ld.node,
               "expressions are text: a column holding only numeric expressions ('3') is inferred as float and then dropped as 'not a string'")
        if reader_fn == "pd.read_csv":
            fp = kwarg(rd[0], "float_precision") if rd else None
            ctx.ob("C16-R1", f"{cls}/floats-parsed-round-trip", lib.const_str(fp) == "round_trip", ld, rd[0] if rd else ld.node,
                   "pandas' default C float parser is not correctly rounded (about one value in five is one ULP off); text written with "
                   "repr precision comes back equal only with float_precision='round_trip'")
        ff = kwarg(wr[0], "float_format") if wr else None
        ctx.ob("C16-R1", f"{cls}/floats-written-in-full", ff is None, sv, wr[0] if wr else sv.node,
               "the writer does not shorten floats (no float_format): the default is the shortest text that round-trips")
        # the label order is part of the parameter set: no row re-ordering / aggregating operation on either side
        REORDER = {"groupby", "sort_values", "sort_index", "pivot", "pivot_table", "sample", "nlargest", "nsmallest", "merge", "melt", "stack", "unstack"}
        for side, f_ in (("reader", ld), ("writer", sv)):
            bad = [c for c in lib.calls(f_) if (isinstance(c.func, ast.Attribute) and c.func.attr in REORDER)
                   or (isinstance(c.func, ast.Name) and c.func.id in ("sorted", "set", "frozenset", "reversed"))]
            ctx.ob("C16-R1", f"{cls}/{side}-keeps-row-order", not bad, f_, bad[0] if bad else f_.node,
                   "rows are parameters in declaration order; grouping, sorting or set-building re-orders or merges them (groupby sorts by key)",
                   construct=lib.short(bad[0], 100) if bad else f"def {f_.name}")
        idx = kwarg(wr[0], "index") if wr else None
        ctx.ob("C16-R1", f"{cls}/no-index-column", isinstance(idx, ast.Constant) and idx.value is False, sv, wr[0] if wr else sv.node,
               "the data-frame index is not written (it would come back as an unknown column)")
        txt = norm(ld.node)
        ok = "df.columns = [column.lower() for column in df.columns]" in txt and "df = df.rename(columns=OPTION_NAMES_DESERIALIZED)" in txt and \
            txt.index("column.lower()") < txt.index("OPTION_NAMES_DESERIALIZED")
        ctx.ob("C16-R1", f"{cls}/header-normalisation", ok, ld, ld.node, "headers are lower-cased, then serialized option names are mapped back to attribute names",
               construct="df.columns = [c.lower() ...]; df.rename(columns=OPTION_NAMES_DESERIALIZED)")
        order_ok = all(txt.index("OPTION_NAMES_DESERIALIZED") < txt.index(f'safe_dataframe_fillna(df, {col!r}') for col in ("minimum", "maximum") if f'safe_dataframe_fillna(df, {col!r}' in txt)
        ctx.ob("C16-R1", f"{cls}/fill-after-rename", order_ok, ld, ld.node, "bounds are filled after the columns were renamed (a `min` header becomes `minimum` first)",
               construct="rename ... then safe_dataframe_fillna")
        ctx.ob("C16-R1", f"{cls}/reader-builds-from-dataframe", "return Parameters.from_dataframe(df, source=file_name)" in txt, ld, ld.node,
               "the reader builds the parameters with Parameters.from_dataframe", construct="return Parameters.from_dataframe(df, source=file_name)")
        ctx.ob("C16-R1", f"{cls}/writer-uses-to-dataframe", "df = parameters.to_dataframe()" in norm(sv.node), sv, sv.node,
               "the writer serialises Parameters.to_dataframe()", construct="df = parameters.to_dataframe()")
    ctx.sites("C16-R1", "bound table entries", n, 8)
    # option name maps
    mi = repo.module(PAR)
    ser = mi.assigns.get("OPTION_NAMES_SERIALIZED")
    des = mi.assigns.get("OPTION_NAMES_DESERIALIZED")
    if not isinstance(ser, ast.Dict):
        raise AnalysisError("C16-R1: OPTION_NAMES_SERIALIZED is no longer a dict literal")
    pairs = [(lib.const_str(k), lib.const_str(v)) for k, v in zip(ser.keys, ser.values)]
    vals = [v for _, v in pairs]
    keys = [k for k, _ in pairs]
    ctx.ob("C16-R1", "option-names/injective", len(set(vals)) == len(vals) and len(set(keys)) == len(keys) and None not in vals + keys, None, ser,
           "no two attributes share a serialized name", construct=norm(ser))
    ctx.ob("C16-R1", "option-names/lower-case", all(v == v.lower() for v in vals if v), None, ser,
           "serialized names are lower case (the readers lower-case the headers before renaming)", construct=str(vals))
    ctx.ob("C16-R1", "option-names/disjoint", not (set(vals) & set(keys)), None, ser, "a serialized name is never another attribute's name", construct=norm(ser))
    ok = isinstance(des, ast.DictComp) and norm(des.key) == "v" and norm(des.value) == "k" and norm(des.generators[0].iter) == "OPTION_NAMES_SERIALIZED.items()" \
        and norm(des.generators[0].target) == "(k, v)" and not des.generators[0].ifs
    ctx.ob("C16-R1", "option-names/inverse", ok, None, des or ser, "OPTION_NAMES_DESERIALIZED is exactly the inverse map", construct=norm(des) if des is not None else "?")
    pcls = repo.cls(PAR, "Parameter")
    attrs = set(pcls.annotations)
    ctx.ob("C16-R1", "option-names/attributes-exist", set(keys) <= attrs, None, ser, "every serialized option is an attribute of Parameter",
           construct=f"{sorted(set(keys) - attrs)} unknown" if set(keys) - attrs else "all known")
    ctx.ob("C16-R1", "Parameter/attributes-lower-case", all(a == a.lower() for a in attrs), None, pcls.node, "attribute names are lower case (headers are lower-cased by the readers)",
           construct=str(sorted(attrs)))
    for fn, table in (("deserialize_options", "OPTION_NAMES_DESERIALIZED"), ("serialize_options", "OPTION_NAMES_SERIALIZED")):
        f = ctx.fn(PAR, fn)
        rets = lib.nodes(f, ast.Return)
        ok = len(rets) == 1 and norm(rets[0].value) == f"{{{table}.get(k, k): v for k, v in {f.params()[0]}.items()}}"
        ctx.ob("C16-R1", f"{fn}/uses-table", ok, f, rets[0] if rets else f.node, f"{fn} renames keys through {table}, unknown keys unchanged")
    # tsv delegates
    for nm, callee in (("load_parameters", "load_parameters"), ("save_parameters", "save_parameters")):
        f = ctx.fn(TSV, f"TsvProjectIo.{nm}")
        cs = [c for c in lib.calls(f) if norm(c.func) == callee]
        ok = len(cs) == 1 and lib.const_str(kwarg(cs[0], "format_name")) == "csv" and lib.const_str(kwarg(cs[0], "sep")) == "\t"
        ctx.ob("C16-R1", f"TsvProjectIo.{nm}/delegates-with-tab", ok, f, cs[0] if cs else f.node, "tsv is csv with sep='\\t' - in both directions")
    csv_l = ctx.fn(CSV, "CsvProjectIo.load_parameters")
    csv_s = ctx.fn(CSV, "CsvProjectIo.save_parameters")
    rd = [c for c in lib.calls(csv_l) if norm(c.func) == "pd.read_csv"]
    wr = [c for c in lib.calls(csv_s) if isinstance(c.func, ast.Attribute) and c.func.attr == "to_csv"]
    ok = bool(rd) and bool(wr) and norm(kwarg(rd[0], "sep")) == "sep" and norm(kwarg(wr[0], "sep")) == "sep" and "sep" in csv_l.params() and "sep" in csv_s.params()
    ctx.ob("C16-R1", "CsvProjectIo/separator-passed-through", ok, csv_l, rd[0] if rd else csv_l.node, "reader and writer both honour the `sep` option")
    # numbering
    fl_ = ctx.fn(PRS, "Parameters.from_list")
    txt = norm(fl_.node)
    ok = "for i, item in enumerate((item for item in parameter_list if not isinstance(item, dict)))" in txt and "item += [f'{i + 1}']" in txt
    ctx.ob("C16-R1", "from_list/numbering", ok, fl_, fl_.node, "unlabelled list entries are numbered from 1, counting only parameter entries (not the options dict)",
           construct="for i, item in enumerate(non-dict items): item += [f'{i+1}']")
    fd = ctx.fn(PRS, "flatten_parameter_dict")
    txt = norm(fd.node)
    ok = "enumerate((list_value for list_value in value if not isinstance(list_value, dict)), start=1)" in txt and "[str(index), list_value]" in txt and "list_value += [str(index)]" in txt
    ctx.ob("C16-R1", "flatten_parameter_dict/numbering", ok, fd, fd.node, "the dict loader numbers the same way (start=1, option dicts skipped)",
           construct="enumerate(non-dict items, start=1) -> str(index)")
    # "has this entry a label?" is asked after scientific-notation strings were turned into numbers
    for f_, var in ((fl_, "item"), (fd, "list_value")):
        tests = [c for c in lib.calls(f_, nested=True) if isinstance(c.func, ast.Name) and c.func.id == "any" and c.args
                 and isinstance(c.args[0], ast.GeneratorExp) and "isinstance(v, str)" in norm(c.args[0].elt).replace(c.args[0].generators[0].target.id if isinstance(c.args[0].generators[0].target, ast.Name) else "v", "v")]
        oks = bool(tests) and all(norm(t.args[0].generators[0].iter) in (f"sanitize_parameter_list({var}.copy())", f"sanitize_parameter_list(list({var}))",
                                                                        f"sanitize_parameter_list({var}[:])") for t in tests)
        ctx.ob("C16-R1", f"{f_.name}/label-test-after-sanitising", oks, f_, tests[0] if tests else f_.node,
               "yaml reads 1e3 as the string '1e3'; it is a value, so the test 'does the entry contain a label (a str)?' must look at the "
               "sanitised copy - otherwise the entry gets no number and ends up with the empty label",
               construct=lib.short(tests[0], 110) if tests else f"def {f_.name}")
    ok = "yield (f'{key}.{sub_key}', sub_value, sub_dict)" in txt
    ctx.ob("C16-R1", "flatten_parameter_dict/nested-labels", ok, fd, fd.node, "nested groups are joined with '.'", construct="yield f'{key}.{sub_key}', ...")
    fdct = ctx.fn(PRS, "Parameters.from_dict")
    txt = norm(fdct.node)
    ok = "label += f'.{parameter.label}'" in txt and "parameter.label = label" in txt and "parameters[label] = parameter" in txt
    ctx.ob("C16-R1", "from_dict/full-labels", ok, fdct, fdct.node, "a parameter's full label is <group path>.<own label>", construct="label += f'.{parameter.label}'")
    # dataframe attribute set
    ad = ctx.fn(PAR, "Parameter.as_dict")
    ok = "filters.exclude(fields(Parameter).transformed_expression)" in norm(ad.node)
    te = pcls.class_assigns.get("transformed_expression")
    ok = ok and te is not None and "init=False" in norm(te)
    ctx.ob("C16-R1", "Parameter.as_dict/init-attributes-only", ok, ad, ad.node,
           "the written columns are exactly the attributes the constructor accepts (the derived transformed_expression is excluded)",
           construct="asdict(self, filter=exclude(transformed_expression))")
    REORDER_ = {"groupby", "sort_values", "sort_index", "pivot", "pivot_table", "sample", "nlargest", "nsmallest", "merge", "melt", "stack", "unstack", "sort"}
    for nm in ("Parameters.from_dataframe", "Parameters.to_dataframe", "Parameters.from_parameter_dict_list", "Parameters.to_parameter_dict_list",
               "Parameters.from_list", "Parameters.from_dict", "Parameters.all"):
        f_ = ctx.fn(PRS, nm)
        bad = [c for c in lib.calls(f_) if (isinstance(c.func, ast.Attribute) and c.func.attr in REORDER_)
               or (isinstance(c.func, ast.Name) and c.func.id in ("sorted", "set", "frozenset", "reversed"))]
        ctx.ob("C16-R1", f"{nm}/keeps-declaration-order", not bad, f_, bad[0] if bad else f_.node,
               "conversion between parameters, dict lists and data frames keeps the declaration order of the labels",
               construct=lib.short(bad[0], 100) if bad else f"def {f_.name}")
    fdf = ctx.fn(PRS, "Parameters.from_dataframe")
    txt = lib.xfn(fdf, ctx.repo)  # temporaries looked through
    ok = "df['expression'] = [expr if isinstance(expr, str) else None for expr in df['expression'].to_list()]" in txt \
        and "return cls.from_parameter_dict_list(df.to_dict(orient='records'))" in txt
    ctx.ob("C16-R1", "from_dataframe/expression-nan-to-none", ok, fdf, fdf.node, "NaN expressions (written as NA) come back as None, not as the string 'nan'",
           construct="expr if isinstance(expr, str) else None")
    ok = "for column_name in ['label', 'value']" in txt and "Missing required column" in txt
    ctx.ob("C16-R1", "from_dataframe/required-columns", ok, fdf, fdf.node, "label and value are required", construct="for column_name in ['label', 'value']")
    tdl = ctx.fn(PRS, "Parameters.to_parameter_dict_list")
    ctx.ob("C16-R1", "to_parameter_dict_list/all-in-order", "return [p.as_dict() for p in self.all()]" in norm(tdl.node), tdl, tdl.node,
           "rows are written for all parameters in container order", construct="[p.as_dict() for p in self.all()]")
    fpl = ctx.fn(PRS, "Parameters.from_parameter_dict_list")
    txt = norm(fpl.node)
    ctx.ob("C16-R1", "from_parameter_dict_list/order-preserved", "for parameter_dict in parameter_dict_list" in txt and "parameters[parameter.label] = parameter" in txt, fpl, fpl.node,
           "rows are read back in file order", construct="for parameter_dict in parameter_dict_list: parameters[label] = Parameter(**parameter_dict)")
    # plugin registration: formats
    for rel, cls, fmts in ((CSV, "CsvProjectIo", {"csv"}), (TSV, "TsvProjectIo", {"tsv"}), (XLS, "ExcelProjectIo", {"xlsx", "ods"})):
        ci = repo.cls(rel, cls)
        got = set()
        for d in ci.node.decorator_list:
            if isinstance(d, ast.Call) and norm(d.func) == "register_project_io":
                a = d.args[0]
                got = {lib.const_str(x) for x in a.elts} if isinstance(a, (ast.List, ast.Tuple)) else {lib.const_str(a)}
        ctx.ob("C16-R1", f"{cls}/registered-formats", fmts <= got, None, ci.node, f"registered for {sorted(fmts)}", construct=f"@register_project_io({sorted(got)})")


def r2(ctx) -> None:
    """'Expressions are re-evaluated after loading': every loader builds the container through __init__, which refreshes
    the expression parameters with an order-insensitive fixed point (obligations shared with C12-R1 / C12-R2)."""
    from glint.rules.c12 import r1 as refresh
    from glint.rules.c12 import r2 as fixed_point

    refresh(ctx, rule="C16-R2")
    fixed_point(ctx, rule="C16-R2")


def r3(ctx) -> None:
    """Writers keep every column; the scientific-notation pattern covers every spelling yaml leaves as a string."""
    import re as _re

    for rel, cls in ((CSV, "CsvProjectIo"), (XLS, "ExcelProjectIo")):
        sv = ctx.fn(rel, f"{cls}.save_parameters")
        drops = [c for c in lib.calls(sv) if isinstance(c.func, ast.Attribute) and c.func.attr in ("drop", "pop", "filter", "reindex")]
        drops += [n for n in lib.nodes(sv, ast.Delete)]
        sel = [n for n in lib.nodes(sv, ast.Subscript) if isinstance(n.ctx, ast.Load) and isinstance(n.slice, (ast.List, ast.ListComp)) and norm(n.value) == "df"]
        colkw = [c for c in lib.calls(sv) if kwarg(c, "columns") is not None and isinstance(c.func, ast.Attribute) and c.func.attr.startswith("to_")]
        bad = drops + sel + colkw
        ctx.ob("C16-R3", f"{cls}.save_parameters/all-columns-written", not bad, sv, bad[0] if bad else sv.node,
               "every attribute of the parameters (standard_error included) is written whatever the options: the same files are read back "
               "as initial parameters of chained fits", construct=lib.short(bad[0], 100) if bad else "def save_parameters")
    mi = ctx.repo.module("glotaran/utils/regex.py")
    ci = ctx.repo.cls("glotaran/utils/regex.py", "RegexPattern")
    pat = ci.class_assigns.get("number_scientific")
    src = lib.const_str(pat.args[0]) if isinstance(pat, ast.Call) and pat.args else None
    ok = False
    trace = []
    if src is not None:
        try:
            rx = _re.compile(src)  # the constant pattern of the source, interpreted by the stdlib
            must = ["1e3", "1E3", "1.5e3", ".5e3", "+.5e3", "-1.5E+3", "1e-3", "0.5e3", "12e10"]
            must_not = ["abc", "1.5", "e3", "1e", "s1", "k.1", "1"]
            miss = [x for x in must if rx.fullmatch(x) is None]
            extra = [x for x in must_not if rx.fullmatch(x) is not None]
            ok = not miss and not extra
            trace = [f"pattern: {src}", f"not accepted: {miss}", f"wrongly accepted: {extra}"]
        except _re.error as e:
            trace = [f"invalid pattern: {e}"]
    ctx.ob("C16-R3", "RegexPattern.number_scientific/language", ok, None, pat or mi.tree,
           "yaml leaves 1e3, 1.5e3 and .5e3 (no dot, unsigned exponent, bare decimal point) as strings; the pattern must accept all of them "
           "and nothing without an exponent - a string it misses silently becomes the label of a NaN parameter", trace,
           construct=f"number_scientific = {src!r}")
    cv = ctx.fn("glotaran/utils/sanitize.py", "convert_scientific_to_float")
    ok = "rp.number_scientific" in norm(cv.node) and "float(value)" in norm(cv.node)
    ctx.ob("C16-R3", "convert_scientific_to_float/uses-pattern", ok, cv, cv.node, "strings matching the pattern are converted with float()")
    uses = [c for c in lib.calls(cv) if isinstance(c.func, ast.Attribute) and "number_scientific" in norm(c.func.value)]
    anchored = bool(src) and src.startswith("^") and src.rstrip().endswith("$")
    ctx.ob("C16-R3", "convert_scientific_to_float/whole-string", bool(uses) and all(c.func.attr == "fullmatch" or (c.func.attr == "match" and anchored) for c in uses),
           cv, uses[0] if uses else cv.node,
           "only a string that *is* a number in scientific notation is converted: with a prefix match the valid label '1e3abc' is handed to "
           "float() and loading the specification raises", construct=lib.short(uses[0], 90) if uses else "def")


def check(ctx) -> None:
    for g in check.groups:
        g(ctx)


check.groups = [r1, r2, r3]
