"""C03 - result datasets decompose the data exactly and on the right coordinates."""

from __future__ import annotations

import ast

from glint import lib
from glint.callgraph import env_of
from glint.index import norm
from glint.shapes import ShapeEval
from glint.shapes import arr
from glint.shapes import flat
from glint.shapes import show
from glint.shapes import show_tag
from glint.terms import Poly

GRP = "glotaran/optimization/optimization_group.py"
EST = "glotaran/optimization/estimation_provider.py"
MAT = "glotaran/optimization/matrix_provider.py"
DAT = "glotaran/optimization/data_provider.py"

DOC = {
    "explanation": (
        "Static decision of: the decomposition identities of the result dataset (term "
        "comparison and dominance in create_result_data / add_weight_to_result_data); no "
        "substring membership tests on labels (typed `in` on str right-hand sides over the "
        "optimisation package); injectivity of group keys; and the axis order of every array "
        "against its dims/coords and of every flatten/reshape/kron pair, decided in a "
        "named-axis shape domain (M model, G global, C clp, K global clp) whose sources are the "
        "provider accessors."
    ),
    "rules": {
        "C03-R7": "the reported data are the weighted private copy (never the caller's array) and the matrix reduction applies relations before constraints - the order retrieve_clps inverts (shared with C02-R2 and C10-R3)",
        "C03-R1": "fitted_data = data - residual with the un-weighted residual (weight division dominates it); weighted_residual is the residual before division; residual = weighted / weight; residual, matrix and clp of a dataset are taken under that dataset's own label",
        "C03-R2": "no `x in y` / `x not in y` with y of type str and x a label variable in glotaran/optimization; no orientation decision by comparing .shape",
        "C03-R3": "keys of the group definitions are injective in the label lists (no joining of variable-length labels with an empty separator)",
        "C03-R4": "data, indices, group labels, weights, matrices and scales of one aligned index are stacked over the same datasets in one order, and the linked result slicer cuts residual blocks by the cumulative model-axis sizes of exactly the preceding datasets of that order; results are reported on the dataset's own global axis",
        "C03-R5": "named-axis layout: flattened data/weight are (M,G).T.flatten(); kron(global, model) rows are flat(G,M) like the flattened data; the full-model residual is reshaped as (G,M) then transposed, the clps as (K,C); every DataArray's array axes equal its dims/coords order; weight columns/data columns are selected by the global position",
        "C03-R6": "retrieve_clps writes reduced clps to the positions of their own labels in the full label list, leaves removed positions at the zero initialiser and sets relation targets to parameter x source clp",
    },
    "declined": ["numeric identity on noisy data (values)", "behaviour for arbitrary label sets beyond the two structural hazards (substring test, join collision)"],
    "assumptions": ["xarray assigns positional coords tuples to axes in order", "numpy.kron / reshape are row-major"],
}


# ------------------------------------------------------------------------- R1
def _rd_access(e: ast.AST, rd: str) -> str | None:
    """'residual' for ``rd['residual']`` or ``rd.residual``."""
    if isinstance(e, ast.Subscript) and isinstance(e.value, ast.Name) and e.value.id == rd:
        return lib.const_str(e.slice)
    if isinstance(e, ast.Attribute) and isinstance(e.value, ast.Name) and e.value.id == rd:
        return e.attr
    return None


def r1(ctx, rule: str = "C03-R1") -> None:
    repo = ctx.repo
    cr = ctx.fn(GRP, "OptimizationGroup.create_result_data")
    cfg = lib.cfg(cr)
    fl = lib.flow(cr, repo)
    st = {}
    for t, s in lib.stores(cr):
        if isinstance(t, ast.Subscript) and isinstance(t.value, ast.Name) and lib.const_str(t.slice):
            st.setdefault(lib.const_str(t.slice), []).append((t, s))
    for key in ("residual", "fitted_data", "matrix", "clp"):
        ctx.ob(rule, f"create_result_data/stores:{key}", key in st, cr, st[key][0][1] if key in st else cr.node,
               f"the result dataset gets `{key}`", construct=lib.short(st[key][0][1]) if key in st else "def create_result_data")
    if not all(k in st for k in ("residual", "fitted_data")):
        return
    t_res, s_res = st["residual"][0]
    rd = t_res.value.id
    t_fit, s_fit = st["fitted_data"][0]
    v = s_fit.value
    ok = isinstance(v, ast.BinOp) and isinstance(v.op, ast.Sub) and _rd_access(v.left, rd) == "data" and _rd_access(v.right, rd) == "residual"
    ctx.ob(rule, "create_result_data/fitted-is-data-minus-residual", ok, cr, s_fit,
           "fitted_data = data - residual, both of the same result dataset")
    aw = [c for c in lib.method_calls(cr, "add_weight_to_result_data")]
    ctx.sites(rule, "add_weight_to_result_data call", len(aw), 1)
    loop = None
    for a in lib.ancestors(s_res, cr.node):
        if isinstance(a, ast.For):
            loop = a
            break
    lab = norm(loop.target.elts[0]) if loop is not None and isinstance(loop.target, ast.Tuple) else None
    for c in aw:
        s_w = lib.stmt_of(c)
        ctx.ob(rule, "create_result_data/weight-after-residual", cfg.dominates(s_res, s_w) and s_res.lineno < s_w.lineno, cr, s_w,
               "the residual is stored before it is divided by the weight")
        ctx.ob(rule, "create_result_data/unweighting-before-fitted", cfg.dominates(s_w, s_fit) and s_w.lineno < s_fit.lineno, cr, s_fit,
               "fitted_data is computed from the un-weighted residual: the weight division dominates it")
        ctx.ob(rule, "create_result_data/weight-call-args", len(c.args) == 2 and norm(c.args[0]) == lab and norm(c.args[1]) == rd, cr, s_w,
               "the weight of this dataset is applied to this result dataset")
    # no later store of residual between weight call and fitted
    ctx.ob(rule, "create_result_data/residual-stored-once", len(st["residual"]) == 1, cr, s_res, "the residual is stored once")
    for key, src in (("residual", "residuals"), ("matrix", "matrices"), ("clp", "clps")):
        if key in st:
            t, s = st[key][0]
            ok = isinstance(s.value, ast.Subscript) and norm(s.value.value) == src and norm(s.value.slice) == lab
            ctx.ob(rule, f"create_result_data/own-label:{key}", ok, cr, s, f"`{key}` of a dataset is `{src}[<its own label>]`")
    unp = {}
    for t, s in lib.stores(cr):
        if isinstance(s, ast.Assign) and isinstance(s.targets[0], ast.Tuple) and isinstance(s.value, ast.Call):
            unp[norm(s.value.func)] = [norm(x) for x in s.targets[0].elts]
    ctx.ob(rule, "create_result_data/unpack-matrix-result", unp.get("self._matrix_provider.get_result") == ["global_matrices", "matrices"], cr, cr.node,
           "MatrixProvider.get_result returns (global_matrices, matrices)", construct=str(unp.get("self._matrix_provider.get_result")))
    ctx.ob(rule, "create_result_data/unpack-estimation-result", unp.get("self._estimation_provider.get_result") == ["clps", "residuals"], cr, cr.node,
           "EstimationProvider.get_result returns (clps, residuals)", construct=str(unp.get("self._estimation_provider.get_result")))
    for rel, name, want in ((MAT, "MatrixProvider.get_result", ["global_matrices", "matrices"]),
                            (EST, "EstimationProviderUnlinked.get_result", ["clps", "residuals"]),
                            (EST, "EstimationProviderLinked.get_result", ["clps", "residuals"])):
        f = ctx.fn(rel, name)
        for r in lib.nodes(f, ast.Return):
            got = [norm(x) for x in r.value.elts] if isinstance(r.value, ast.Tuple) else []
            ctx.ob(rule, f"{name}/return-order", got == want, f, r, f"returns ({', '.join(want)})")
    # add_weight_to_result_data
    aw_f = ctx.fn(GRP, "OptimizationGroup.add_weight_to_result_data")
    cfg2 = lib.cfg(aw_f)
    fl2 = lib.flow(aw_f, repo)
    rdp = aw_f.params()[2]
    labp = aw_f.params()[1]
    sts = {}
    for t, s in lib.stores(aw_f):
        if isinstance(t, ast.Subscript) and isinstance(t.value, ast.Name) and t.value.id == rdp and lib.const_str(t.slice):
            sts.setdefault(lib.const_str(t.slice), []).append(s)
    w1 = sts.get("weighted_residual", [None])[0]
    w2 = sts.get("residual", [None])[0]
    res_atom = Poly.atom(("sub", Poly.atom(("name", rdp)).key(), Poly.atom(("str", "residual")).key()))
    ok1 = w1 is not None and fl2.term(w1.value, w1) == res_atom
    ctx.ob(rule, "add_weight_to_result_data/weighted-is-fit-residual", ok1, aw_f, w1 or aw_f.node,
           "weighted_residual is the residual as delivered by the fit (before division)", construct=lib.short(w1) if w1 else "def")
    wt = None
    for d in fl2.defs_of("weight"):
        if d.kind == "assign" and isinstance(d.value, ast.Call) and isinstance(d.value.func, ast.Attribute) and d.value.func.attr == "get_weight" \
                and d.value.args and norm(d.value.args[0]) == labp:
            wt = d
    ok2 = False
    if w2 is not None and wt is not None:
        tv = fl2.term(w2.value, w2)
        wterm = fl2.term(wt.value, wt.node)
        ok2 = tv == res_atom / wterm
    ctx.ob(rule, "add_weight_to_result_data/residual-is-weighted-over-weight", ok2, aw_f, w2 or aw_f.node,
           "residual = weighted residual / weight of this dataset (so that weighted_residual = weight x residual)",
           construct=lib.short(w2) if w2 else "def")
    if w1 is not None and w2 is not None:
        ctx.ob(rule, "add_weight_to_result_data/order", cfg2.dominates(w1, w2) and w1.lineno < w2.lineno, aw_f, w2,
               "the weighted residual is saved before the residual is divided")
    nones = [n for n in lib.nodes(aw_f, ast.If) if norm(n.test) in ("weight is None",) and n.body and isinstance(n.body[-1], ast.Return)]
    ctx.ob(rule, "add_weight_to_result_data/unweighted-untouched", len(nones) == 1, aw_f, nones[0] if nones else aw_f.node,
           "without weight the residual is left as it is", construct="if weight is None: return")


# ------------------------------------------------------------------------- R2
def r2(ctx) -> None:
    repo = ctx.repo
    n_in = 0
    n_str = 0
    for fi in repo.functions_in("glotaran/optimization/"):
        ctx.touch(fi)
        env = env_of(repo, fi)
        for c in lib.nodes(fi, ast.Compare, nested=True):
            for op, rhs in zip(c.ops, c.comparators):
                if not isinstance(op, (ast.In, ast.NotIn)):
                    continue
                n_in += 1
                t = env.type_of(rhs)
                is_str = t.text in ("str", "str | None") or isinstance(rhs, ast.JoinedStr) or (
                    isinstance(rhs, ast.Constant) and isinstance(rhs.value, str))
                if isinstance(rhs, ast.Call) and isinstance(rhs.func, ast.Attribute) and rhs.func.attr == "join":
                    is_str = True
                if not is_str:
                    continue
                n_str += 1
                lhs_literal = isinstance(c.left, ast.Constant)
                ctx.ob("C03-R2", f"{fi.short}/substring-test", lhs_literal, fi, lib.stmt_of(c),
                       f"`{norm(c)}`: the right-hand side is a str, so this is a substring test; membership of a label must be "
                       "decided on the list of labels (a label that is a substring of another matches wrongly)")
        for n in lib.nodes(fi, ast.If, nested=True):
            for c in ast.walk(n.test):
                if isinstance(c, ast.Compare) and ".shape" in norm(c.left) and any(".shape" in norm(x) for x in c.comparators):
                    transposes = any(isinstance(x, ast.Attribute) and x.attr == "T" for b in n.body + n.orelse for x in ast.walk(b)) or any(
                        isinstance(x, ast.Call) and norm(x.func).endswith("transpose") for b in n.body + n.orelse for x in ast.walk(b))
                    if transposes:
                        ctx.ob("C03-R2", f"{fi.short}/orientation-by-shape", False, fi, n,
                               "the orientation of an array is decided by comparing shapes; for square data (n_model == n_global) the "
                               "test cannot tell the two layouts apart - decide on dimension names")
    ctx.sites("C03-R2", "`in` tests in glotaran/optimization", n_in, 20)
    ctx.ob("C03-R2", "optimization/in-tests-scanned", True, None, None,
           f"{n_in} membership tests examined, {n_str} with a str right-hand side", construct=f"{n_in} `in` / `not in` tests")
    # the membership test of the linked result assembly is on the label list
    gr = ctx.fn(EST, "EstimationProviderLinked.get_result")
    env = env_of(repo, gr)
    tests = [c for c in lib.nodes(gr, ast.Compare) if isinstance(c.ops[0], (ast.In, ast.NotIn)) and norm(c.left) == "dataset_label"]
    ctx.sites("C03-R2", "dataset membership test in get_result", len(tests), 1)
    for c in tests:
        t = env.type_of(c.comparators[0])
        ctx.ob("C03-R2", "EstimationProviderLinked.get_result/membership-on-list", t.text.startswith("list["), gr, lib.stmt_of(c),
               f"the aligned index' dataset membership is decided on the group's label list (type of right-hand side: {t.text or '?'})")


# ------------------------------------------------------------------------- R3
def r3(ctx) -> None:
    ag = ctx.fn(DAT, "DataProviderLinked.align_groups")
    joins = [c for c in lib.calls(ag, nested=True) if isinstance(c.func, ast.Attribute) and c.func.attr == "join"
             and isinstance(c.func.value, ast.Constant) and c.func.value.value == ""]
    other = [c for c in lib.calls(ag, nested=True) if isinstance(c.func, ast.Attribute) and c.func.attr == "join"
             and not (isinstance(c.func.value, ast.Constant) and c.func.value.value == "")]
    ctx.sites("C03-R3", "group key constructions", len(joins) + len(other), 1)
    for c in joins:
        ctx.ob("C03-R3", "align_groups/injective-key", False, ag, c,
               "group keys are built by concatenating variable-length dataset labels without separator: different label lists "
               "can give the same key ('ab'+'c' == 'a'+'bc'), so two groups share one definition",
               construct='"".join(<dataset labels of an aligned index>)')
    for c in other:
        sep = c.func.value
        ctx.ob("C03-R3", "align_groups/injective-key", isinstance(sep, ast.Constant) and isinstance(sep.value, str) and len(sep.value) > 0
               and not sep.value.isalnum(), ag, c, "labels are joined with a separator that cannot occur inside a label")


# ------------------------------------------------------------------------- R5
DIM_TAGS = {"model_dimension": "M", "global_dimension": "G", "'clp_label'": "C", "'global_clp_label'": "K", "'model'": "M", "'global'": "G"}


def base_sources(branch_full=None):
    def src(e: ast.AST, text: str):
        t = text.replace("self._data_provider.", "self.").replace("dataset_label", "label")
        if t in ("self._data[label]", "self.get_data(label)"):
            return arr("M", "G")
        if t in ("self._weight[label]", "self.get_weight(label)"):
            return arr("M", "G")
        if t in ("self.get_flattened_data(label)", "self.get_flattened_weight(label)", "self._flattened_data[label]", "self._flattened_weight[label]"):
            return arr(flat("G", "M"))
        if t in ("self.get_model_axis(label)", "self._model_axes[label]"):
            return arr("M")
        if t in ("self.get_global_axis(label)", "self._global_axes[label]"):
            return arr("G")
        if t in ("self.aligned_global_axis", "self._aligned_global_axis"):
            return arr("G")  # per dataset view: one entry per (aligned) global point of the dataset
        if t.endswith("get_matrix_container(label).clp_labels"):
            return ("labels", "C")
        if t.endswith("get_global_matrix_container(label).clp_labels"):
            return ("labels", "K")
        return None
    return src


def _dataarray_dims(call: ast.Call) -> list | None:
    """Axis tags declared by dims= / coords= of an xr.DataArray(...) call."""
    dims = next((k.value for k in call.keywords if k.arg == "dims"), None)
    coords = next((k.value for k in call.keywords if k.arg == "coords"), None)
    if coords is None and len(call.args) > 1:
        coords = call.args[1]
    out = None
    if isinstance(dims, (ast.List, ast.Tuple)):
        out = [DIM_TAGS.get(norm(x)) for x in dims.elts]
    elif isinstance(coords, (ast.Tuple, ast.List)):
        out = []
        for pair in coords.elts:
            if isinstance(pair, (ast.Tuple, ast.List)) and pair.elts:
                out.append(DIM_TAGS.get(norm(pair.elts[0])))
            else:
                out.append(None)
    return out


def _check_dataarrays(ctx, fi, ev: ShapeEval, rule_inst: str, extra_src=None, where=None, rule="C03-R5") -> int:
    n = 0
    for c in lib.calls(fi):
        if norm(c.func) != "xr.DataArray" or not c.args:
            continue
        if where is not None and not where(c):
            continue
        n += 1
        st = lib.stmt_of(c)
        dims = _dataarray_dims(c)
        s = ev.ev(c.args[0], st)
        if s is not None and s[0] == "list" and s[2] is not None and s[2][0] == "arr":
            s = ("arr", (s[1],) + s[2][1])  # xarray converts a list of arrays like np.array does
        ok = s is not None and s[0] == "arr" and dims is not None and None not in dims and list(s[1]) == dims
        ctx.ob(rule, f"{rule_inst}:{norm(st.targets[0]) if isinstance(st, ast.Assign) else 'expr'}", ok, fi, st,
               f"axes of the array {show(s)} must equal the declared dims ({', '.join(str(d) for d in dims) if dims else '?'})",
               [f"array: {lib.short(c.args[0], 100)}"])
    return n


def r5(ctx, rule: str = "C03-R5", full_model_only: bool = False) -> None:
    repo = ctx.repo
    # (a) flattened data / weight
    init = ctx.fn(DAT, "DataProvider.__init__")
    fl = lib.flow(init, repo)
    ev = ShapeEval(fl, base_sources())
    for attr in ("self._flattened_data", "self._flattened_weight"):
        for t, s in lib.stores(init):
            if isinstance(t, ast.Subscript) and lib.chain_text(t.value) == attr:
                v = s.value.body if isinstance(s.value, ast.IfExp) else s.value
                sh = ev.ev(v, s)
                ctx.ob(rule, f"DataProvider.__init__/{attr[5:]}-layout", sh == arr(flat("G", "M")), init, s,
                       f"the flattened array is global-major: (M,G).T.flatten() = flat(G,M); found {show(sh)}")
    gf = ctx.fn(DAT, "DataProvider.get_from_dataset")
    tests = [n for n in lib.nodes(gf, ast.If) if ".dims" in norm(n.test)]
    ok = any(norm(n.test).replace(" ", "") in ("dataset[name].dims!=(model_dimension,global_dimension)",) and any(
        isinstance(x, ast.Attribute) and x.attr == "T" for x in ast.walk(n)) for n in tests)
    ctx.ob(rule, "get_from_dataset/model-major", ok, gf, tests[0] if tests else gf.node,
           "provider arrays are (model, global): transposed exactly when the dataset's dims are not (model_dimension, global_dimension)",
           construct="if dataset[name].dims != (model_dimension, global_dimension): data = data.T")
    # (c) kron order and weight of the full matrix
    cf = ctx.fn(MAT, "MatrixProviderUnlinked.calculate_full_matrices")
    flc = lib.flow(cf, repo)

    def src_cf(e, text):
        if text == "global_matrix":
            return None
        if text == "global_matrix_container.matrix":
            return arr("G", "K")
        if text == "matrix_container.matrix":
            return None
        if text == "self._data_provider.get_flattened_weight(label)":
            return arr(flat("G", "M"))
        return None

    krons = [c for c in lib.calls(cf, nested=True) if norm(c.func) in ("np.kron", "numpy.kron")]
    ctx.sites(rule, "kron calls", len(krons), 2)
    for c in krons:
        in_comp = any(isinstance(a, ast.ListComp) for a in lib.ancestors(c, cf.node))

        def src_k(e, text, in_comp=in_comp):
            if text == "global_matrix":
                return arr("G", "K")
            if text == "matrix":
                return arr("G", "M", "C") if in_comp else arr("M", "C")
            return None

        evk = ShapeEval(flc, src_k)
        st = lib.stmt_of(c)
        whole = c
        for a in lib.ancestors(c, cf.node):
            if isinstance(a, ast.Call) and norm(a.func) in ("np.concatenate", "numpy.concatenate"):
                whole = a
        sh = evk.ev(whole, st)
        want_rows = flat("G", "M")
        want_cols = flat("K", "C")
        ok = sh is not None and sh[0] == "arr" and len(sh[1]) == 2 and sh[1][0] == want_rows and sh[1][1] == want_cols
        ctx.ob(rule, f"calculate_full_matrices/kron-layout:{'index-dependent' if in_comp else 'index-independent'}", ok, cf, st,
               f"rows of the full matrix must be flat(G,M) like the flattened data, columns flat(K,C) like the reshaped clps; found {show(sh)}")
    aws = [c for c in lib.calls(cf) if norm(c.func).endswith("apply_weight")]
    ctx.sites(rule, "sites iterated at rules/c03.py:345 (aws)", len(aws), 1)
    for c in aws:
        ok = len(c.args) == 2 and norm(c.args[0]) == "full_matrix" and "get_flattened_weight(label)" in norm(flc.term(c.args[1], lib.stmt_of(c)).__repr__()) or (
            len(c.args) == 2 and norm(c.args[1]) == "weight" and any(
                d.kind == "assign" and "get_flattened_weight(label)" in norm(d.value) for d in flc.reaching("weight", lib.stmt_of(c))))
        ctx.ob(rule, "calculate_full_matrices/weight-layout", ok, cf, lib.stmt_of(c),
               "the full matrix (rows flat(G,M)) is weighted with the flattened weight (flat(G,M))")
    ap = ctx.fn(MAT, "MatrixContainer.apply_weight")
    rets = lib.nodes(ap, ast.Return)
    okw = any(norm(r.value).replace(" ", "") in ("(matrix.T*weight).T", "(weight*matrix.T).T", "matrix*weight[:,np.newaxis]", "weight[:,np.newaxis]*matrix",
                                                 "matrix*weight[:,None]", "weight[:,None]*matrix") for r in rets)
    ctx.ob(rule, "MatrixContainer.apply_weight/row-weights", okw, ap, rets[0] if rets else ap.node,
           "row i of the matrix is multiplied by weight i")
    # full model estimation consumes the matching pair
    fm = ctx.fn(EST, "EstimationProviderUnlinked.calculate_full_model_estimation")
    flm = lib.flow(fm, repo)
    cs = lib.method_calls(fm, "calculate_residual")
    for c in cs:
        t0 = repr(flm.term(c.args[0], lib.stmt_of(c))) if c.args else ""
        t1 = repr(flm.term(c.args[1], lib.stmt_of(c))) if len(c.args) > 1 else ""
        ctx.ob(rule, "calculate_full_model_estimation/pairs-full-matrix-with-flattened-data",
               "get_full_matrix" in t0 and "get_flattened_data" in t1, fm, lib.stmt_of(c),
               "the Kronecker matrix is fitted to the flattened (global-major) data of the same dataset")
        tg = lib.stmt_of(c)
        okt = isinstance(tg, ast.Assign) and isinstance(tg.targets[0], ast.Tuple) and [norm(x) for x in tg.targets[0].elts] == ["self._clps[label]", "self._residuals[label]"]
        ctx.ob(rule, "calculate_full_model_estimation/stores-clp-residual", okt, fm, tg, "(clps, residual) are stored in this order")
    if full_model_only:
        return
    # (d) unlinked get_result
    gr = ctx.fn(EST, "EstimationProviderUnlinked.get_result")
    flg = lib.flow(gr, repo)
    full_if = None
    for n in lib.nodes(gr, ast.If):
        if "has_dataset_model_global_model" in norm(n.test):
            full_if = n
    if full_if is None:
        ctx.ob(rule, "EstimationProviderUnlinked.get_result/branches", False, gr, gr.node, "full-model / per-index branches not found", construct="def")
    else:
        def mk_src(full: bool):
            base = base_sources()

            def src(e, text):
                if text == "self._residuals[label]":
                    return arr(flat("G", "M")) if full else ("list", "G", arr("M"))
                if text == "self._clps[label]":
                    return arr(flat("K", "C")) if full else ("list", "G", arr("C"))
                if text == "clp_labels":
                    return ("labels", "C")
                if text == "global_clp_labels":
                    return ("labels", "K")
                if text == "model_axis":
                    return arr("M")
                if text == "global_axis":
                    return arr("G")
                if text.endswith("get_matrix_container(label).clp_labels"):
                    return ("labels", "C")
                return base(e, text)
            return src

        n = 0
        for full, block in ((True, full_if.body), (False, full_if.orelse)):
            evg = ShapeEval(flg, mk_src(full))
            n += _check_dataarrays(ctx, gr, evg, f"EstimationProviderUnlinked.get_result/{'full' if full else 'per-index'}", rule=rule,
                                   where=lambda c, block=block: any(lib.is_inside(c, b) for b in block))
            for node, msg in evg.problems:
                ctx.ob(rule, f"EstimationProviderUnlinked.get_result/{'full' if full else 'per-index'}/layout", False, gr, lib.stmt_of(node), msg)
        ctx.sites(rule, "DataArray constructions in unlinked get_result", n, 4)
    # (e) linked get_result
    gl = ctx.fn(EST, "EstimationProviderLinked.get_result")
    fll = lib.flow(gl, repo)

    def src_l(e, text):
        if text.startswith("self._residuals[index]"):
            return arr("M")
        if text == "range(self._data_provider.aligned_global_axis.size)":
            return None
        if text == "self._data_provider.aligned_global_axis":
            return arr("G")
        return None

    evl = ShapeEval(fll, src_l)
    n = _check_dataarrays(ctx, gl, evl, "EstimationProviderLinked.get_result", rule=rule, where=lambda c: "dataset_residual" in norm(c.args[0]))
    ctx.sites(rule, "residual DataArray in linked get_result", n, 1)
    # (f) matrices
    mg = ctx.fn(MAT, "MatrixProvider.get_result")
    txt = norm(mg.node)
    ok = "(model_dimension, model_axis), ('clp_label', matrix_container.clp_labels)" in txt and \
         "((global_dimension, global_axis), matrix_coords[0], matrix_coords[1])" in txt.replace("\n", " ")
    ctx.ob(rule, "MatrixProvider.get_result/matrix-coords", ok, mg, mg.node,
           "matrix coords are (model, clp_label), preceded by global for index dependent matrices (G,M,C)",
           construct="matrix_coords = ((model_dimension, model_axis), ('clp_label', labels)) | ((global_dimension, global_axis), *matrix_coords)")
    okg = "((global_dimension, global_axis), ('global_clp_label', matrix_container.clp_labels))" in txt
    ctx.ob(rule, "MatrixProvider.get_result/global-matrix-coords", okg, mg, mg.node, "global matrix coords are (global, global_clp_label)",
           construct="coords=((global_dimension, global_axis), ('global_clp_label', labels))")
    # (g)/(h) column selection by global position
    cp = ctx.fn(MAT, "MatrixProviderUnlinked.calculate_prepared_matrices")
    comps = [n_ for n_ in lib.nodes(cp, ast.ListComp) if "create_weighted_matrix" in norm(n_.elt)]
    okc = False
    for comp in comps:
        g = comp.generators[0]
        if isinstance(g.iter, ast.Call) and norm(g.iter.func) == "enumerate" and isinstance(g.target, ast.Tuple):
            pos = norm(g.target.elts[0])
            call = next((x for x in ast.walk(comp.elt) if isinstance(x, ast.Call) and isinstance(x.func, ast.Attribute) and x.func.attr == "create_weighted_matrix"), None)
            if call is not None and call.args and norm(call.args[0]).replace(" ", "") == f"weight[:,{pos}]" and norm(call.func.value) == norm(g.target.elts[1]):
                okc = True
    ctx.ob(rule, "calculate_prepared_matrices/weight-column", okc, cp, comps[0] if comps else cp.node,
           "the matrix of global index i is weighted with column i of the (M,G) weight", construct=lib.short(comps[0], 110) if comps else "def")
    ce = ctx.fn(EST, "EstimationProviderUnlinked.calculate_estimation")
    cs = lib.method_calls(ce, "calculate_residual")
    okd = False
    for c in cs:
        loop = next((a for a in lib.ancestors(c, ce.node) if isinstance(a, ast.For)), None)
        if loop is not None and isinstance(loop.iter, ast.Call) and norm(loop.iter.func) == "enumerate" and isinstance(loop.target, ast.Tuple):
            pos = norm(loop.target.elts[0])
            if len(c.args) == 2 and norm(c.args[1]).replace(" ", "") == f"data[:,{pos}]" and norm(loop.iter.args[0]) == "global_axis":
                mc = norm(c.args[0])
                okd = mc.endswith(".matrix")
    ctx.ob(rule, "calculate_estimation/data-column", okd, ce, cs[0] if cs else ce.node,
           "the prepared matrix of global index i is fitted to column i of the (M,G) data", construct=lib.short(lib.stmt_of(cs[0]), 110) if cs else "def")


# ------------------------------------------------------------------------- R6
def r6(ctx, rule: str = "C03-R6") -> None:
    repo = ctx.repo
    lib.check_filled_items_fresh(ctx, rule)
    rc = ctx.fn(EST, "EstimationProvider.retrieve_clps")
    fl = lib.flow(rc, repo)
    p = rc.params()
    labels_p, red_labels_p, red_clps_p, index_p = p[1], p[2], p[3], p[4]
    inits = [d for d in fl.defs_of("clps") if d.kind == "assign"]
    ok = any(isinstance(d.value, ast.Call) and norm(d.value.func) in ("np.zeros", "numpy.zeros") and lib.xnorm(fl, d.value.args[0], d.stmt) == f"len({labels_p})" for d in inits)
    ctx.ob(rule, "retrieve_clps/zero-initialised", ok, rc, inits[0].stmt if inits else rc.node,
           "the full clp vector starts as zeros over the full label list (constrained clps stay exactly 0)")
    st = [(t, s) for t, s in lib.stores(rc) if isinstance(t, ast.Subscript) and norm(t.value) == "clps"]
    ctx.sites(rule, "stores into the expanded clp vector", len(st), 2)
    n_copy = n_rel = 0
    for t, s in st:
        it = fl.term(t.slice, s)
        vt = fl.term(s.value, s)
        ia = it.single_atom()
        # position of a label in the full label list
        is_pos_of = bool(ia and ia[0] == "mcall" and ia[2] == "index" and ia[1] == Poly.atom(("name", labels_p)).key())
        if not is_pos_of:
            ctx.ob(rule, "retrieve_clps/write-position", False, rc, s,
                   f"`{norm(t)}` must be written at `{labels_p}.index(<label>)` (position in the full label list); index term: {it!r}")
            continue
        label_term = Poly(dict(ia[3][0]))
        la = label_term.single_atom()
        va = vt.single_atom()
        if la and la[0] == "elem" and la[1] == Poly.atom(("name", red_labels_p)).key():
            n_copy += 1
            ok = bool(va and va[0] == "sub" and va[1] == Poly.atom(("name", red_clps_p)).key()
                      and va[2] == Poly.atom(("pos", Poly.atom(("name", red_labels_p)).key())).key())
            ctx.ob(rule, "retrieve_clps/copy-by-label", ok, rc, s,
                   "clps[position of label in full list] = reduced_clps[position of the same label in the reduced list]",
                   [f"value term: {vt!r}"])
        else:
            n_rel += 1
            # relation: clps[target_idx] = relation.parameter * clps[source_idx]
            txt = norm(s.value).replace(" ", "")
            ok = txt in ("relation.parameter*clps[source_idx]", "clps[source_idx]*relation.parameter")
            tgt_ok = "target" in repr(label_term)
            src_defs = [d for d in fl.defs_of("source_idx") if d.kind == "assign"]
            src_ok = any(norm(d.value) == f"{labels_p}.index(relation.source)" for d in src_defs)
            ctx.ob(rule, "retrieve_clps/relation-target", ok and tgt_ok and src_ok, rc, s,
                   "related clp: clps[index of relation.target] = relation.parameter * clps[index of relation.source], both in the full label list")

            def applies(test, pol, at):
                return pol and f"relation.applies({index_p})" in norm(test)
            ctx.ob(rule, "retrieve_clps/relation-on-interval", lib.guarded_by(fl, s, applies) is not None, rc, s,
                   "a relation is applied only where it applies on the global axis value")
    ctx.ob(rule, "retrieve_clps/has-copy-and-relation", n_copy == 1 and n_rel == 1, rc, rc.node,
           "one label-keyed copy of the reduced clps and one relation update", construct=f"{n_copy} copy / {n_rel} relation stores")
    # relation loop comes after the copy loop (it reads clps[source])
    loops = lib.nodes(rc, ast.For)
    if len(loops) >= 2:
        loops = sorted(loops, key=lambda n: n.lineno)
        ctx.ob(rule, "retrieve_clps/relations-after-copy", "enumerate(" in norm(loops[0].iter) and "clp_relations" in norm(loops[-1].iter), rc, loops[-1],
               "relations are evaluated after all reduced clps were copied (they read the source clp)")


def r4(ctx) -> None:
    """Stacking-order agreement of the linked providers (shared with C09-R4)."""
    from glint.rules.c09 import r4 as stacking

    stacking(ctx, rule="C03-R4")


def r7(ctx) -> None:
    """Result identities rest on the preparation order and on private data (shared with C02-R2 and C10-R3)."""
    from glint.rules import c02
    from glint.rules.c10 import r3 as ownership

    c02.r2(ctx, rule="C03-R7")
    ownership(ctx, rule="C03-R7", scope=("glotaran/optimization/data_provider.py",), floors=False)


def check(ctx) -> None:
    for g in check.groups:
        g(ctx)


check.groups = [r1, r2, r3, r4, r5, r6, r7]
