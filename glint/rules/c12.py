"""C12 - expression parameters always equal their expression."""

from __future__ import annotations

import ast
import re
import re._parser as sre_parse  # type: ignore[import-not-found]

from glint import lib
from glint.index import kwarg
from glint.index import norm

PS = "glotaran/parameter/parameters.py"
P = "glotaran/parameter/parameter.py"

DOC = {
    "explanation": (
        "Static decision of: the refresh call update_parameter_expression() post-dominating "
        "every value update of Parameters (constructor, set_from_label_and_value_arrays, hence "
        "set_from_history and copy) and dominating the export of arrays; the evaluation loop "
        "being order insensitive (enclosed in a fixed-point loop bounded by the number of "
        "expression parameters whose early exit compares old and new value before the store); "
        "the label language accepted by the label validator being included in the language the "
        "`$label` regex rewrites, and the rewrite template/evaluator symbol agreeing."
    ),
    "rules": {
        "C12-R1": "every method of Parameters that changes parameter values is post-dominated by update_parameter_expression(); get_label_value_and_bounds_arrays starts with it; Parameter values are stored nowhere else in the package",
        "C12-R2": "the expression evaluation loop is enclosed in a fixed-point loop over at least as many passes as there are expression parameters; an early exit is taken only when a pass changed nothing (comparison before the store, flag reset per pass)",
        "C12-R3": "every character allowed in a label is in the character class of the `$label` regex (greedy, one or more); the substitution uses the regex' group inside `parameters.get('<label>').value` and the evaluator's symbol table binds `parameters` to the container",
        "C12-R4": "every Parameters container evaluates its expressions on itself: `_evaluator` is stored only in `__init__` (bound to `self`), `Parameters.copy` and every alternative constructor build the new container through the constructor, no shallow copy (`copy.copy`, `__copy__`, `__new__`, `__dict__` transplant) of a container exists in the package, and the evaluation loop reads and writes the parameters of the same container the evaluator is bound to",
    },
    "declined": ["arbitrary asteval semantics of the expression text", "cyclic expressions (outside the property's quantifier)"],
    "assumptions": ["attrs `define` re-runs validators on attribute assignment (on_setattr default)"],
}


def _update_calls(fi):
    return [c for c in lib.method_calls(fi, "update_parameter_expression") if lib.chain_text(c.func.value) == "self"]


def r1(ctx, rule: str = "C12-R1") -> None:
    repo = ctx.repo
    init = ctx.fn(PS, "Parameters.__init__")
    cfg = lib.cfg(init)
    ups = _update_calls(init)
    st = [lib.stmt_of(c) for c in ups]
    ok = bool(st) and not cfg.exists_path(cfg.entry, cfg.exit, avoid=st, exc=False)
    ctx.ob(rule, "Parameters.__init__/refresh", ok, init, st[0] if st else init.node,
           "construction (also reached by copy, from_list, from_dict, from_dataframe, loading) ends with a refresh of "
           "the expression parameters on every path", construct=lib.short(st[0]) if st else "def __init__")
    if st:
        for attr in ("self._parameters", "self._evaluator"):
            ss = lib.attr_stores(init, attr)
            ctx.ob(rule, f"Parameters.__init__/{attr}-before-refresh", bool(ss) and all(cfg.dominates(s, st[0]) for _, s in ss), init,
                   ss[0][1] if ss else init.node, f"{attr} is set before the first refresh")
    # every classmethod constructor goes through cls(...)/Parameters(...)
    cls = repo.cls(PS, "Parameters")
    for m in cls.methods.values():
        if m.is_classmethod():
            ctx.touch(m)
            rets = lib.nodes(m, ast.Return)
            for r in rets:
                v = r.value
                ok = isinstance(v, ast.Call) and (norm(v.func) in ("cls", "Parameters") or norm(v.func).startswith("cls."))
                ctx.ob(rule, f"Parameters.{m.name}/constructs-through-init", ok, m, r,
                       "alternative constructors must build the container through __init__ (which refreshes)")
    sf = ctx.fn(PS, "Parameters.set_from_label_and_value_arrays")
    cfg = lib.cfg(sf)
    ups = [lib.stmt_of(c) for c in _update_calls(sf)]
    setters = [lib.stmt_of(c) for c in lib.method_calls(sf, "set_value_from_optimization")]
    ctx.sites(rule, "value setters in set_from_label_and_value_arrays", len(setters), 1)
    for s in setters:
        ok = bool(ups) and not cfg.exists_path(s, cfg.exit, avoid=ups, exc=False)
        ctx.ob(rule, "set_from_label_and_value_arrays/refresh-after-update", ok, sf, s,
               "every path from a value update to the return passes update_parameter_expression()")
    sh = ctx.fn(PS, "Parameters.set_from_history")
    cs = [c for c in lib.method_calls(sh, "set_from_label_and_value_arrays") if lib.chain_text(c.func.value) == "self"]
    cfgh = lib.cfg(sh)
    ok = bool(cs) and not cfgh.exists_path(cfgh.entry, cfgh.exit, avoid=[lib.stmt_of(c) for c in cs] + [lib.stmt_of(c) for c in _update_calls(sh)], exc=False)
    ctx.ob(rule, "set_from_history/delegates", ok, sh, cs[0] if cs else sh.node,
           "set_from_history updates through set_from_label_and_value_arrays (which refreshes)",
           construct=lib.short(cs[0], 80) if cs else "def set_from_history")
    ge = ctx.fn(PS, "Parameters.get_label_value_and_bounds_arrays")
    cfgg = lib.cfg(ge)
    ups = [lib.stmt_of(c) for c in _update_calls(ge)]
    reads = [lib.stmt_of(c) for c in lib.method_calls(ge, "get_value_and_bounds_for_optimization")]
    reads += [lib.stmt_of(n) for n in lib.nodes(ge, ast.Attribute) if n.attr == "value" and isinstance(n.ctx, ast.Load)]
    ctx.sites(rule, "value reads in get_label_value_and_bounds_arrays", len(reads), 1)
    for s in reads:
        ctx.ob(rule, "get_label_value_and_bounds_arrays/refresh-first", bool(ups) and any(cfgg.dominates(u, s) for u in ups), ge, s,
               "the export of the arrays is dominated by a refresh of the expression parameters")
    # who stores Parameter.value
    allowed = {("glotaran/parameter/parameters.py", "Parameters.update_parameter_expression"),
               ("glotaran/parameter/parameter.py", "Parameter.set_value_from_optimization")}
    n = 0
    for fi in repo.functions.values():
        if not (fi.rel.startswith("glotaran/parameter/") or fi.rel.startswith("glotaran/optimization/")
                or fi.rel.startswith("glotaran/model/") or fi.rel.startswith("glotaran/project/")
                or fi.rel.startswith("glotaran/simulation/") or fi.rel.startswith("glotaran/builtin/")):
            continue
        for t, s in lib.stores(fi):
            if isinstance(t, ast.Attribute) and t.attr == "value" and not isinstance(s, (ast.For, ast.With)):
                recv = norm(t.value)
                # only Parameter-like receivers: names containing 'param' or self inside class Parameter
                is_param = "param" in recv.lower() or (recv == "self" and fi.cls is not None and fi.cls.name == "Parameter")
                if not is_param:
                    continue
                n += 1
                ctx.ob(rule, f"package/value-store:{fi.short}", (fi.rel, fi.short) in allowed, fi, s,
                       "Parameter.value is stored only by the expression refresh and by set_value_from_optimization "
                       "(whose callers refresh afterwards)")
    ctx.sites(rule, "Parameter.value stores", n, 2)
    # callers of set_value_from_optimization
    for fi in repo.functions.values():
        for c in lib.method_calls(fi, "set_value_from_optimization"):
            ctx.ob(rule, f"package/setter-caller:{fi.short}", (fi.rel, fi.short) == (PS, "Parameters.set_from_label_and_value_arrays"),
                   fi, lib.stmt_of(c), "set_value_from_optimization is only called from set_from_label_and_value_arrays")


def r2(ctx, rule: str = "C12-R2") -> None:
    repo = ctx.repo
    up = ctx.fn(PS, "Parameters.update_parameter_expression")
    fl = lib.flow(up, repo)
    cfg = fl.cfg
    # the helper that decides "unchanged" must itself be exact
    hp = ctx.fn("glotaran/utils/helpers.py", "nan_or_equal")
    approx = [c for c in lib.calls(hp) if norm(c.func).split(".")[-1] in ("isclose", "allclose", "approx", "round", "around", "abs", "fabs", "isclose_")]
    eqs = [n for n in lib.nodes(hp, ast.Compare) if len(n.ops) == 1 and isinstance(n.ops[0], ast.Eq)
           and {norm(n.left), norm(n.comparators[0])} == set(hp.params()[:2])]
    orders = [n for n in lib.nodes(hp, ast.Compare) if any(isinstance(o, (ast.Lt, ast.LtE, ast.Gt, ast.GtE)) for o in n.ops)]
    rets = lib.nodes(hp, ast.Return)
    ctx.ob(rule, "nan_or_equal/exact", not approx and not orders and bool(eqs) and all(any(lib.is_inside(e, r) for e in eqs) for r in rets), hp,
           approx[0] if approx else hp.node,
           "`nan_or_equal(a, b)` is `a == b` or both NaN: the fixed point of the expressions stops on it, so any tolerance (isclose, rounding, "
           "|a-b| < eps) leaves dependent parameters stale after steps below the tolerance",
           construct=lib.short(approx[0], 100) if approx else "def nan_or_equal")
    # which parameters are refreshed: exactly those that currently have an expression
    sel = [d for d in fl.defs_of("expression_parameters") if d.kind == "assign"]
    ok_sel = False
    if len(sel) == 1 and isinstance(sel[0].value, ast.ListComp) and len(sel[0].value.generators) == 1:
        g = sel[0].value.generators[0]
        v = norm(g.target)
        ok_sel = norm(g.iter) == "self.all()" and norm(sel[0].value.elt) == v and len(g.ifs) == 1 and norm(g.ifs[0]) in (
            f"{v}.expression is not None", f"{v}.expression")
    ctx.ob(rule, "update_parameter_expression/selects-by-current-expression", ok_sel, up, sel[0].stmt if sel else up.node,
           "the parameters refreshed are all parameters whose `expression` is set now (the derived `transformed_expression` survives "
           "`expression = None` and would keep overwriting a released parameter)", construct=lib.short(sel[0].stmt, 110) if sel else "def")
    evals = [c for c in lib.calls(up) if lib.chain_text(c.func) == "self._evaluator"]
    ctx.sites(rule, "evaluator calls", len(evals), 1)
    for ev in evals:
        inner = None
        loops = [a for a in lib.ancestors(ev, up.node) if isinstance(a, (ast.For, ast.While))]
        if not ctx.ob(rule, "update_parameter_expression/in-loop", bool(loops), up, lib.stmt_of(ev),
                      "expressions are evaluated in a loop over the parameters"):
            continue
        inner = loops[0]
        outer = loops[1] if len(loops) > 1 else None
        if not ctx.ob(rule, "update_parameter_expression/fixed-point-loop", outer is not None, up, inner,
                      "a single pass in declaration order leaves parameters that depend on later expression parameters "
                      "stale; the pass must be repeated (fixed point) or run in dependency order",
                      construct="for " + norm(inner.target) + " in " + norm(inner.iter) if isinstance(inner, ast.For) else "while"):
            continue
        # store of the evaluated value
        vstores = [(t, s) for t, s in lib.stores(inner) if isinstance(t, ast.Attribute) and t.attr == "value"]
        ctx.ob(rule, "update_parameter_expression/stores-value", len(vstores) >= 1, up, vstores[0][1] if vstores else inner,
               "the evaluated expression is stored as the parameter's value")
        # bound of the outer loop
        bound_ok = False
        trace = []
        if isinstance(outer, ast.For) and isinstance(outer.iter, ast.Call) and norm(outer.iter.func) == "range" and len(outer.iter.args) == 1:
            bt = fl.term(outer.iter.args[0], outer)
            it_t = fl.term(inner.iter, inner) if isinstance(inner, ast.For) else None
            trace.append(f"bound = {bt!r}")
            atoms = bt.all_atoms()
            lens = [a for a in atoms if a[0] == "call" and a[1] == "len"]
            if it_t is not None:
                for a in lens:
                    if a[2] == (it_t.key(),):
                        bound_ok = True
                    # len over a superset (all parameters) is also a sufficient bound
                    if "all" in repr(a[2]) and "comp" not in repr(a[2]):
                        bound_ok = True
            # the bound must not be reduced below len: accept len(X) and max(len(X), c)
            sa = bt.single_atom()
            if bound_ok and not (sa is not None and (sa in lens or (sa[0] == "call" and sa[1] == "max"))):
                bound_ok = False
                trace.append("bound is not len(X) / max(len(X), c)")
            if bound_ok and sa is not None and sa[0] == "call" and sa[1] == "max":
                # max(len(X), c): one argument is exactly len(X), the others are constants (len(X) - 1 is one pass short)
                from glint.terms import Poly as _P
                args = [_P(dict(k)) for k in sa[2]]
                exact = [a for a in args if a.single_atom() in lens]
                consts = [a for a in args if a.const_value() is not None]
                if not (len(exact) >= 1 and len(exact) + len(consts) == len(args)):
                    bound_ok = False
                    trace.append("an argument of max() is neither len(X) nor a constant")
        elif isinstance(outer, ast.While):
            bound_ok = True  # flag controlled; checked below
        ctx.ob(rule, "update_parameter_expression/pass-bound", bound_ok, up, outer,
               "the number of passes is at least the number of expression parameters (longest dependency chain)", trace,
               construct=("for _ in " + norm(outer.iter)) if isinstance(outer, ast.For) else "while " + norm(outer.test))
        # early exits of the outer loop
        breaks = [b for b in lib.nodes(outer, ast.Break) if not lib.is_inside(b, inner)]
        flag_names = set()
        for b in breaks:
            g = None
            for a in lib.ancestors(b, outer):
                if isinstance(a, ast.If) and lib.field_of(b, a) == "body":
                    g = a
                    break
            fname = g.test.id if g is not None and isinstance(g.test, ast.Name) else None
            if not ctx.ob(rule, "update_parameter_expression/break-guarded", fname is not None, up, b,
                          "an early exit of the fixed-point loop must be guarded by the 'nothing changed' flag"):
                continue
            flag_names.add(fname)
            ctx.ob(rule, "update_parameter_expression/break-after-pass", not lib.is_inside(b, inner) and g.lineno > inner.lineno, up, g,
                   "the early exit is tested after the pass")
        if isinstance(outer, ast.While) and isinstance(outer.test, ast.Name):
            flag_names.add(outer.test.id)
        for fname in sorted(flag_names):
            defs = [d for d in fl.defs_of(fname) if d.node is not None]
            in_outer = [d for d in defs if lib.is_inside(d.stmt, outer)]
            resets = [d for d in in_outer if not lib.is_inside(d.stmt, inner)]
            changes = [d for d in in_outer if lib.is_inside(d.stmt, inner)]
            ok_reset = bool(resets) and all(r.stmt.lineno < inner.lineno for r in resets)
            ctx.ob(rule, f"update_parameter_expression/flag-reset:{fname}", ok_reset, up, resets[0].stmt if resets else outer,
                   "the flag is re-initialised at the start of every pass")
            ok_change = False
            trace = []
            for d in changes:
                g = None
                for a in lib.ancestors(d.stmt, inner):
                    if isinstance(a, ast.If) and lib.field_of(d.stmt, a) == "body":
                        g = a
                        break
                if g is None:
                    trace.append("flag changed unconditionally")
                    continue
                t = norm(g.test)
                # the comparison must be exact: a tolerance (isclose/allclose/abs(..) < eps) stops the fixed point
                # early and leaves dependent parameters stale after small optimiser steps
                compares_value = False
                for sub in ast.walk(g.test):
                    involved = ".value" in norm(sub)
                    if isinstance(sub, ast.Call) and involved:
                        fn_ = norm(sub.func).split(".")[-1]
                        if fn_ == "nan_or_equal" and len(sub.args) == 2:
                            compares_value = True
                        elif fn_ in ("isclose", "allclose", "approx", "round", "abs", "fabs"):
                            compares_value = False
                            trace.append(f"tolerance based comparison `{norm(sub)}`")
                            break
                    if isinstance(sub, ast.Compare) and involved and len(sub.ops) == 1:
                        if isinstance(sub.ops[0], (ast.Eq, ast.NotEq)):
                            compares_value = True
                        elif isinstance(sub.ops[0], (ast.Lt, ast.LtE, ast.Gt, ast.GtE)):
                            compares_value = False
                            trace.append(f"ordering comparison on values `{norm(sub)}`")
                            break
                before_store = all(cfg.exists_path(g, s, exc=False) and not cfg.exists_path(s, g, avoid=[inner], exc=False)
                                   for _, s in vstores)
                trace.append(f"test `{t}` compares old/new: {compares_value}; precedes the store: {before_store}")
                if compares_value and before_store:
                    ok_change = True
            ctx.ob(rule, f"update_parameter_expression/flag-set-on-change:{fname}", ok_change, up,
                   changes[0].stmt if changes else inner,
                   "within a pass the flag records a change by comparing the previous value with the new one before the "
                   "new value is stored", trace)
    # non numeric results are rejected
    rs = lib.raises(up)
    ctx.ob(rule, "update_parameter_expression/non-numeric-rejected", any(lib.raised_name(repo, up, r) == "ValueError" for r in rs),
           up, rs[0] if rs else up.node, "a non numeric expression result raises ValueError", construct=lib.short(rs[0], 60) if rs else "def")


def r3(ctx) -> None:
    repo = ctx.repo
    mi = repo.module(P)
    rx = mi.assigns.get("PARAMETER_EXPRESSION_REGEX")
    vl = mi.assigns.get("VALID_LABEL_REGEX")
    if not (isinstance(rx, ast.Call) and isinstance(vl, ast.Call)):
        from glint.index import AnalysisError
        raise AnalysisError("C12-R3: PARAMETER_EXPRESSION_REGEX / VALID_LABEL_REGEX anchors vanished")
    pat = lib.const_str(rx.args[0])
    parsed = sre_parse.parse(pat)
    items = list(parsed)
    ok_dollar = bool(items) and str(items[0][0]) == "LITERAL" and items[0][1] == ord("$")
    group = None
    gname = None
    if len(items) > 1 and str(items[1][0]) == "SUBPATTERN":
        gid = items[1][1][0]
        for k, v in parsed.state.groupdict.items():
            if v == gid:
                gname = k
        group = list(items[1][1][3])
    cls_ok = False
    trace = [f"regex: {pat}"]
    if group and len(group) == 1 and str(group[0][0]) in ("MAX_REPEAT",):
        lo, hi, sub = group[0][1]
        sub = list(sub)
        if lo >= 1 and str(hi) == "MAXREPEAT" and len(sub) == 1 and str(sub[0][0]) == "IN":
            members = sub[0][1]
            has_word = any(str(o) == "CATEGORY" and str(a) == "CATEGORY_WORD" for o, a in members)
            has_dot = any(str(o) == "LITERAL" and a == ord(".") for o, a in members)
            negated = any(str(o) == "NEGATE" for o, a in members)
            cls_ok = has_word and has_dot and not negated
            trace.append(f"class has \\w: {has_word}, '.': {has_dot}, negated: {negated}, repeat {lo}..{hi}")
    fake = type("F", (), {})
    ctx.ob("C12-R3", "PARAMETER_EXPRESSION_REGEX/covers-label-language", ok_dollar and cls_ok and gname is not None, None, rx,
           "the `$label` pattern is `$` followed by one or more (greedy) characters from a class that contains every "
           "label character: word characters and '.'", trace, construct=f"PARAMETER_EXPRESSION_REGEX = {norm(rx)}")
    # label validator: label.replace('.', '_') must not contain \W (ASCII)
    vpat = lib.const_str(vl.args[0])
    flags = kwarg(vl, "flags")
    vlf = ctx.fn(P, "valid_label")
    body = norm(vlf.node)
    ok_v = vpat == r"\W" and flags is not None and "ASCII" in norm(flags) and "VALID_LABEL_REGEX.search(label.replace('.', '_'))" in body \
        and any(lib.raised_name(repo, vlf, r) == "ValueError" for r in lib.raises(vlf))
    ctx.ob("C12-R3", "valid_label/label-language", ok_v, vlf, vlf.node,
           "labels consist of ASCII word characters and '.', anything else raises ValueError "
           "(so the label language is included in the class of the `$label` pattern)",
           construct=f"VALID_LABEL_REGEX = {norm(vl)}; search(label.replace('.', '_'))")
    pcls = repo.cls(P, "Parameter")
    lab = pcls.class_assigns.get("label")
    ctx.ob("C12-R3", "Parameter.label/validated", lab is not None and "valid_label" in norm(lab), None, lab or pcls.node,
           "the label attribute is validated by valid_label", construct=f"label = {norm(lab) if lab is not None else '?'}")
    exp = pcls.class_assigns.get("expression")
    ctx.ob("C12-R3", "Parameter.expression/validated", exp is not None and "set_transformed_expression" in norm(exp), None, exp or pcls.node,
           "assigning an expression (re)computes the transformed expression", construct=f"expression = {norm(exp) if exp is not None else '?'}")
    # substitution template
    ste = ctx.fn(P, "set_transformed_expression")
    subs = [c for c in lib.method_calls(ste, "sub") if "PARAMETER_EXPRESSION_REGEX" in norm(c.func.value)]
    ctx.sites("C12-R3", "rewrite call", len(subs), 1)
    tmpl = lib.const_str(subs[0].args[0]) or ""
    m = re.fullmatch(r"(\w+)\.get\('\\g<(\w+)>'\)\.value", tmpl)
    init = ctx.fn(PS, "Parameters.__init__")
    sym = None
    for c in lib.calls(init):
        if norm(c.func).endswith("make_symbol_table"):
            for k in c.keywords:
                if norm(k.value) == "self":
                    sym = k.arg
    ok_t = bool(m) and m.group(2) == gname and sym is not None and m.group(1) == sym
    ctx.ob("C12-R3", "set_transformed_expression/template", ok_t, ste, subs[0],
           "`$label` is rewritten to `<symbol>.get('<label>').value` using the regex' group, and <symbol> is the name under "
           "which the evaluator's symbol table holds the Parameters container",
           [f"template: {tmpl}", f"group: {gname}", f"evaluator symbol bound to self: {sym}"])
    getm = ctx.fn(PS, "Parameters.get")
    ok_g = any(isinstance(n, ast.Subscript) and lib.chain_text(n.value) == "self._parameters" and norm(n.slice) == getm.params()[1]
               for n in lib.nodes(getm, ast.Subscript))
    ctx.ob("C12-R3", "Parameters.get/by-full-label", ok_g, getm, getm.node, "get(label) looks the full label up", construct="self._parameters[label]")
    _ = fake


def r4(ctx, rule: str = "C12-R4") -> None:
    repo = ctx.repo
    cls = repo.cls(PS, "Parameters")
    init = ctx.fn(PS, "Parameters.__init__")
    # 1. the evaluator is created in __init__ only, bound to self
    n = 0
    for fi in repo.functions.values():
        for t, st in lib.stores(fi):
            if isinstance(t, ast.Attribute) and t.attr == "_evaluator":
                n += 1
                ctx.ob(rule, f"{fi.short}/evaluator-created-in-init-only", fi is init and norm(t.value) == "self", fi, st,
                       "an evaluator is bound to one container for its whole life: it is stored in Parameters.__init__ only",
                       construct=lib.short(st, 120))
    ctx.sites(rule, "stores of _evaluator", n, 1)
    bound = False
    for c in lib.calls(init):
        if norm(c.func).endswith("make_symbol_table"):
            bound = any(isinstance(k.value, ast.Name) and k.value.id == "self" for k in c.keywords)
    ctx.ob(rule, "Parameters.__init__/evaluator-bound-to-self", bound, init, init.node, "the symbol table holds the container under construction")
    # 2. copy builds a new container through the constructor
    cp = ctx.fn(PS, "Parameters.copy")
    fl = lib.flow(cp, repo)
    rets = lib.nodes(cp, ast.Return)
    ok = bool(rets)
    for r in rets:
        v = fl.inline(r.value, r) if r.value is not None else None
        if isinstance(v, ast.Name):
            ds = fl.reaching(v.id, r)
            ok = ok and bool(ds) and all(d.kind == "assign" and isinstance(d.value, ast.Call) and norm(d.value.func) in ("Parameters", "type(self)", "self.__class__") for d in ds)
        else:
            ok = ok and isinstance(v, ast.Call) and norm(v.func) in ("Parameters", "type(self)", "self.__class__")
    ctx.ob(rule, "Parameters.copy/new-container-through-init", ok, cp, rets[0] if rets else cp.node,
           "a copy gets its own evaluator only if it is built by the constructor; a shallow copy keeps evaluating on the original's values",
           construct=lib.short(rets[0], 120) if rets else "def copy")
    # 3. nothing in the package makes a shallow copy or bypasses __init__
    bad_methods = [m for m in ("__copy__", "__deepcopy__", "__new__", "__reduce__", "__reduce_ex__", "__getstate__", "__setstate__") if m in cls.methods]
    ctx.ob(rule, "Parameters/no-copy-protocol-overrides", not bad_methods, None, cls.node, "the container does not customise copying/pickling",
           construct=", ".join(bad_methods) or "class Parameters")
    scanned = 0
    for fi in repo.functions.values():
        if not fi.rel.startswith(("glotaran/parameter/", "glotaran/optimization/", "glotaran/project/", "glotaran/builtin/io/", "glotaran/simulation/", "glotaran/model/")):
            continue
        scanned += 1
        for c in lib.calls(fi):
            q = lib.resolved(repo, fi, c.func) or ""
            txt = norm(c.func)
            if q in ("copy.copy",) or txt.endswith("__new__") or (txt.endswith("__dict__.update") and fi.cls == "Parameters"):
                ctx.ob(rule, f"{fi.short}/no-shallow-copy", False, fi, c,
                       "shallow copies share the expression evaluator (and the parameter objects) with the original", construct=lib.short(c, 100))
    ctx.ob(rule, "package/no-shallow-copy", True, None, cls.node, f"{scanned} functions scanned for copy.copy / __new__ / __dict__ transplants")
    # 4. the loop evaluates and stores on the evaluator's own container
    up = ctx.fn(PS, "Parameters.update_parameter_expression")
    evals = [c for c in lib.calls(up) if lib.chain_text(c.func) == "self._evaluator"]
    flu = lib.flow(up, repo)
    loops = [lp for lp in lib.nodes(up, ast.For) if any(lib.is_inside(c, lp) for c in evals) and not isinstance(lp.target, ast.Name) or
             (isinstance(lp.target, ast.Name) and lp.target.id != "_" and any(lib.is_inside(c, lp) for c in evals))]

    def from_self(e, at, depth=3):
        if "self" in lib.names_in(e):
            return True
        if depth and isinstance(e, ast.Name):
            ds = flu.reaching(e.id, at)
            return bool(ds) and all(d.value is not None and from_self(d.value, d.stmt, depth - 1) for d in ds)
        return False

    own = bool(loops) and all(from_self(lp.iter, lp) for lp in loops)
    ctx.ob(rule, "update_parameter_expression/own-container", own and bool(evals), up, loops[0] if loops else up.node,
           "the parameters refreshed are those of the container whose evaluator is called")


def check(ctx) -> None:
    for g in check.groups:
        g(ctx)


check.groups = [r1, r2, r3, r4]
