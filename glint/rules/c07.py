"""C07 - oscillation, artifact and spectral basis functions obey their definitions."""

from __future__ import annotations

import ast

from glint import lib
from glint.fc import ref_flow
from glint.fc import to_ref_names
from glint.index import norm
from glint.terms import Poly

DOA = "glotaran/builtin/megacomplexes/damped_oscillation/damped_oscillation_megacomplex.py"
PFD = "glotaran/builtin/megacomplexes/pfid/pfid_megacomplex.py"
COH = "glotaran/builtin/megacomplexes/coherent_artifact/coherent_artifact_megacomplex.py"
SHP = "glotaran/builtin/megacomplexes/spectral/shape.py"
DUT = "glotaran/builtin/megacomplexes/decay/util.py"

DOC = {
    "explanation": (
        "Static decision of: zero initialisation of every array that is accumulated into "
        "(directly or through an accumulating kernel, computed as a fixpoint over the "
        "megacomplex package); one effective IRF position - the coefficient of the per-index "
        "shift in the time origin used by decay, coherent artifact, damped oscillation and "
        "PFID (affine-coefficient extraction from reaching-definition terms); formula "
        "conformance of oscillation, artifact and spectral-shape basis functions against "
        "independently written references; exhaustiveness of the artifact orders."
    ),
    "rules": {
        "C07-R6": "damped oscillation and PFID: the label list, the kernel without IRF, the kernel with IRF and the complex split all use one column layout (cos/real 0..n-1, sin/imag n..2n-1), so the formula checked per kernel is the formula of the column the label names (shared with C06-R2)",
        "C07-R1": "every array that reaches a += accumulation (also through a kernel's out-parameter) is allocated with np.zeros",
        "C07-R2": "the time origin of decay, coherent artifact, damped oscillation and PFID is affine in (centre, shift) with the same coefficient of shift (centre - shift)",
        "C07-R3": "no-IRF oscillation exp(-rate t - i f t); IRF form exp((-t + dk/2) k) (1 + erf((t - dk)/(sqrt2 w))) with dk = k w^2, k = rate + i f, summed over Gaussians and divided by sum(scales); artifact g, g (c-t)/w^2, g ((t-c)^2 - w^2)/w^4 with g = exp(-(t-c)^2/(2 w^2)); Gaussian shape exp(-ln2 (2(x-x0)/D)^2), skewed variant exp(-ln2 (ln(1 + 2b(x-x0)/D)/b)^2) where the log argument is positive, 0 elsewhere; amplitude applied when given",
        "C07-R5": "no megacomplex modifies an axis or parameter array it was handed in place (a column computed on an axis that was rescaled by an earlier evaluation no longer follows the documented formula); only declared out-parameter kernels fill the caller's fresh matrix",
        "C07-R4": "coherent artifact: orders 1..3 accepted; column k is written iff order > k; labels and matrix have `order` columns",
    },
    "declined": ["continuity as skewness -> 0 and proportionality constants (numeric)", "that the IRF form equals the convolution integral (mathematics)"],
    "assumptions": ["scipy.special.erf accepts complex arguments"],
}

ZERO_ALLOC = {"np.zeros", "numpy.zeros", "np.zeros_like", "numpy.zeros_like"}
OTHER_ALLOC = {"np.ones", "np.empty", "np.full", "np.ones_like", "np.empty_like", "np.full_like", "numpy.ones", "numpy.empty", "numpy.full"}


def _accumulating(repo) -> dict[str, set[int]]:
    """function qualname -> parameter indexes it accumulates into (+= / -= / /= read-modify-write)."""
    acc: dict[str, set[int]] = {}
    fns = [fi for fi in repo.functions.values() if fi.rel.startswith("glotaran/builtin/megacomplexes/") or fi.rel.endswith("optimization/matrix_provider.py")]
    for fi in fns:
        ps = fi.params()
        for t, s in lib.stores(fi):
            if isinstance(s, ast.AugAssign) and isinstance(s.op, (ast.Add, ast.Sub)):
                base = t.value if isinstance(t, ast.Subscript) else t
                if isinstance(base, ast.Name) and base.id in ps:
                    acc.setdefault(fi.qualname, set()).add(ps.index(base.id))
    changed = True
    while changed:
        changed = False
        for fi in fns:
            ps = fi.params()
            for c in lib.calls(fi):
                q = repo.resolve_expr(fi.module, c.func)
                if q in acc:
                    for idx in acc[q]:
                        if idx < len(c.args):
                            a = c.args[idx]
                            base = a.value if isinstance(a, ast.Subscript) else a
                            if isinstance(base, ast.Name) and base.id in ps and ps.index(base.id) not in acc.get(fi.qualname, set()):
                                acc.setdefault(fi.qualname, set()).add(ps.index(base.id))
                                changed = True
    return acc


def r1(ctx) -> None:
    repo = ctx.repo
    acc = _accumulating(repo)
    ctx.sites("C07-R1", "accumulating functions", len(acc), 5)
    n = 0
    fns = [fi for fi in repo.functions.values() if fi.rel.startswith("glotaran/builtin/megacomplexes/") or fi.rel.endswith("optimization/matrix_provider.py")]
    for fi in fns:
        fl = None
        allocs = {}
        for t, s in lib.stores(fi):
            if isinstance(s, ast.Assign) and isinstance(t, ast.Name) and isinstance(s.value, ast.Call) and norm(s.value.func) in ZERO_ALLOC | OTHER_ALLOC:
                allocs.setdefault(t.id, []).append(s)
        if not allocs:
            continue
        ctx.touch(fi)
        for var, sts in allocs.items():
            accumulated = []
            for t, s in lib.stores(fi):
                if isinstance(s, ast.AugAssign) and isinstance(s.op, (ast.Add, ast.Sub)):
                    base = t.value if isinstance(t, ast.Subscript) else t
                    if isinstance(base, ast.Name) and base.id == var:
                        accumulated.append(s)
            for c in lib.calls(fi):
                q = repo.resolve_expr(fi.module, c.func)
                if q in acc:
                    for idx in acc[q]:
                        if idx < len(c.args):
                            a = c.args[idx]
                            base = a.value if isinstance(a, ast.Subscript) else a
                            if isinstance(base, ast.Name) and base.id == var:
                                accumulated.append(lib.stmt_of(c))
            if not accumulated:
                continue
            for s in sts:
                n += 1
                ctx.ob("C07-R1", f"{fi.short}/zero-initialised:{var}", norm(s.value.func) in ZERO_ALLOC, fi, s,
                       f"`{var}` is accumulated into (e.g. `{lib.short(accumulated[0], 60)}`): it must start from zeros, any other "
                       "initial value is added to every column")
    ctx.sites("C07-R1", "accumulator allocations", n, 6)


def _shift_sign(fl, expr, at, center_names, shift_name):
    """Coefficient of shift relative to the coefficient of the centre in a term."""
    t = fl.term(expr, at)
    sh = [a for a in t.atoms() if shift_name in repr(a)]
    ce = [a for a in t.atoms() if any(c in repr(a) for c in center_names) and shift_name not in repr(a)]
    if len(sh) != 1 or len(ce) != 1:
        return None, t
    cs = t.coefficient_of(sh[0]).const_value()
    cc = t.coefficient_of(ce[0]).const_value()
    if cs is None or cc is None or cc == 0:
        return None, t
    return cs / cc, t


def r2(ctx) -> None:
    repo = ctx.repo
    sites = []
    # decay (index dependent and independent): effective centre handed to the kernel
    f = ctx.fn(DUT, "decay_matrix_implementation_index_dependent")
    fl = lib.flow(f, repo)
    ap = [c for c in lib.method_calls(f, "append") if norm(c.func.value) == "all_centers"]
    if ap:
        r, t = _shift_sign(fl, ap[0].args[0], lib.stmt_of(ap[0]), ["(0,)"], "(3,)")
        sites.append(("decay (index dependent)", f, lib.stmt_of(ap[0]), r, t, "centre"))
    f2 = ctx.fn(DUT, "decay_matrix_implementation_index_independent")
    fl2 = lib.flow(f2, repo)
    kc = [c for c in lib.calls(f2) if norm(c.func) == "calculate_decay_matrix_gaussian_irf_on_index"]
    if kc:
        r, t = _shift_sign(fl2, kc[0].args[3], lib.stmt_of(kc[0]), ["(0,)"], "(3,)")
        sites.append(("decay (index independent)", f2, lib.stmt_of(kc[0]), r, t, "centre"))
    f3 = ctx.fn(COH, "CoherentArtifactMegacomplex.get_irf_parameter")
    fl3 = lib.flow(f3, repo)
    rets = lib.nodes(f3, ast.Return)
    if rets and isinstance(rets[0].value, ast.Tuple):
        r, t = _shift_sign(fl3, rets[0].value.elts[0], rets[0], ["(0,)"], "(3,)")
        sites.append(("coherent artifact", f3, rets[0], r, t, "centre"))
    for rel, name, label in ((DOA, "calculate_damped_oscillation_matrix_gaussian_irf", "damped oscillation"), (PFD, "calculate_pfid_matrix_gaussian_irf", "pfid")):
        f4 = ctx.fn(rel, name)
        fl4 = lib.flow(f4, repo)
        ds = [d for d in fl4.defs_of("shifted_axis") if d.kind == "assign"]
        if ds:
            t = fl4.term(ds[0].value, ds[0].node)
            p = f4.params()
            cs = t.coefficient_of(("name", "shift")).const_value()
            cc = t.coefficient_of(("name", "center")).const_value()
            r = (cs / cc) if cs is not None and cc not in (None, 0) else None
            # shifted axis = t - origin: origin = -(centre part) => ratio shift/centre of the origin equals ratio in the axis
            sites.append((label, f4, ds[0].stmt, r, t, "axis"))
            _ = p
    ctx.sites("C07-R2", "time origin expressions", len(sites), 5)
    ref = sites[0][3] if sites else None
    for label, f, st, r, t, kind in sites:
        if label.startswith("decay"):
            ctx.ob("C07-R2", f"{label}/origin-is-centre-minus-shift", r == -1, f, st,
                   "the decay model places the IRF at centre - shift (coefficient of shift relative to centre: -1)", [f"term: {t!r}"])
            continue
        ctx.ob("C07-R2", f"{label}/same-irf-position-as-decay", r is not None and r == ref, f, st,
               f"time origin = centre {'+' if (r or 0) > 0 else '-'} shift here, but centre - shift in the decay model of the same dataset: with a "
               "non-zero shift this basis function is convolved with an IRF placed 2 x shift away from the one the decay uses",
               [f"term: {t!r}", f"coefficient of shift relative to centre: {r} (decay: {ref})"])


REF_FUNCS = '''
def osc_no_irf(matrix, frequencies, rates, axis):
    for frequency, rate in zip(frequencies, rates):
        value = np.exp(-(rate + 1j * frequency) * axis)

def osc_irf(frequencies, rates, model_axis, center, width, shift, scale):
    d = width * width
    k = rates + 1j * frequencies
    dk = d * k
    sqwidth = width * np.sqrt(2)
    a_pos = np.exp(k[pos_idx] * (dk[pos_idx] / 2 - right_shifted_axis[:, None]))
    a_neg = np.exp(k[neg_idx] * (dk[neg_idx] / 2 - left_shifted_axis[:, None]))
    b_pos = erf((right_shifted_axis[:, None] - dk[pos_idx]) / sqwidth) + 1
    b_neg = 1 - erf((left_shifted_axis[:, None] - dk[neg_idx]) / sqwidth)
    osc = scale * a * b

def artifact(matrix, center, width, axis, order):
    g = np.exp(-((axis - center) ** 2) / (2 * width ** 2))
    first = matrix[:, 0] * (center - axis) / width ** 2
    second = matrix[:, 0] * ((axis - center) ** 2 - width ** 2) / width ** 4

def gaussian(self, axis):
    value = np.exp(-np.log(2) * (2 * (axis - self.location) / self.width) ** 2)

def skewed(self, axis):
    theta = 1 + 2 * self.skewness * (axis - self.location) / self.width
    value = np.exp(-np.log(2) * (np.log(log_args[valid_arg_mask]) / self.skewness) ** 2)
'''


def _ref(repo, func: str):
    rf = ref_flow(repo, REF_FUNCS, func)

    def term(name: str) -> Poly:
        d = [x for x in rf.defs_of(name) if x.kind == "assign"][0]
        return rf.term(d.value, d.node)
    return rf, term


def r3(ctx) -> None:
    repo = ctx.repo
    lib.check_no_overflowing_exp(ctx, "C07-R3", [fi for fi in repo.functions.values() if fi.rel in (DOA, PFD, COH, SHP)], 3)
    # no-IRF oscillation
    f = ctx.fn(DOA, "calculate_damped_oscillation_matrix_no_irf")
    fl = lib.flow(f, repo)
    rf, rt = _ref(repo, "osc_no_irf")
    ds = [d for d in fl.defs_of("osc") if d.kind == "assign"]
    ok = bool(ds) and to_ref_names(fl.term(ds[0].value, ds[0].node), f, rf.fi) == rt("value")
    ctx.ob("C07-R3", "oscillation-no-irf/formula", ok, f, ds[0].stmt if ds else f.node, "osc = exp(-(rate + i f) t): real part cos quadrature, imaginary part sin quadrature",
           [f"code term: {fl.term(ds[0].value, ds[0].node)!r}"] if ds else [])
    # IRF form (damped oscillation)
    f = ctx.fn(DOA, "calculate_damped_oscillation_matrix_gaussian_irf")
    fl = lib.flow(f, repo)
    rf, rt = _ref(repo, "osc_irf")
    for nm in ("d", "k", "dk", "sqwidth"):
        dd = [d for d in fl.defs_of(nm) if d.kind == "assign"]
        ok = bool(dd) and to_ref_names(fl.term(dd[0].value, dd[0].node), f, rf.fi) == rt(nm)
        ctx.ob("C07-R3", f"oscillation-irf/{nm}", ok, f, dd[0].stmt if dd else f.node,
               {"d": "d = width^2", "k": "k = rate + i frequency", "dk": "dk = k width^2", "sqwidth": "sqrt(2) width"}[nm])
    sts = [(t, s) for t, s in lib.stores(f) if isinstance(t, ast.Subscript) and isinstance(t.value, ast.Name) and t.value.id in ("a", "b") and isinstance(s, ast.Assign)]
    ctx.sites("C07-R3", "a/b block stores", len(sts), 4)
    opaque = {n: Poly.atom(("name", n)) for n in ("pos_idx", "neg_idx", "right_shifted_axis", "left_shifted_axis", "a", "b")}
    for t, s in sts:
        which = t.value.id
        side = "pos" if "pos_idx" in norm(t.slice) else "neg"
        axis_ok = ("right_shifted_axis_indices" in norm(t.slice)) == (side == "pos")
        code_t = to_ref_names(fl.term(s.value, s, env=opaque), f, rf.fi)
        want = rt(f"{which}_{side}")
        ctx.ob("C07-R3", f"oscillation-irf/{which}-{side}", code_t == want and axis_ok, f, s,
               ("a = exp((-t + dk/2) k)" if which == "a" else ("b = 1 + erf((t - dk)/(sqrt2 w))" if side == "pos" else "b = 1 + erf((t - dk)/(-sqrt2 w)) for negative rates"))
               + " on the time window and rate subset of this block", [f"code term: {code_t!r}", f"reference: {want!r}"])
    os_ = [d for d in fl.defs_of("osc") if d.kind == "assign"]
    ok = bool(os_) and to_ref_names(fl.term(os_[0].value, os_[0].node, env=opaque), f, rf.fi) == rt("osc")
    ctx.ob("C07-R3", "oscillation-irf/product", ok, f, os_[0].stmt if os_ else f.node, "osc = a * b * scale")
    sel = {d.var: norm(d.value) for v in ("pos_idx", "neg_idx", "right_shifted_axis_indices", "left_shifted_axis_indices") for d in fl.defs_of(v) if d.kind == "assign"}
    ok = sel.get("pos_idx") == "np.where(rates >= 0)[0]" and sel.get("neg_idx") == "np.where(rates < 0)[0]" and \
        sel.get("right_shifted_axis_indices") == "np.where(shifted_axis > -5 * width)[0]" and sel.get("left_shifted_axis_indices") == "np.where(shifted_axis < 5 * width)[0]"
    ctx.ob("C07-R3", "oscillation-irf/windows", ok, f, f.node,
           "non-negative rates are evaluated from 5 sigma before the pulse onwards (zero before: causal), negative rates up to 5 sigma after it; the two rate subsets partition the oscillations",
           construct=str(sel))
    oi = ctx.fn(DOA, "calculate_damped_oscillation_matrix_gaussian_irf_on_index")
    txt = norm(oi.node)
    ok = "for center, width, scale in zip(centers, widths, scales" in txt and "matrix /= np.sum(scales)" in txt
    ctx.ob("C07-R3", "oscillation-irf/sum-over-gaussians", ok, oi, oi.node, "sum over the IRF Gaussians, divided by the sum of their scales",
           construct="for center, width, scale in zip(...): matrix += ...; matrix /= np.sum(scales)")
    c = [x for x in lib.calls(oi) if norm(x.func) == "calculate_damped_oscillation_matrix_gaussian_irf"]
    ok = len(c) == 1 and [norm(a) for a in c[0].args] == ["frequencies", "rates", "model_axis", "center", "width", "shift", "scale"]
    ctx.ob("C07-R3", "oscillation-irf/kernel-arguments", ok, oi, c[0] if c else oi.node, "(frequencies, rates, times, centre, width, shift, scale)")
    # artifact
    f = ctx.fn(COH, "_calculate_coherent_artifact_matrix_on_index")
    fl = lib.flow(f, repo)
    rf, rt = _ref(repo, "artifact")
    cols = {}
    for t, s in lib.stores(f):
        if isinstance(t, ast.Subscript) and norm(t.value) == f.params()[0] and isinstance(t.slice, ast.Tuple) and isinstance(t.slice.elts[1], ast.Constant):
            cols[t.slice.elts[1].value] = s
    want = {0: "g", 1: "first", 2: "second"}
    for k, nm in want.items():
        s = cols.get(k)
        ok = s is not None and to_ref_names(fl.term(s.value, s), f, rf.fi) == rt(nm)
        ctx.ob("C07-R3", f"artifact/column-{k}", ok, f, s or f.node,
               {0: "g = exp(-(t - c)^2 / (2 w^2))", 1: "first derivative: g (c - t) / w^2", 2: "second derivative: g ((t - c)^2 - w^2) / w^4"}[k],
               [f"code term: {to_ref_names(fl.term(s.value, s), f, rf.fi)!r}"] if s is not None else [])
    # spectral shapes
    f = ctx.fn(SHP, "SpectralShapeGaussian.calculate")
    fl = lib.flow(f, repo)
    rf, rt = _ref(repo, "gaussian")
    ds = [d for d in fl.defs_of("shape") if d.kind == "assign"]
    ok = bool(ds) and to_ref_names(fl.term(ds[0].value, ds[0].node), f, rf.fi) == rt("value")
    ctx.ob("C07-R3", "gaussian-shape/formula", ok, f, ds[0].stmt if ds else f.node, "exp(-ln2 (2 (x - x0) / FWHM)^2): 1 at the location, 1/2 at +-FWHM/2")
    amp = [s for t, s in lib.stores(f) if isinstance(s, ast.AugAssign) and isinstance(s.op, ast.Mult) and norm(t) == "shape" and norm(s.value) == "self.amplitude"]
    g = next((a for a in lib.ancestors(amp[0], f.node) if isinstance(a, ast.If)), None) if amp else None
    ctx.ob("C07-R3", "gaussian-shape/amplitude", len(amp) == 1 and g is not None and norm(g.test) == "self.amplitude is not None", f, amp[0] if amp else f.node,
           "scaled by the amplitude when one is given")
    f = ctx.fn(SHP, "SpectralShapeSkewedGaussian.calculate")
    fl = lib.flow(f, repo)
    rf, rt = _ref(repo, "skewed")
    la = [d for d in fl.defs_of("log_args") if d.kind == "assign"]
    ok = bool(la) and to_ref_names(fl.term(la[0].value, la[0].node), f, rf.fi) == rt("theta")
    ctx.ob("C07-R3", "skewed-shape/log-argument", ok, f, la[0].stmt if la else f.node, "theta = 1 + 2 b (x - x0) / FWHM")
    st = [(t, s) for t, s in lib.stores(f) if isinstance(t, ast.Subscript) and norm(t.value) == "shape" and isinstance(s, ast.Assign)]
    ok = False
    if st:
        t, s = st[0]
        opq = {n: Poly.atom(("name", n)) for n in ("log_args", "valid_arg_mask")}
        ok = to_ref_names(fl.term(s.value, s, env=opq), f, rf.fi) == rt("value") and norm(t.slice) == "valid_arg_mask"
    ctx.ob("C07-R3", "skewed-shape/formula", ok, f, st[0][1] if st else f.node, "exp(-ln2 (ln(theta) / b)^2) on the points where theta > 0")
    mk = [d for d in fl.defs_of("valid_arg_mask") if d.kind == "assign"]
    ok = bool(mk) and norm(mk[0].value).replace(" ", "") in ("np.where(log_args>0)", "log_args>0")
    z = [d for d in fl.defs_of("shape") if d.kind == "assign"]
    ok = ok and any(isinstance(d.value, ast.Call) and norm(d.value.func) in ZERO_ALLOC for d in z)
    ctx.ob("C07-R3", "skewed-shape/zero-where-log-undefined", ok, f, mk[0].stmt if mk else f.node, "0 where theta <= 0 (mask theta > 0 on a zeros array)")
    g0 = [n for n in lib.nodes(f, ast.If) if "self.skewness" in norm(n.test) and n.body and isinstance(n.body[-1], ast.Return) and "super().calculate(axis)" in norm(n.body[-1])]
    ctx.ob("C07-R3", "skewed-shape/zero-skewness-is-gaussian", len(g0) == 1 and "np.allclose(self.skewness, 0)" in norm(g0[0].test), f, g0[0] if g0 else f.node,
           "for skewness ~ 0 the plain Gaussian is used (the limit of the formula)")
    amp = [s for t, s in lib.stores(f) if isinstance(s, ast.AugAssign) and isinstance(s.op, ast.Mult) and norm(t) == "shape" and norm(s.value) == "self.amplitude"]
    ctx.ob("C07-R3", "skewed-shape/amplitude", len(amp) == 1, f, amp[0] if amp else f.node, "scaled by the amplitude when one is given")


def r3_frequencies(ctx) -> None:
    """Damped oscillation: what the kernels receive as angular frequencies and rates."""
    repo = ctx.repo
    cm = ctx.fn(DOA, "DampedOscillationMegacomplex.calculate_matrix")
    fl = lib.flow(cm, repo)
    ax = cm.params()[3]
    fr = [d for d in fl.defs_of("frequencies") if d.kind == "assign"]
    ok = len(fr) == 1
    if ok:
        t = fl.term(fr[0].value, fr[0].stmt)
        want = fl.term(ast.parse("np.array(self.frequencies) * 0.03 * 2 * np.pi", mode="eval").body, fr[0].stmt)
        ok = t == want
    ctx.ob("C07-R3", "oscillation/angular-frequency", ok, cm, fr[0].stmt if fr else cm.node,
           "omega = 2 pi * 0.03 * wavenumber (cm^-1 to rad/ps), for the frequencies in declaration order", construct=lib.short(fr[0].stmt, 100) if fr else "def")
    fm = [d for d in fl.defs_of("frequency_max") if d.kind == "assign"]
    okm = len(fm) == 1 and fl.term(fm[0].value, fm[0].stmt) == fl.term(ast.parse("1 / (2 * 0.03 * delta_min)", mode="eval").body, fm[0].stmt)
    dm = [d for d in fl.defs_of("delta_min") if d.kind == "assign"]
    okd = False
    trace = []
    if len(dm) == 1:
        v = fl.inline(dm[0].value, dm[0].stmt)
        txt = norm(v).replace(" ", "")
        # the vector of all consecutive steps, by name or written out
        step_texts = (f"np.abs({ax}[1:]-{ax}[:-1])", f"np.abs(np.diff({ax}))", f"abs({ax}[1:]-{ax}[:-1])", f"np.diff({ax})")
        for st_ in step_texts:
            txt = txt.replace(st_, "STEPS")
        for nm in {n.id for n in ast.walk(v) if isinstance(n, ast.Name)}:
            ds = [d for d in fl.defs_of(nm) if d.kind == "assign"]
            if len(ds) == 1 and norm(ds[0].value).replace(" ", "") in step_texts:
                import re as _re
                txt = _re.sub(rf"\b{nm}\b", "STEPS", txt)
        okd = txt in ("STEPS[np.argmin(STEPS)]", "np.min(STEPS)", "STEPS.min()", "min(STEPS)", "np.amin(STEPS)")
        trace.append(f"delta_min = {norm(v)}")
    ctx.ob("C07-R3", "oscillation/folding-threshold-from-smallest-step", bool(okm) and okd, cm, dm[0].stmt if dm else cm.node,
           "frequencies are folded only at the sampling limit of the *finest* step of the time axis, 1/(2*0.03*min(step)); taking "
           "one particular step (the first) folds ordinary frequencies on non-equidistant axes", trace,
           construct=lib.short(dm[0].stmt, 100) if dm else "def")
    rt = [d for d in fl.defs_of("rates") if d.kind == "assign"]
    ctx.ob("C07-R3", "oscillation/rates-as-declared", len(rt) == 1 and norm(rt[0].value) in ("np.array(self.rates)", "np.asarray(self.rates)"), cm,
           rt[0].stmt if rt else cm.node, "the damping rates in declaration order")
    ks = [c for c in lib.calls(cm) if norm(c.func).startswith("calculate_damped_oscillation_matrix")]
    ctx.sites("C07-R3", "oscillation kernel calls", len(ks), 3)
    for c in ks:
        a = [norm(x) for x in c.args]
        ctx.ob("C07-R3", f"oscillation/kernel-arguments:{norm(c.func).rsplit('_', 2)[-1]}@{len(a)}", a[1:3] == ["frequencies", "rates"] and a[-1] == ax, cm, c,
               "(matrix, frequencies, rates, ..., time axis)", construct=lib.short(c, 120))


def r4(ctx) -> None:
    repo = ctx.repo
    lib.check_no_loop_escape(ctx, "C07-R4", ("glotaran/builtin/megacomplexes/coherent_artifact/", "glotaran/builtin/megacomplexes/damped_oscillation/",
                                              "glotaran/builtin/megacomplexes/pfid/", "glotaran/builtin/megacomplexes/spectral/"), 3)
    cm = ctx.fn(COH, "CoherentArtifactMegacomplex.calculate_matrix")
    g = [n for n in lib.nodes(cm, ast.If) if "self.order" in norm(n.test) and n.body and isinstance(n.body[-1], ast.Raise)]
    ok = len(g) == 1 and norm(g[0].test).replace(" ", "") in ("not1<=self.order<=3", "self.order<1orself.order>3", "not(1<=self.order<=3)")
    ctx.ob("C07-R4", "artifact/orders-1-to-3", ok, cm, g[0] if g else cm.node, "orders outside 1..3 are rejected")
    fl = lib.flow(cm, repo)
    shp = [d for d in fl.defs_of("matrix_shape") if d.kind == "assign"]
    ctx.ob("C07-R4", "artifact/columns-equal-order", bool(shp) and norm(shp[0].value).count("self.order") == 2, cm, shp[0].stmt if shp else cm.node,
           "the matrix has `order` columns")
    cp = ctx.fn(COH, "CoherentArtifactMegacomplex.compartments")
    rets = lib.nodes(cp, ast.Return)
    ok = len(rets) == 1 and isinstance(rets[0].value, ast.ListComp) and norm(rets[0].value.generators[0].iter).replace(" ", "") == "range(1,self.order+1)"
    ctx.ob("C07-R4", "artifact/labels-equal-order", ok, cp, rets[0] if rets else cp.node, "one label per order 1..order")
    f = ctx.fn(COH, "_calculate_coherent_artifact_matrix_on_index")
    fl2 = lib.flow(f, repo)
    op = f.params()[4]
    for t, s in lib.stores(f):
        if isinstance(t, ast.Subscript) and norm(t.value) == f.params()[0] and isinstance(t.slice, ast.Tuple) and isinstance(t.slice.elts[1], ast.Constant):
            k = t.slice.elts[1].value
            gd = next((a for a in lib.ancestors(s, f.node) if isinstance(a, ast.If)), None)
            if k == 0:
                ctx.ob("C07-R4", "artifact/column-0-always", gd is None, f, s, "column 0 (the Gaussian) is always written")
            else:
                ok = gd is not None and norm(gd.test).replace(" ", "") in (f"{op}>{k}", f"{op}>={k + 1}", f"{k}<{op}")
                ctx.ob("C07-R4", f"artifact/column-{k}-iff-order", ok, f, s, f"column {k} is written iff order > {k}")
    oi = [c for c in lib.calls(cm) if norm(c.func) == "_calculate_coherent_artifact_matrix_on_index"]
    ok = len(oi) == 1 and [norm(a) for a in oi[0].args] == ["matrix", "center", "width", "model_axis", "self.order"]
    ctx.ob("C07-R4", "artifact/kernel-arguments", ok, cm, oi[0] if oi else cm.node, "(matrix, centre, width, time axis, order)")
    # index dependent branch: centres and widths are collected per global index from one get_irf_parameter call each
    kc = [x for x in lib.calls(cm) if norm(x.func) == "_calculate_coherent_artifact_matrix"]
    loops = [lp for lp in lib.nodes(cm, ast.For) if isinstance(lp.iter, ast.Call) and norm(lp.iter.func) == "range" and norm(lp.iter.args[0]) == "global_axis.size"
             and isinstance(lp.target, ast.Name)]
    ok = False
    trace = []
    if len(kc) == 1 and len(loops) == 1 and len(kc[0].args) >= 3:
        lp, pos = loops[0], loops[0].target.id
        got = []
        for k, arg in ((0, kc[0].args[1]), (1, kc[0].args[2])):
            a = fl.inline(arg, kc[0])
            inner = a.args[0] if isinstance(a, ast.Call) and norm(a.func) in ("np.asarray", "np.array") and a.args else a
            good = False
            if isinstance(inner, ast.Name):
                apps = [c_ for c_ in lib.method_calls(cm, "append") if norm(c_.func.value) == inner.id]
                good = len(apps) == 1 and lib.is_inside(apps[0], lp) and lib.field_of(lib.stmt_of(apps[0]), lp) == "body" and len(apps[0].args) == 1
                if good:
                    t = fl.term(apps[0].args[0], lib.stmt_of(apps[0]))
                    call_t = fl.term(ast.parse(f"self.get_irf_parameter(irf, {pos}, global_axis)", mode="eval").body, lib.stmt_of(apps[0]))
                    from glint.terms import Poly
                    good = t == Poly.atom(("item", call_t.key(), (k,)))
                    trace.append(f"{inner.id}.append({norm(apps[0].args[0])}) = element {k} of get_irf_parameter(irf, {pos}, global_axis): {good}")
            got.append(good)
        ok = all(got)
    ctx.ob("C07-R4", "artifact/centres-and-widths-per-index", ok, cm, kc[0] if kc else cm.node,
           "index i of the kernel's centre and width arrays is the (centre, width) pair of get_irf_parameter(irf, i, global_axis)", trace)
    kk = ctx.fn(COH, "_calculate_coherent_artifact_matrix")
    c = [x for x in lib.calls(kk) if norm(x.func) == "_calculate_coherent_artifact_matrix_on_index"]
    ok = len(c) == 1 and [norm(a) for a in c[0].args] == ["matrix[i]", "centers[i]", "widths[i]", "model_axis", "order"]
    ctx.ob("C07-R4", "artifact/per-index-arguments", ok, kk, c[0] if c else kk.node, "index i: matrix[i], centers[i], widths[i]")
    gp = ctx.fn(COH, "CoherentArtifactMegacomplex.get_irf_parameter")
    txt = norm(gp.node)
    ok = "width = self.width.value if self.width is not None else width[0]" in txt
    ctx.ob("C07-R4", "artifact/own-or-irf-width", ok, gp, gp.node, "the artifact uses its own width when given, the IRF's first width otherwise",
           construct="width = self.width.value if self.width is not None else width[0]")
    _ = fl2


def r5(ctx) -> None:
    """Basis functions are functions of their arguments: no in-place change of an axis / parameter array handed in
    (ownership analysis shared with C10-R3, restricted to the megacomplex package)."""
    from glint.rules.c10 import r3 as ownership

    ownership(ctx, rule="C07-R5", scope=("glotaran/builtin/megacomplexes/",), floors=False)


def r6(ctx) -> None:
    """Which column carries which quadrature: label constructor, every kernel and the readers agree (shared with C06-R2)."""
    from glint.rules import c06

    c06.r2(ctx, rule="C07-R6")


def check(ctx) -> None:
    for g in check.groups:
        g(ctx)


check.groups = [r1, r2, r3, r3_frequencies, r4, r5, r6]
