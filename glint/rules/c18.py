"""C18 - saving never destroys existing files unless asked; project results accumulate."""

from __future__ import annotations

import ast

from glint import langs
from glint import lib
from glint.callgraph import callgraph
from glint.index import AnalysisError
from glint.index import kwarg
from glint.index import norm

PIO = "glotaran/plugin_system/project_io_registration.py"
DIO = "glotaran/plugin_system/data_io_registration.py"
UTL = "glotaran/plugin_system/io_plugin_utils.py"
RES = "glotaran/project/project_result_registry.py"
PRJ = "glotaran/project/project.py"

DOC = {
    "explanation": (
        "Static decision of: protect_from_overwrite(path, allow_overwrite=<own parameter>) "
        "dominating every other call of each save_* dispatcher; the shape of "
        "protect_from_overwrite itself; a package-wide who-may-write scan (file write "
        "primitives only inside plugin save methods, their helpers, or generators whose "
        "existence guard dominates the write; literal allow_overwrite=True only at a frozen "
        "list of reasoned nested-save sites, each inside what the outer dispatcher protected); "
        "and agreement of the run-name languages of writer, lister, matcher and stripper."
    ),
    "rules": {
        "C18-R1": "in each of the 5 save_* dispatchers protect_from_overwrite(<path parameter>, allow_overwrite=<allow_overwrite parameter, default False>) dominates every other call; protect_from_overwrite raises FileExistsError for an existing file / non-empty folder unless allow_overwrite",
        "C18-R2": "file write primitives occur only in registered plugin save methods, their helpers (called only from those) and guarded generators; allow_overwrite is passed on as the caller's own parameter or as literal True only at the frozen nested-save sites, whose targets lie inside the path the outer dispatcher protected",
        "C18-R3": "in generate_model, generate_parameters, import_data and Project.create the existence guard (FileExistsError unless allow_overwrite) dominates every write",
        "C18-R4": "writer template, lister filter, matcher regex, stripper regex and number parser of result run names denote the same suffix language `_run_` + 4 digits; the next run number is last + 1 over the sorted list",
    },
    "declined": ["byte identity of existing files when a plugin fails midway through a permitted write"],
    "assumptions": ["pathlib/os semantics of exists/is_file/is_dir/listdir"],
}

DISPATCHERS = [
    (PIO, "save_model"),
    (PIO, "save_parameters"),
    (PIO, "save_scheme"),
    (PIO, "save_result"),
    (DIO, "save_dataset"),
]
SAVE_NAMES = {d[1] for d in DISPATCHERS}

WRITE_METHODS = {
    "to_csv", "to_excel", "to_netcdf", "write_text", "write_bytes", "to_zarr", "to_pickle", "to_json",
    "to_hdf", "to_parquet", "to_feather", "savefig", "unlink", "rmdir", "touch",
}
WRITE_FUNCS = {
    "numpy.savetxt", "numpy.save", "numpy.savez", "numpy.savez_compressed", "shutil.copy", "shutil.copy2",
    "shutil.copyfile", "shutil.move", "shutil.rmtree", "shutil.copytree", "os.remove", "os.unlink", "os.rename",
    "os.replace", "os.rmdir", "os.removedirs", "pickle.dump", "json.dump",
}

# (file, function) -> reason; functions allowed to contain a write primitive
OWNERS = {
    ("glotaran/builtin/io/pandas/csv.py", "CsvProjectIo.save_parameters"): "plugin save method (csv/tsv parameters)",
    ("glotaran/builtin/io/pandas/xlsx.py", "ExcelProjectIo.save_parameters"): "plugin save method (xlsx/ods parameters)",
    ("glotaran/builtin/io/netCDF/netCDF.py", "NetCDFDataIo.save_dataset"): "plugin save method (netCDF)",
    ("glotaran/builtin/io/ascii/wavelength_time_explicit_file.py", "ExplicitFile.write"): "helper of AsciiDataIo.save_dataset",
    ("glotaran/builtin/io/yml/utils.py", "write_dict"): "helper of the yml plugin save methods and of generate_parameters (guarded)",
    ("glotaran/builtin/io/folder/folder_plugin.py", "FolderProjectIo.save_result"): "plugin save method (folder result)",
    ("glotaran/project/project_model_registry.py", "ProjectModelRegistry.generate_model"): "generator with existence guard (C18-R3)",
    ("glotaran/project/project.py", "Project.create"): "generator with existence guard (C18-R3)",
    ("glotaran/parameter/parameter_history.py", "ParameterHistory.to_csv"): "explicit export API of the history object; called by the folder plugin inside a protected folder",
    ("glotaran/optimization/optimization_history.py", "OptimizationHistory.to_csv"): "explicit export API of the history object; called by the folder plugin inside a protected folder",
    ("glotaran/cli/commands/util.py", "write_data"): "CLI export command writing to the user given --out path",
}
# helper -> functions allowed to call it
HELPER_CALLERS = {
    "write_dict": {
        "YmlProjectIo.save_model", "YmlProjectIo.save_scheme", "YmlProjectIo.save_result", "YmlProjectIo.save_parameters",
        "ProjectParameterRegistry.generate_parameters", "generate_model_yml", "Model.markdown", "write_dict",
    },
    "ExplicitFile.write": {"AsciiDataIo.save_dataset"},
}
# literal allow_overwrite=True sites: (file, function, callee) -> reason
LITERAL_TRUE = {
    ("glotaran/project/result.py", "Result.save", "save_result"): "documented convenience API: Result.save overwrites the given folder",
    ("glotaran/builtin/io/yml/yml.py", "YmlProjectIo.save_result", "save_result"): "nested folder save of the yml result plugin",
    ("glotaran/builtin/io/yml/yml.py", "YmlProjectIo.save_result", "save_model"): "nested model.yml of the yml result plugin",
    ("glotaran/builtin/io/yml/yml.py", "YmlProjectIo.save_result", "save_scheme"): "nested scheme.yml of the yml result plugin",
    ("glotaran/builtin/io/folder/folder_plugin.py", "LegacyProjectIo.save_result", "save_result"): "deprecated legacy plugin forwarding to the yml plugin inside the protected folder",
    ("glotaran/builtin/io/folder/folder_plugin.py", "FolderProjectIo.save_result", "save_parameters"): "nested parameter files inside the protected folder",
    ("glotaran/builtin/io/folder/folder_plugin.py", "FolderProjectIo.save_result", "save_dataset"): "nested dataset files inside the protected folder",
    ("glotaran/builtin/io/pandas/tsv.py", "TsvProjectIo.save_parameters", "save_parameters"): "the tsv plugin writes through the csv plugin to the very file the outer dispatcher already protected (D27)",
}


def r1(ctx) -> None:
    repo = ctx.repo
    for rel, name in DISPATCHERS:
        fi = ctx.fn(rel, name)
        fl = lib.flow(fi, repo)
        cfg = fl.cfg
        params = fi.params()
        path_p = params[1]
        pcs = [c for c in lib.calls(fi) if lib.resolved(repo, fi, c.func).endswith("io_plugin_utils.protect_from_overwrite")]
        if not ctx.ob("C18-R1", f"{name}/calls-protect", len(pcs) >= 1, fi, pcs[0] if pcs else fi.node,
                      "the dispatcher must call protect_from_overwrite", construct=lib.short(pcs[0]) if pcs else "def " + name):
            continue
        pc = pcs[0]
        a0 = pc.args[0] if pc.args else kwarg(pc, "path")
        ao = kwarg(pc, "allow_overwrite")
        ok_args = (
            a0 is not None and isinstance(a0, ast.Name) and a0.id == path_p
            and all(d.kind == "param" for d in fl.reaching(path_p, pc))
            and ao is not None and isinstance(ao, ast.Name) and ao.id == "allow_overwrite"
            and all(d.kind == "param" for d in fl.reaching("allow_overwrite", pc))
        )
        ctx.ob("C18-R1", f"{name}/protect-args", ok_args, fi, pc,
               f"protect_from_overwrite must receive the path parameter `{path_p}` and the caller's own allow_overwrite")
        # default False, keyword only
        dflt = None
        a = fi.node.args
        for kwa, d in zip(a.kwonlyargs, a.kw_defaults):
            if kwa.arg == "allow_overwrite":
                dflt = d
        ctx.ob("C18-R1", f"{name}/allow-overwrite-default", isinstance(dflt, ast.Constant) and dflt.value is False, fi,
               dflt or fi.node, "allow_overwrite is keyword-only and defaults to False",
               construct=f"allow_overwrite = {norm(dflt) if dflt is not None else '?'}")
        others = [c for c in lib.calls(fi) if c is not pc and not lib.is_inside(c, pc)]
        ctx.call_sites += len(others)
        for c in others:
            ctx.ob("C18-R1", f"{name}/protect-first:{norm(c.func)}", cfg.dominates(pc, c) and lib.stmt_of(c) is not lib.stmt_of(pc), fi,
                   lib.stmt_of(c), "protect_from_overwrite must dominate every other call (format lookup, plugin, path handling)")
    # protect_from_overwrite itself
    p = ctx.fn(UTL, "protect_from_overwrite")
    fl = lib.flow(p, repo)

    def allow_true(test, pol, at):
        inner, pos = lib.strip_not(test)
        return isinstance(inner, ast.Name) and inner.id == "allow_overwrite" and ((pol if pos else not pol) is False)

    rs = [r for r in lib.raises(p) if lib.raised_name(repo, p, r) == "FileExistsError"]
    ctx.ob("C18-R1", "protect_from_overwrite/raises", len(rs) >= 2, p, rs[0] if rs else p.node,
           "FileExistsError for an existing file and for a non-empty folder", construct=f"{len(rs)} raise FileExistsError")
    kinds = set()
    for r in rs:
        g = None
        for a in lib.ancestors(r, p.node):
            if isinstance(a, ast.If) and lib.field_of(r, a) == "body":
                g = a
                break
        t = norm(g.test) if g is not None else ""
        if "is_file()" in t:
            kinds.add("file")
        if "is_dir()" in t and "listdir" in t:
            kinds.add("dir")
        ctx.ob("C18-R1", f"protect_from_overwrite/raise-only-without-allow:{t[:30]}", lib.guarded_by(fl, r, allow_true) is not None, p, r,
               "the refusal applies exactly when allow_overwrite is falsy")
    # the refusal may depend on nothing but allow_overwrite and what is on disk
    def allowed_test(t: ast.AST) -> bool:
        if isinstance(t, ast.BoolOp):
            return all(allowed_test(v) for v in t.values)
        if isinstance(t, ast.UnaryOp) and isinstance(t.op, ast.Not):
            return allowed_test(t.operand)
        if isinstance(t, ast.Name):
            return t.id == "allow_overwrite"
        if isinstance(t, ast.Compare) and len(t.ops) == 1 and isinstance(t.ops[0], (ast.Is, ast.IsNot, ast.Eq, ast.NotEq)) \
                and isinstance(t.comparators[0], ast.Constant) and isinstance(t.comparators[0].value, bool):
            return allowed_test(t.left)
        if isinstance(t, ast.Call):
            f = norm(t.func)
            return f.endswith((".is_file", ".is_dir", ".exists")) or f in ("os.listdir", "os.path.isfile", "os.path.isdir",
                                                                             "os.path.exists", "any", "list", "len", "bool") \
                or f.endswith(".iterdir")
        return False

    for r in rs:
        for a in lib.ancestors(r, p.node):
            if isinstance(a, ast.If):
                ctx.ob("C18-R1", f"protect_from_overwrite/refusal-depends-on-disk-state-only:{norm(a.test)[:30]}", allowed_test(a.test), p, a,
                       "whether saving is refused may depend only on allow_overwrite and on what exists on disk "
                       "(is_file / is_dir / listdir); a test on the shape of the path (suffix, name) lets existing targets through",
                       construct="if " + norm(a.test))
    ctx.ob("C18-R1", "protect_from_overwrite/file-and-folder", kinds == {"file", "dir"}, p, p.node,
           "one refusal is conditioned on path.is_file(), the other on path.is_dir() and a non-empty listing",
           construct="conditions: " + ",".join(sorted(kinds)))
    for ret in lib.nodes(p, ast.Return):
        def allow_pos(test, pol, at):
            inner, pos = lib.strip_not(test)
            return isinstance(inner, ast.Name) and inner.id == "allow_overwrite" and ((pol if pos else not pol) is True)
        ctx.ob("C18-R1", "protect_from_overwrite/early-return-only-with-allow", lib.guarded_by(fl, ret, allow_pos) is not None, p, ret,
               "the only early return is the one under allow_overwrite")
    for t, s in lib.stores(p):
        if norm(t) == "allow_overwrite":
            ctx.ob("C18-R1", "protect_from_overwrite/allow-not-rebound", False, p, s, "allow_overwrite must not be reassigned")


def _is_write_primitive(repo, fi, c: ast.Call) -> str | None:
    q = lib.resolved(repo, fi, c.func)
    if q in WRITE_FUNCS:
        return q
    if q in ("open", "io.open", "builtins.open") or (isinstance(c.func, ast.Attribute) and c.func.attr == "open" and "Path" in norm(c.func.value)):
        mode = c.args[1] if len(c.args) > 1 else kwarg(c, "mode")
        if mode is not None:
            m = lib.const_str(mode)
            if m is None or any(ch in m for ch in "wax+"):
                return f"open(mode={m!r})"
        return None
    if isinstance(c.func, ast.Attribute) and c.func.attr in WRITE_METHODS:
        # .touch()/.unlink() only on path like receivers; the rest are unambiguous
        return "." + c.func.attr
    return None


def r2(ctx) -> None:
    repo = ctx.repo
    cg = callgraph(repo)
    n_prim = 0
    for fi in repo.functions.values():
        if fi.rel.startswith("glotaran/testing/") or fi.rel.startswith("glotaran/deprecation/"):
            pass
        for c in lib.calls(fi):
            what = _is_write_primitive(repo, fi, c)
            if what is None:
                continue
            n_prim += 1
            owner = fi
            while owner.parent is not None:
                owner = owner.parent
            key = (owner.rel, owner.short)
            ok = key in OWNERS
            ctx.ob("C18-R2", f"write-primitive:{owner.short}:{what}", ok, fi, lib.stmt_of(c),
                   "a file write primitive may only appear in a registered plugin save method, one of its helpers, "
                   "or a generator with an existence guard (frozen owner table)"
                   + (f" - {OWNERS[key]}" if ok else ""))
    ctx.sites("C18-R2", "write primitives", n_prim, 12)
    # plugin save methods are only reached through the dispatchers
    plugin_saves = []
    for ci in repo.classes.values():
        decos = ci.decorator_names()
        if any(d in ("register_project_io", "register_data_io") for d in decos):
            for m in ci.methods.values():
                if m.name.startswith("save_"):
                    plugin_saves.append(m)
    ctx.sites("C18-R2", "plugin save methods", len(plugin_saves), 8)
    for fi in repo.functions.values():
        for c in lib.calls(fi):
            if isinstance(c.func, ast.Attribute) and c.func.attr in SAVE_NAMES:
                recv = norm(c.func.value)
                q = lib.resolved(repo, fi, c.func)
                if q.endswith(("project_io_registration." + c.func.attr, "data_io_registration." + c.func.attr)):
                    continue  # module qualified dispatcher call
                in_dispatcher = (fi.rel, fi.name) in DISPATCHERS and recv == "io"
                is_method_wrapper = fi.name == "get_method_from_plugin"
                # Result.save / project.* call their own methods named save_*? (none today)
                if in_dispatcher or is_method_wrapper:
                    continue
                ctx.ob("C18-R2", f"direct-plugin-save:{fi.short}", False, fi, lib.stmt_of(c),
                       f"`{recv}.{c.func.attr}(...)` calls a plugin save method directly, bypassing protect_from_overwrite")
    # helper callers
    for helper, allowed in HELPER_CALLERS.items():
        n = 0
        for fi in repo.functions.values():
            for c in lib.calls(fi):
                last = c.func.attr if isinstance(c.func, ast.Attribute) else (c.func.id if isinstance(c.func, ast.Name) else "")
                if helper == "write_dict" and last == "write_dict":
                    fn_kw = kwarg(c, "file_name")
                    writes = fn_kw is not None or len(c.args) > 1
                    if not writes:
                        continue  # returns a string
                    n += 1
                    ctx.ob("C18-R2", f"helper-caller:write_dict:{fi.short}", fi.short in allowed, fi, lib.stmt_of(c),
                           "write_dict(file_name=...) may only be called from plugin save methods / guarded generators")
                elif helper == "ExplicitFile.write" and last == "write" and fi.rel.endswith("wavelength_time_explicit_file.py"):
                    n += 1
                    ctx.ob("C18-R2", f"helper-caller:ExplicitFile.write:{fi.short}", fi.short in allowed, fi, lib.stmt_of(c),
                           "ExplicitFile.write may only be called from AsciiDataIo.save_dataset")
        ctx.site_counts[f"C18-R2:callers of {helper}"] = n
    # allow_overwrite arguments
    n_lit = 0
    for fi in repo.functions.values():
        fl = None
        for c in lib.calls(fi):
            ao = kwarg(c, "allow_overwrite")
            if ao is None:
                continue
            callee = c.func.attr if isinstance(c.func, ast.Attribute) else norm(c.func)
            if isinstance(ao, ast.Constant) and ao.value is True:
                n_lit += 1
                key = (fi.rel, fi.short, callee)
                ctx.ob("C18-R2", f"literal-allow-overwrite:{fi.short}->{callee}", key in LITERAL_TRUE, fi, lib.stmt_of(c),
                       "literal allow_overwrite=True is only permitted at the frozen, reasoned nested-save sites"
                       + (f" - {LITERAL_TRUE[key]}" if key in LITERAL_TRUE else ""),
                       construct=f"{callee}(..., allow_overwrite=True)")
            elif isinstance(ao, ast.Constant) and ao.value is False:
                continue
            else:
                if fl is None:
                    fl = lib.flow(fi, repo)
                own = isinstance(ao, ast.Name) and ao.id == "allow_overwrite" and "allow_overwrite" in fi.params() \
                    and all(d.kind == "param" for d in fl.reaching("allow_overwrite", c))
                ctx.ob("C18-R2", f"forwarded-allow-overwrite:{fi.short}->{callee}", own, fi, lib.stmt_of(c),
                       "a non-literal allow_overwrite argument must be the caller's own, unmodified allow_overwrite parameter")
    ctx.sites("C18-R2", "literal allow_overwrite=True", n_lit, 8)
    # a plugin save method that writes through a dispatcher has already been admitted by the outer dispatcher:
    # the nested call must say so, otherwise allow_overwrite=True can never succeed on an existing target
    n_nested = 0
    for fi in repo.functions.values():
        if not (fi.rel.startswith("glotaran/builtin/io/") and fi.cls is not None and fi.name in SAVE_NAMES):
            continue
        for c in lib.calls(fi):
            if not (isinstance(c.func, ast.Name) and c.func.id in SAVE_NAMES):
                continue
            q = lib.resolved(repo, fi, c.func) or ""
            if "plugin_system" not in q and not q.startswith("glotaran.io"):
                continue
            n_nested += 1
            ao = kwarg(c, "allow_overwrite")
            ctx.ob("C18-R2", f"nested-dispatch-admitted:{fi.short}->{c.func.id}", isinstance(ao, ast.Constant) and ao.value is True, fi, lib.stmt_of(c),
                   "a save dispatcher called from inside a plugin's save method re-runs the overwrite protection with its default "
                   "(refuse): without allow_overwrite=True the plugin fails on every existing target even when the user allowed overwriting",
                   construct=lib.short(c, 120))
    ctx.sites("C18-R2", "save dispatchers called from plugin save methods", n_nested, 6)
    # nested saves stay inside the protected path
    for (rel, fname, callee), _why in sorted(LITERAL_TRUE.items()):
        if fname in ("Result.save",):
            continue
        fi = repo.fn_opt(rel, fname)
        if fi is None:
            raise AnalysisError(f"C18-R2: frozen nested-save site vanished: {rel}::{fname}")
        ctx.touch(fi)
        fl = lib.flow(fi, repo)
        for c in lib.calls(fi):
            nm = c.func.attr if isinstance(c.func, ast.Attribute) else norm(c.func)
            if nm != callee or kwarg(c, "allow_overwrite") is None:
                continue
            target = kwarg(c, "result_path") or kwarg(c, "file_name") or (c.args[1] if len(c.args) > 1 else None)
            if target is None:
                continue
            t = fl.term(target, lib.stmt_of(c))
            escapes = any(a[0] == "attr" and a[2] == "parent" for a in t.all_atoms())
            ctx.ob("C18-R2", f"nested-inside-protected:{fname}->{callee}", not escapes, fi, lib.stmt_of(c),
                   "a nested save with allow_overwrite=True must target a path below the path the outer dispatcher "
                   "protected; a target derived from `<protected path>.parent` is a sibling the existence check never saw",
                   [f"target = {norm(target)}"], construct=f"{callee}({norm(target)}, allow_overwrite=True)")
    _ = cg


def r3(ctx) -> None:
    repo = ctx.repo
    gens = [
        ("glotaran/project/project_model_registry.py", "ProjectModelRegistry.generate_model"),
        ("glotaran/project/project_parameter_registry.py", "ProjectParameterRegistry.generate_parameters"),
        ("glotaran/project/project_data_registry.py", "ProjectDataRegistry.import_data"),
        (PRJ, "Project.create"),
    ]
    for rel, name in gens:
        fi = ctx.fn(rel, name)
        fl = lib.flow(fi, repo)
        cfg = fl.cfg
        writes = []
        for c in lib.calls(fi):
            if _is_write_primitive(repo, fi, c):
                writes.append((c, "raw"))
            last = c.func.attr if isinstance(c.func, ast.Attribute) else (c.func.id if isinstance(c.func, ast.Name) else "")
            if last == "write_dict" and (kwarg(c, "file_name") is not None or len(c.args) > 1):
                writes.append((c, "raw"))
            if last in SAVE_NAMES:
                writes.append((c, "save"))
        ctx.sites("C18-R3", f"writes in {name}", len(writes), 1)
        guards = []
        for n in lib.nodes(fi, ast.If):
            t = norm(n.test)
            if ".exists()" in t and "allow_overwrite" in t and n.body and isinstance(n.body[-1], ast.Raise) \
                    and lib.raised_name(repo, fi, n.body[-1]) == "FileExistsError":
                # polarity: raise when NOT allow_overwrite
                if "not allow_overwrite" in t or "allow_overwrite is False" in t:
                    guards.append(n)
        for c, kind in writes:
            if kind == "save":
                ao = kwarg(c, "allow_overwrite")
                fwd = isinstance(ao, ast.Name) and ao.id == "allow_overwrite" and all(
                    d.kind == "param" for d in fl.reaching("allow_overwrite", c))
                dom = any(cfg.dominates(g, c) for g in guards)
                ctx.ob("C18-R3", f"{name}/save-protected", fwd or dom, fi, lib.stmt_of(c),
                       "a save_* call in a generator must forward the caller's allow_overwrite (the dispatcher then "
                       "protects) or be dominated by the existence guard")
            else:
                target = None
                if isinstance(c.func, ast.Attribute) and c.func.attr in WRITE_METHODS:
                    target = norm(c.func.value)
                else:
                    tk = kwarg(c, "file_name")
                    target = norm(tk) if tk is not None else None
                dom = [g for g in guards if cfg.dominates(g, c) and (target is None or target in norm(g.test))]
                ctx.ob("C18-R3", f"{name}/guard-before-write", bool(dom), fi, lib.stmt_of(c),
                       f"`if {target}.exists() and not allow_overwrite: raise FileExistsError` must dominate the write")
        dflt_ok = True
        a = fi.node.args
        alls = a.posonlyargs + a.args
        dfl = dict(zip([x.arg for x in alls[len(alls) - len(a.defaults):]], a.defaults))
        dfl.update({k.arg: d for k, d in zip(a.kwonlyargs, a.kw_defaults)})
        d = dfl.get("allow_overwrite")
        dflt_ok = isinstance(d, ast.Constant) and d.value is False
        ctx.ob("C18-R3", f"{name}/allow-overwrite-default", dflt_ok, fi, d or fi.node, "allow_overwrite defaults to False",
               construct=f"allow_overwrite = {norm(d) if d is not None else '?'}")


SUFFIX = [("lit", "_run_"), ("digits", 4)]


def r4(ctx) -> None:
    repo = ctx.repo
    # writer
    w = ctx.fn(RES, "ProjectResultRegistry.create_result_run_name")
    flw = lib.flow(w, repo)
    base_p = w.params()[1]
    rets = lib.nodes(w, ast.Return)
    ctx.sites("C18-R4", "writer templates", len(rets), 2)
    for r in rets:
        try:
            toks = langs.fstring_tokens(r.value)
        except langs.PatternError as e:
            ctx.ob("C18-R4", "writer/template", False, w, r, f"run name must be an f-string template ({e})")
            continue
        ok = toks == [("field", base_p)] + SUFFIX
        ctx.ob("C18-R4", "writer/template", ok, w, r,
               "run names are `{base_name}_run_` followed by exactly four digits",
               [f"tokens: {langs.show(toks)}"])
        for v in r.value.values if isinstance(r.value, ast.JoinedStr) else []:
            if isinstance(v, ast.FormattedValue) and v.format_spec is not None:
                t = flw.term(v.value, r)
                # last + 1
                inc = t.without(()).terms and (t.terms.get((), 0) == 1) and len(t.terms) == 2
                at = [a for a in t.atoms()]
                from_int = any(a[0] == "call" and a[1] == "int" for a in at)
                # the number comes from the last entry of the sorted list (temporaries looked through)
                nm = norm(v.value).split("+")[0].strip()
                from_last = "[-1]" in lib.xnorm(flw, v.value, r) or any(
                    d.value is not None and "[-1]" in lib.xnorm(flw, d.value, d.stmt) for d in flw.defs_of(nm))
                ctx.ob("C18-R4", "writer/next-number", bool(inc and from_int and from_last), w, r,
                       "the next run number is int(<suffix of the last sorted previous run>) + 1",
                       [f"number term: {t!r}"])
    # parser prefix
    reps = [c for c in lib.method_calls(w, "replace")]
    for c in reps:
        try:
            toks = langs.fstring_tokens(c.args[0])
        except (langs.PatternError, IndexError):
            toks = []
        ctx.ob("C18-R4", "parser/prefix", toks == [("field", base_p), ("lit", "_run_")] and lib.const_str(c.args[1]) == "", w,
               lib.stmt_of(c), "the run number is what remains after removing `{base_name}_run_`",
               [f"tokens: {langs.show(toks)}"])
    # lister
    ls = ctx.fn(RES, "ProjectResultRegistry.previous_result_paths")
    lbase = ls.params()[1]
    globs = lib.method_calls(ls, "glob")
    ctx.sites("C18-R4", "lister glob", len(globs), 1)
    exact = False
    trace = []
    for g in globs:
        try:
            gt = langs.glob_tokens(langs.fstring_tokens(g.args[0], raw_glob=True))
        except langs.PatternError as e:
            trace.append(str(e))
            continue
        trace.append(f"glob: {langs.show(gt)}")
        if gt == [("field", lbase)] + SUFFIX:
            exact = True
    # regex filter with fullmatch
    for c in lib.method_calls(ls, "fullmatch") + [c for c in lib.calls(ls) if norm(c.func) == "re.fullmatch"]:
        pat = None
        if norm(c.func) == "re.fullmatch":
            pat = c.args[0]
            subj = c.args[1] if len(c.args) > 1 else None
        else:
            recv = c.func.value
            subj = c.args[0] if c.args else None
            if isinstance(recv, ast.Name):
                ds = lib.flow(ls, repo).defs_of(recv.id)
                if len(ds) == 1 and isinstance(ds[0].value, ast.Call) and norm(ds[0].value.func) == "re.compile":
                    pat = ds[0].value.args[0]
            elif isinstance(recv, ast.Call) and norm(recv.func) == "re.compile":
                pat = recv.args[0]
        if pat is None:
            continue
        try:
            rt = langs.strip_anchor(langs.fstring_tokens(pat, as_regex=True))
        except langs.PatternError as e:
            trace.append(str(e))
            continue
        trace.append(f"fullmatch regex: {langs.show(rt)} on {norm(subj) if subj is not None else '?'}")
        in_filter = any(isinstance(a, (ast.GeneratorExp, ast.ListComp)) and any(lib.is_inside(c, i) for g2 in a.generators for i in g2.ifs)
                        for a in lib.ancestors(c, ls.node))
        if rt == [("field", lbase)] + SUFFIX and subj is not None and norm(subj).endswith(".name") and in_filter:
            exact = True
    ctx.ob("C18-R4", "lister/exact-language", exact, ls, globs[0] if globs else ls.node,
           "previous runs of <name> are exactly the entries named `<name>_run_NNNN` (glob alone over-approximates: "
           "`<name>_run_*` also matches other results)", trace)
    srt = [c for c in lib.calls(ls) if norm(c.func) == "sorted"]
    ctx.ob("C18-R4", "lister/sorted", bool(srt) and all(isinstance(r.value, ast.Call) and norm(r.value.func) == "sorted"
                                                      for r in lib.nodes(ls, ast.Return)), ls, srt[0] if srt else ls.node,
           "the list of previous runs is sorted (the writer takes the last element as latest)",
           construct="return sorted(...)")
    # matcher
    reg = repo.cls(RES, "ProjectResultRegistry")
    pat = reg.class_assigns.get("result_pattern")
    mt = None
    if isinstance(pat, ast.Call) and norm(pat.func) == "re.compile":
        try:
            mt = langs.fstring_tokens(pat.args[0], as_regex=True)
        except langs.PatternError:
            mt = None
    ctx.ob("C18-R4", "matcher/pattern", mt == [("any+",)] + SUFFIX + [("end",)], None, pat or reg.node,
           "a name carries a run specifier iff it is a non-empty base followed by `_run_NNNN` at its end",
           [f"tokens: {langs.show(mt) if mt else '?'}"], construct=f"result_pattern = {norm(pat) if pat is not None else '?'}")
    fb = ctx.fn(RES, "ProjectResultRegistry._latest_result_path_fallback")
    ms = [c for c in lib.calls(fb) if norm(c.func) in ("re.match", "re.fullmatch") and "result_pattern" in norm(c.args[0])]
    ms += [c for c in lib.method_calls(fb, "match") + lib.method_calls(fb, "fullmatch") if "result_pattern" in norm(c.func.value)]
    ctx.ob("C18-R4", "matcher/use", len(ms) == 1, fb, ms[0] if ms else fb.node,
           "the fallback decides on the run specifier with an anchored match of result_pattern",
           construct=lib.short(ms[0]) if ms else "def _latest_result_path_fallback")
    # stripper: the name handed to the latest-lookup is the given name with exactly the run suffix removed
    n = 0
    for name, delegate in (("Project.get_latest_result_path", "get_result_path"), ("Project.load_latest_result", "load_result")):
        fi = ctx.fn(PRJ, name)
        flp = lib.flow(fi, ctx.repo)
        name_p = fi.params()[1]
        dels = [c for c in lib.method_calls(fi, delegate) if c.args]
        n += len(dels)
        for dc in dels:
            arg = dc.args[0]
            values = []
            if isinstance(arg, ast.Name):
                for d in flp.reaching(arg.id, lib.stmt_of(dc)):
                    values.append(None if d.kind == "param" else d.value)
            else:
                values.append(arg)
            for v in values:
                if v is None:
                    continue  # the name as given (no stripping on this path)
                v = flp.inline(v, lib.stmt_of(dc)) if not isinstance(v, ast.Name) else v
                toks = None
                shape = isinstance(v, ast.Call) and norm(v.func) == "re.sub" and len(v.args) == 3 and lib.const_str(v.args[1]) == "" \
                    and norm(v.args[2]) == name_p
                if shape:
                    p = v.args[0]
                    src = p
                    if not (isinstance(p, (ast.Constant, ast.JoinedStr))):
                        ch = lib.attr_chain(p)
                        src = (pat.args[0] if isinstance(pat, ast.Call) else None) if ch and ch[-1] == "result_pattern" else None
                    if src is not None:
                        try:
                            toks = langs.fstring_tokens(src, as_regex=True)
                        except langs.PatternError:
                            toks = None
                ok = bool(shape) and toks == SUFFIX + [("end",)]
                ctx.ob("C18-R4", f"stripper/{name}", ok, fi, lib.stmt_of(dc),
                       "the name looked up is the given name with only a trailing `_run_NNNN` removed (re.sub(r'_run_\\d{4}$', '', name)); "
                       "anything else (e.g. splitting at '_run_') truncates result names that contain '_run_' or turns a name into ''",
                       [f"value: {norm(v)}", f"tokens: {langs.show(toks) if toks else '?'}"], construct=lib.short(v, 100))
    ctx.sites("C18-R4", "latest-lookups delegating with a stripped name", n, 2)


def r3_forward(ctx) -> None:
    """The overwrite decision the user made is the one every layer acts on."""
    lib.check_option_forwarding(ctx, "C18-R3", ("allow_overwrite", "ignore_existing"), 8, prefixes=("glotaran/project/",))


def check(ctx) -> None:
    for g in check.groups:
        g(ctx)


check.groups = [r1, r2, r3, r4, r3_forward]
