"""C20 - model validation is sound and complete for references."""

from __future__ import annotations

import ast

from glint import lib
from glint.callgraph import callgraph
from glint.index import kwarg
from glint.index import norm

ITM = "glotaran/model/item.py"
MOD = "glotaran/model/model.py"
DSM = "glotaran/model/dataset_model.py"

DOC = {
    "explanation": (
        "Static decision of: every annotated attribute of every item class that mentions "
        "ParameterType/ModelItemType has one of the shapes the type-driven discovery can see "
        "(scalar, list, dict, each optionally `| None`); validator functions never subscript "
        "a model collection with a user label without a membership guard; issue collection, "
        "filling and parameter generation reach the same discovery functions and treat the "
        "same three structures with the same alias rule; aliases name a model collection; "
        "every model collection carries the metadata that makes validation iterate over it."
    ),
    "rules": {
        "C20-R1": "each item attribute whose annotation mentions ParameterType / ModelItemType[...] is `P`, `list[P]` or `dict[K, P]`, optionally `| None` (the only shapes strip_type_and_structure_from_attribute resolves)",
        "C20-R2": "functions installed as validator= (and their helpers) subscript model collections / metadata only under a membership test, so validate() reports instead of raising",
        "C20-R3": "get_item_model_issues, fill_item_model_attributes reach model_attributes; get_item_parameter_issues, fill_item_parameter_attributes and Model.get_parameter_labels reach parameter_attributes; the label iterator and the filler handle dict / list / scalar alike, skip the same empty values and resolve names through the same alias",
        "C20-R4": "every alias given to a model-item attribute names a collection of the model; every collection field of Model (and the generated dataset field) carries the items metadata so that get_issues visits its items",
    },
    "declined": ["soundness for arbitrary user-defined item types and validators outside this repository"],
    "assumptions": ["attrs.resolve_types / typing.get_origin / get_args semantics"],
}

REF = ("ParameterType", "ModelItemType")


def _mentions_ref(a: ast.AST) -> bool:
    return any(isinstance(n, ast.Name) and n.id in REF for n in ast.walk(a))


def _strip_none(a: ast.AST) -> ast.AST:
    if isinstance(a, ast.BinOp) and isinstance(a.op, ast.BitOr):
        if isinstance(a.right, ast.Constant) and a.right.value is None:
            return _strip_none(a.left)
        if isinstance(a.left, ast.Constant) and a.left.value is None:
            return _strip_none(a.right)
    if isinstance(a, ast.Subscript) and norm(a.value) in ("Optional", "typing.Optional"):
        return a.slice
    return a


def _is_ref(a: ast.AST) -> bool:
    if isinstance(a, ast.Name) and a.id == "ParameterType":
        return True
    if isinstance(a, ast.Subscript) and isinstance(a.value, ast.Name) and a.value.id == "ModelItemType":
        return not _mentions_ref(a.slice)
    return False


def shape_of(a: ast.AST) -> str | None:
    a = _strip_none(a)
    if _is_ref(a):
        return "scalar"
    if isinstance(a, ast.Subscript):
        base = norm(a.value)
        if base in ("list", "List", "typing.List") and _is_ref(a.slice):
            return "list"
        if base in ("dict", "Dict", "typing.Dict") and isinstance(a.slice, ast.Tuple) and len(a.slice.elts) == 2 \
                and _is_ref(a.slice.elts[1]) and not _mentions_ref(a.slice.elts[0]):
            return "dict"
    return None


def r1(ctx) -> None:
    repo = ctx.repo
    n = 0
    for ci in repo.classes.values():
        if ci.rel.startswith("glotaran/testing/") and ctx.tier != "thorough":
            continue
        for name, ann in ci.annotations.items():
            if not _mentions_ref(ann):
                continue
            n += 1
            sh = shape_of(ann)
            ctx.repo.consulted.add(ci.rel)
            ctx.ob("C20-R1", f"{ci.name}.{name}", sh is not None, None, ann,
                   "a parameter / model-item reference inside this annotation shape is invisible to validation, to "
                   "generate_parameters and to filling; supported: P, list[P], dict[K, P], each optionally `| None`"
                   + (f" (shape: {sh})" if sh else ""), construct=f"{ci.name}.{name}: {norm(ann)} @ {ci.rel}")
    ctx.sites("C20-R1", "reference annotated attributes", n, 37)
    # the resolver handles exactly these shapes
    st = ctx.fn(ITM, "strip_structure_type")
    txt = norm(st.node)
    ctx.ob("C20-R1", "strip_structure_type/list-and-dict", "structure is list" in txt and "get_args(definition)[0]" in txt
           and "structure is dict" in txt and "get_args(definition)[1]" in txt, st, st.node,
           "list[X] resolves to its element type, dict[K, X] to its value type", construct="def strip_structure_type")
    sa = ctx.fn(ITM, "strip_type_and_structure_from_attribute")
    calls = [norm(c.func) for c in lib.calls(sa)]
    order_ok = calls[:3] == ["strip_option_type", "strip_structure_type", "strip_option_type"]
    c3 = lib.calls(sa)[2] if len(lib.calls(sa)) > 2 else None
    ctx.ob("C20-R1", "strip_type_and_structure_from_attribute/order", order_ok and c3 is not None
           and kwarg(c3, "strip_type") is not None and norm(kwarg(c3, "strip_type")) == "str", sa, sa.node,
           "Optional is stripped first, then the container, then the `| str` of the reference alias",
           construct="strip_option_type -> strip_structure_type -> strip_option_type(strip_type=str)")


def r2(ctx) -> None:
    repo = ctx.repo
    validators = []
    for fi in repo.functions.values():
        pass
    for ci in repo.classes.values():
        for name, val in ci.class_assigns.items():
            if isinstance(val, ast.Call) and norm(val.func) == "attribute":
                v = kwarg(val, "validator")
                if v is not None:
                    q = repo.resolve_expr(ci.module, v)
                    if q in repo.functions:
                        validators.append((ci, name, repo.functions[q]))
    ctx.sites("C20-R2", "validator functions", len(validators), 4)
    seen = set()
    work = [f for _, _, f in validators]
    helpers = []
    for f in work:
        for c in lib.calls(f):
            q = repo.resolve_expr(f.module, c.func)
            if q in repo.functions and repo.functions[q] not in work and repo.functions[q].rel.startswith("glotaran/model/"):
                helpers.append(repo.functions[q])
    core = [ctx.fn(ITM, "get_item_model_issues"), ctx.fn(ITM, "get_item_parameter_issues"), ctx.fn(ITM, "get_item_validator_issues"),
            ctx.fn(ITM, "get_item_issues"), ctx.fn(MOD, "Model.get_issues")]
    n = 0
    for f in work + helpers + core:
        if f.qualname in seen:
            continue
        seen.add(f.qualname)
        ctx.touch(f)
        fl = lib.flow(f, repo)
        for sub in lib.nodes(f, ast.Subscript, nested=True):
            if not isinstance(sub.ctx, ast.Load) or isinstance(sub.slice, (ast.Constant, ast.Slice)):
                continue
            base = sub.value
            bt = norm(base)
            ch = lib.attr_chain(base)
            is_model_collection = bool(ch and len(ch) == 2 and ch[0] in ("model", "self") and f.rel.startswith("glotaran/model/")
                                       and ch[0] in f.params())
            is_metadata = bt.endswith(".metadata")
            is_getattr_model = isinstance(base, ast.Call) and norm(base.func) == "getattr" and base.args and norm(base.args[0]) == "model"
            if not (is_model_collection or is_metadata or is_getattr_model):
                continue
            n += 1
            key = norm(sub.slice)

            def member(test, pol, at, key=key, bt=bt):
                if not pol:
                    return False
                for cmp_ in ast.walk(test):
                    if isinstance(cmp_, ast.Compare) and len(cmp_.ops) == 1 and isinstance(cmp_.ops[0], ast.In):
                        if norm(cmp_.left) == key and norm(cmp_.comparators[0]) == bt:
                            return True
                return False

            g = lib.guarded_by(fl, sub, member)
            ctx.ob("C20-R2", f"{f.short}/guarded-lookup:{bt}[{key}]", g is not None, f, lib.stmt_of(sub),
                   f"`{bt}[{key}]` is looked up with a label that comes from the user's model; without the guard "
                   f"`{key} in {bt}` an undefined label makes validate() raise KeyError instead of reporting an issue")
    ctx.sites("C20-R2", "label keyed lookups in validation code", n, 2)
    # issue collection order / completeness
    gi = ctx.fn(ITM, "get_item_issues")
    names = [norm(c.func) for c in lib.calls(gi)]
    ctx.ob("C20-R2", "get_item_issues/collects-all-kinds", all(x in names for x in
           ("get_item_model_issues", "get_item_validator_issues", "get_item_parameter_issues")), gi, gi.node,
           "model-item, validator and parameter issues are all collected", construct=", ".join(names))
    mi = ctx.fn(ITM, "get_item_model_issues")
    pi = ctx.fn(ITM, "get_item_parameter_issues")
    ok1 = any(isinstance(n_, ast.Compare) and isinstance(n_.ops[0], ast.NotIn) and norm(n_.left) == "label"
              and norm(n_.comparators[0]) == "getattr(model, name)" for n_ in ast.walk(mi.node))
    ok2 = "not parameters.has(label)" in norm(pi.node)
    ctx.ob("C20-R2", "get_item_model_issues/reports-missing", ok1, mi, mi.node, "an issue for every label not in the model collection",
           construct="label not in getattr(model, name)")
    ctx.ob("C20-R2", "get_item_parameter_issues/reports-missing", ok2, pi, pi.node, "an issue for every label the parameters do not have",
           construct="not parameters.has(label)")
    gmi = ctx.fn(DSM, "get_megacomplex_issues")
    flg = lib.flow(gmi, repo)
    for issue, pred in (("UniqueMegacomplexIssue", "is_unique"), ("ExclusiveMegacomplexIssue", "is_exclusive")):
        cs = [c for c in lib.calls(gmi) if norm(c.func) == issue]
        okc = False
        trace = []
        for c in cs:
            g = next((a for a in lib.ancestors(c, gmi.node) if isinstance(a, ast.If)), None)
            if g is None:
                continue
            t = g.test
            conj = t.values if isinstance(t, ast.BoolOp) and isinstance(t.op, ast.And) else [t]
            has_pred = any(isinstance(x, ast.Call) and norm(x.func) == pred and x.args and norm(x.args[0]) == "megacomplex_type" for x in conj)
            cnt_ok = False
            for x in conj:
                if isinstance(x, ast.Compare) and len(x.ops) == 1 and isinstance(x.ops[0], ast.Gt) and isinstance(x.comparators[0], ast.Constant) and x.comparators[0].value == 1:
                    l = x.left
                    if pred == "is_exclusive":
                        cnt_ok = norm(l) == "len(megacomplexes)"
                    else:
                        # number of megacomplexes *of that type* in this dataset
                        if isinstance(l, ast.Call) and norm(l.func) in ("len", "sum") and l.args and isinstance(l.args[0], (ast.ListComp, ast.GeneratorExp)):
                            comp = l.args[0]
                            gen = comp.generators[0]
                            conds = [norm(i).replace(" ", "") for i in gen.ifs] + ([norm(comp.elt).replace(" ", "")] if norm(l.func) == "sum" else [])
                            var = norm(gen.target)
                            typed = any(cnd in (f"{var}.__class__ismegacomplex_type", f"type({var})ismegacomplex_type", f"isinstance({var},megacomplex_type)",
                                                f"{var}.__class__==megacomplex_type", f"type({var})==megacomplex_type") for cnd in conds)
                            cnt_ok = typed and norm(gen.iter) == "megacomplexes"
                    trace.append(f"count expression: {norm(l)}")
            okc = okc or (has_pred and cnt_ok)
        ctx.ob("C20-R2", f"get_megacomplex_issues/{pred}-semantics", okc, gmi, cs[0] if cs else gmi.node,
               ("a unique megacomplex type may occur once per dataset: the count is over megacomplexes *of the same type* "
                "(differently labelled instances of one unique type must be reported)") if pred == "is_unique" else
               "an exclusive megacomplex must be the dataset's only megacomplex", trace, construct=lib.short(cs[0], 90) if cs else "def")
    mt = [d for d in flg.defs_of("megacomplex_type") if d.kind == "assign"]
    ctx.ob("C20-R2", "get_megacomplex_issues/type-of-instance", any(norm(d.value) in ("megacomplex.__class__", "type(megacomplex)") for d in mt), gmi,
           mt[0].stmt if mt else gmi.node, "the type examined is the class of the megacomplex instance")
    txt = norm(gmi.node)
    ctx.ob("C20-R2", "get_megacomplex_issues/exclusive-and-unique", "is_exclusive(" in txt and "ExclusiveMegacomplexIssue(" in txt
           and "is_unique(" in txt and "UniqueMegacomplexIssue(" in txt, gmi, gmi.node,
           "exclusive and unique megacomplex violations are reported", construct="def get_megacomplex_issues")


def r3(ctx) -> None:
    repo = ctx.repo
    cg = callgraph(repo)
    pairs = [
        ("get_item_model_issues", ITM, "get_item_model_issues", "model_attributes"),
        ("fill_item_model_attributes", ITM, "fill_item_model_attributes", "model_attributes"),
        ("get_item_parameter_issues", ITM, "get_item_parameter_issues", "parameter_attributes"),
        ("fill_item_parameter_attributes", ITM, "fill_item_parameter_attributes", "parameter_attributes"),
        ("Model.get_parameter_labels", MOD, "Model.get_parameter_labels", "parameter_attributes"),
        ("Model.generate_parameters", MOD, "Model.generate_parameters", "parameter_attributes"),
    ]
    mi = repo.module(ITM)
    for label, rel, name, target in pairs:
        f = ctx.fn(rel, name)
        reach = cg.reachable_from([f.qualname])
        tq = f"{mi.name}.{target}"
        ctx.ob("C20-R3", f"{label}/reaches:{target}", tq in reach, f, f.node,
               f"{label} discovers references through {target} (one discovery shared by validation, filling and generation)",
               construct=f"{name} ->* {target}")
    # both discovery functions share iterate_attributes_of_type / strip_type_and_structure_from_attribute
    for target in ("model_attributes", "parameter_attributes"):
        f = ctx.fn(ITM, target)
        reach = cg.reachable_from([f.qualname])
        ctx.ob("C20-R3", f"{target}/type-driven", f"{mi.name}.strip_type_and_structure_from_attribute" in reach, f, f.node,
               "discovery is driven by the resolved attribute types", construct=f"{target} ->* strip_type_and_structure_from_attribute")
    # validation and filling must discover the *same* attribute set: same arguments at every discovery call site
    sites = []
    for fi in repo.functions.values():
        for c in lib.calls(fi, nested=True):
            nm = c.func.id if isinstance(c.func, ast.Name) else (c.func.attr if isinstance(c.func, ast.Attribute) else "")
            if nm == "model_attributes" and fi.rel.startswith("glotaran/model/"):
                top = fi
                while top.parent is not None:
                    top = top.parent
                wa = kwarg(c, "with_alias") or (c.args[1] if len(c.args) > 1 else None)
                sites.append((top, c, wa))
    ctx.sites("C20-R3", "model_attributes call sites", len(sites), 3)
    for top, c, wa in sites:
        with_alias = wa is None or (isinstance(wa, ast.Constant) and wa.value is True)
        if top.name == "_create_attributes_for_item":
            continue  # creates the model's collections: one per non-aliased attribute (C20-R4)
        ctx.ob("C20-R3", f"{top.short}/discovers-aliased-attributes-too", with_alias, top, lib.stmt_of(c),
               "validation and filling must both see aliased model-item attributes (e.g. global_megacomplex -> megacomplex); "
               "excluding them on one side lets a model validate that cannot be filled")
    it = ctx.fn(ITM, "iterate_names_and_labels")
    fa = ctx.fn(ITM, "fill_item_attributes")
    for f in (it, fa):
        txt = norm(f.node)
        ok = "structure is dict" in txt and "structure is list" in txt and ".values()" in txt or ".items()" in txt
        ctx.ob("C20-R3", f"{f.name}/three-structures", "structure is dict" in txt and "structure is list" in txt
               and (".values()" in txt or ".items()" in txt), f, f.node,
               "dict, list and scalar references are all visited", construct="if structure is dict ... elif structure is list ... else")
        ctx.ob("C20-R3", f"{f.name}/alias-rule", "attr.metadata.get(META_ALIAS, attr.name)" in txt, f, f.node,
               "the model collection is the alias if given, else the attribute name (same rule in validation and filling)",
               construct="attr.metadata.get(META_ALIAS, attr.name)")
        skips = [n for n in lib.nodes(f, ast.If) if norm(n.test) == "not value" and n.body and isinstance(n.body[-1], ast.Continue)]
        ctx.ob("C20-R3", f"{f.name}/skips-empty", len(skips) == 1, f, skips[0] if skips else f.node,
               "unset / empty references are skipped identically by validation and filling", construct="if not value: continue")
        lab = txt.count("isinstance(v, str)") >= 2 and "v.label" in txt
        ctx.ob("C20-R3", f"{f.name}/label-of-filled-or-unfilled", lab, f, f.node,
               "a reference is either a label string or an already filled item whose .label is used", construct="v if isinstance(v, str) else v.label")
        _ = ok
    # filling resolves through the same model collections
    fm = ctx.fn(ITM, "fill_item_model_attributes")
    ctx.ob("C20-R3", "fill_item_model_attributes/same-collection", "getattr(model, name)[label]" in norm(fm.node), fm, fm.node,
           "filling looks the label up in getattr(model, name), the collection validation checked", construct="getattr(model, name)[label]")
    fp = ctx.fn(ITM, "fill_item_parameter_attributes")
    ctx.ob("C20-R3", "fill_item_parameter_attributes/same-lookup", "parameters.get(label)" in norm(fp.node), fp, fp.node,
           "filling resolves parameters with parameters.get(label); validation checked parameters.has(label)", construct="parameters.get(label)")


def r4(ctx) -> None:
    repo = ctx.repo
    model = repo.cls(MOD, "Model")
    static_fields = set(model.annotations)
    item_attr_names = set()
    aliases = []
    for ci in repo.classes.values():
        for name, ann in ci.annotations.items():
            if any(isinstance(n, ast.Name) and n.id == "ModelItemType" for n in ast.walk(ann)):
                val = ci.class_assigns.get(name)
                al = None
                if isinstance(val, ast.Call) and norm(val.func) == "attribute":
                    a = kwarg(val, "alias")
                    al = lib.const_str(a) if a is not None else None
                if al is None:
                    item_attr_names.add(name)
                else:
                    aliases.append((ci, name, al, val))
    ctx.sites("C20-R4", "aliased model-item attributes", len(aliases), 1)
    for ci, name, al, val in aliases:
        ctx.repo.consulted.add(ci.rel)
        ctx.ob("C20-R4", f"{ci.name}.{name}/alias:{al}", al in static_fields or al in item_attr_names, None, val,
               f"alias '{al}' must name a collection of the model (a Model field or a non-aliased model-item attribute); "
               "validation and filling call getattr(model, alias)", construct=f"{ci.name}.{name} = {lib.short(val, 80)}")
    # collections carry the items metadata
    for name, ann in model.annotations.items():
        val = model.class_assigns.get(name)
        t = norm(ann)
        is_collection = t.startswith("dict[str,") or t.startswith("list[")
        if not is_collection:
            continue
        if name == "dataset":
            continue
        has_meta = val is not None and ("metadata=META" in norm(val) or norm(val.func if isinstance(val, ast.Call) else val)
                                        in ("_global_item_attribute", "_model_item_attribute"))
        ctx.ob("C20-R4", f"Model.{name}/items-metadata", has_meta, None, val or ann,
               "a collection without the items metadata is skipped by iterate_items, so its items are never validated",
               construct=f"Model.{name}: {t} = {lib.short(val, 70) if val is not None else '<no default>'}")
    ccm = ctx.fn(MOD, "Model.create_class_from_megacomplexes")
    st = [s for t, s in lib.stores(ccm) if isinstance(t, ast.Subscript) and lib.const_str(t.slice) == "dataset"]
    ctx.ob("C20-R4", "Model.dataset/items-metadata", bool(st) and "_model_item_attribute" in norm(st[0].value) if st else False, ccm,
           st[0] if st else ccm.node, "the generated model class declares `dataset` as a model-item collection",
           construct=lib.short(st[0]) if st else "def create_class_from_megacomplexes")
    for helper in ("_global_item_attribute", "_model_item_attribute"):
        f = ctx.fn(MOD, helper)
        ctx.ob("C20-R4", f"{helper}/metadata", "metadata=META" in norm(f.node), f, f.node, "item collections are tagged with META",
               construct="ib(..., metadata=META)")
    ii = ctx.fn(MOD, "Model.iterate_items")
    ctx.ob("C20-R4", "Model.iterate_items/by-metadata", "META_ITEMS in attr.metadata" in norm(ii.node), ii, ii.node,
           "get_issues visits exactly the tagged collections", construct="if META_ITEMS in attr.metadata")
    cai = ctx.fn(MOD, "_create_attributes_for_item")
    c = [x for x in lib.calls(cai) if norm(x.func) == "model_attributes"]
    okc = bool(c) and kwarg(c[0], "with_alias") is not None and norm(kwarg(c[0], "with_alias")) == "False"
    ctx.ob("C20-R4", "_create_attributes_for_item/collections-for-non-aliased", okc, cai, c[0] if c else cai.node,
           "the model gets one collection per non-aliased model-item attribute (the names validation resolves)",
           construct=lib.short(c[0]) if c else "def")


def r3_entry(ctx) -> None:
    """Every item of every collection is visited, and every validation entry point forwards the parameters."""
    repo = ctx.repo
    ia = ctx.fn(MOD, "Model.iterate_all_items")
    fl = lib.flow(ia, repo)
    loops = [lp for lp in lib.nodes(ia, ast.For) if "iterate_items" in norm(lp.iter)]
    ok = len(loops) == 1
    var = None
    if ok:
        tgt = loops[0].target
        var = norm(tgt.elts[1]) if isinstance(tgt, ast.Tuple) and len(tgt.elts) == 2 else None
        ok = var is not None
    dict_side = list_side = False
    if ok:
        for y in [n for n in ast.walk(loops[0]) if isinstance(n, (ast.YieldFrom, ast.Yield))]:
            v = y.value
            alts = [(v.body, True), (v.orelse, False)] if isinstance(v, ast.IfExp) and norm(v.test) == f"isinstance({var}, dict)" else None
            if alts is None:
                def cond_ok(test, polarity, at):
                    e, pos = lib.strip_not(test)
                    return norm(e) == f"isinstance({var}, dict)"
                g = lib.guarded_by(fl, y, cond_ok, ia.node)
                pol = None
                if g is not None:
                    # polarity of the recognised guard
                    def cond_pos(test, polarity, at):
                        e, pos = lib.strip_not(test)
                        return norm(e) == f"isinstance({var}, dict)" and polarity == pos
                    pol = lib.guarded_by(fl, y, cond_pos, ia.node) is not None
                alts = [(v, pol)]
            for e, pol in alts:
                t = norm(e)
                if t == f"{var}.values()" and pol is True:
                    dict_side = True
                if t == var and pol is not True:
                    list_side = True
    ctx.ob("C20-R3", "Model.iterate_all_items/dict-collections", ok and dict_side, ia, loops[0] if loops else ia.node,
           "items of dict-typed collections (labelled items) are visited through .values()")
    ctx.ob("C20-R3", "Model.iterate_all_items/list-collections", ok and list_side, ia, loops[0] if loops else ia.node,
           "items of list-typed collections (clp_constraints, clp_relations, clp_penalties, weights) are visited as well: otherwise their "
           "references are neither validated nor generated, yet filling them raises")
    gi = ctx.fn(MOD, "Model.get_issues")
    lp = [l_ for l_ in lib.nodes(gi, ast.For) if norm(l_.iter) == "self.iterate_all_items()"]
    cs = [c for c in lib.calls(gi) if norm(c.func) == "get_item_issues"]
    okg = len(lp) == 1 and len(cs) == 1 and lib.is_inside(cs[0], lp[0]) and {k.arg: norm(k.value) for k in cs[0].keywords} == \
        {"item": norm(lp[0].target), "model": "self", "parameters": gi.params()[1]} if lp else False
    ctx.ob("C20-R3", "Model.get_issues/all-items-with-parameters", bool(okg), gi, cs[0] if cs else gi.node,
           "every item of the model is checked against the model and the given parameters", construct=lib.short(cs[0], 110) if cs else "def get_issues")
    for nm in ("Model.validate", "Model.valid"):
        f = ctx.fn(MOD, nm)
        cs = [c for c in lib.method_calls(f, "get_issues") if lib.chain_text(c.func.value) == "self"]
        pv = [norm(k.value) for c in cs for k in c.keywords if k.arg == "parameters"] + [norm(c.args[0]) for c in cs if c.args]
        ctx.ob("C20-R3", f"{nm}/forwards-parameters", len(cs) == 1 and pv == [f.params()[1]], f, cs[0] if cs else f.node,
               "the parameters given to the entry point are the ones the issues are computed with", construct=lib.short(cs[0], 90) if cs else "def")
    SCH = "glotaran/project/scheme.py"
    for nm, callee in (("Scheme.validate", "validate"), ("Scheme.valid", "valid")):
        f = ctx.fn(SCH, nm)
        cs = [c for c in lib.method_calls(f, callee) if lib.chain_text(c.func.value) == "self.model"]
        pv = [norm(k.value) for c in cs for k in c.keywords if k.arg == "parameters"] + [norm(c.args[0]) for c in cs if c.args]
        ctx.ob("C20-R3", f"{nm}/forwards-scheme-parameters", len(cs) == 1 and pv == ["self.parameters"], f, cs[0] if cs else f.node,
               "a scheme is validated with its own parameters: without them missing parameters go unreported although filling raises",
               construct=lib.short(cs[0], 90) if cs else "def")


def r3_lookup(ctx) -> None:
    """Validation asks `Parameters.has`, filling asks `Parameters.get`: both decide on exact membership in the same mapping."""
    PRS_ = "glotaran/parameter/parameters.py"
    has = ctx.fn(PRS_, "Parameters.has")
    get = ctx.fn(PRS_, "Parameters.get")
    lp = has.params()[1]
    rets = lib.nodes(has, ast.Return)
    ok = len(rets) == 1 and norm(rets[0].value) in (f"{lp} in self._parameters", f"{lp} in self._parameters.keys()")
    ctx.ob("C20-R3", "Parameters.has/exact-membership", ok, has, rets[0] if rets else has.node,
           "`has(label)` is exactly `label in self._parameters`: anything more generous (prefixes, groups) makes validation accept a "
           "reference that `get` cannot resolve", construct=lib.short(rets[0], 110) if rets else "def has")
    gp = get.params()[1]
    reads = [n for n in lib.nodes(get, ast.Subscript) if norm(n.value) == "self._parameters" and norm(n.slice) == gp]
    raises = [r for r in lib.nodes(get, ast.Raise) if "ParameterNotFoundException" in norm(r)]
    ctx.ob("C20-R3", "Parameters.get/same-mapping", bool(reads) and bool(raises), get, reads[0] if reads else get.node,
           "`get(label)` reads self._parameters[label] and raises ParameterNotFoundException otherwise")
    # the validator uses has(), the filler uses get(), with the same label expression
    ITM_ = "glotaran/model/item.py"
    gi = ctx.fn(ITM_, "get_item_parameter_issues")
    uses = [c for c in lib.calls(gi, nested=True) if isinstance(c.func, ast.Attribute) and c.func.attr in ("has", "get") and "parameters" in norm(c.func.value)]
    ctx.ob("C20-R3", "get_item_parameter_issues/asks-has", bool(uses) and all(c.func.attr == "has" for c in uses), gi, uses[0] if uses else gi.node,
           "missing parameters are detected with parameters.has(label)")


def check(ctx) -> None:
    for g in check.groups:
        g(ctx)


check.groups = [r1, r2, r3, r4, r3_entry, r3_lookup]
