"""C09 - CLP linking aligns global axes faithfully."""

from __future__ import annotations

import ast

from glint import lib
from glint.idxspace import position_source
from glint.idxspace import space_of
from glint.index import norm
from glint.terms import Poly

DAT = "glotaran/optimization/data_provider.py"
MAT = "glotaran/optimization/matrix_provider.py"
EST = "glotaran/optimization/estimation_provider.py"

DOC = {
    "explanation": (
        "Static decision of: the index used to read the target axis in align_index being a "
        "position of the target axis itself (index-space typing: masks and fancy selections "
        "create a new space); the permitted side per clp_link_method and the closed tolerance "
        "test (comparison discipline on `target - value`); the ambiguity refusal dominating "
        "the update of the accumulated axis, which stays sorted/unique; all stackers of the "
        "linked providers iterating one mapping in one (unsorted, unfiltered) order and the "
        "result slicer using that same order."
    ),
    "rules": {
        "C09-R5": "every function that accepts clp_link_tolerance / clp_link_method and calls another one that accepts it hands its own unmodified value on (Project.optimize -> create_scheme -> Scheme); DatasetGroup.is_linkable links automatically only when the union of the non-model dimensions over all datasets is one name",
        "C09-R1": "target_axis is subscripted with a position of target_axis' own index space",
        "C09-R2": "diff = target - value; forward keeps diff >= 0, backward keeps diff <= 0, nearest keeps all; the aligned value is taken only if min(|diff|) <= tolerance (closed); otherwise the value itself is returned",
        "C09-R3": "for every dataset after the first the AlignDatasetError test (duplicates after alignment) dominates the update of the accumulated axis, which is np.unique of old and new values; the first dataset defines the axis",
        "C09-R4": "align_data, align_dataset_indices, align_groups, align_weights iterate the same mapping of aligned axes in its own order; matrices and scales are stacked in group_definitions order and get_result slices residuals by the cumulative model-axis sizes of exactly the preceding datasets of that order",
    },
    "declined": ["nearest-ness and exactly-once assignment for arbitrary axis value sets (values)", "NaN semantics of dropna / outer-join concatenation (xarray)"],
    "assumptions": ["xr.concat with an outer join keeps the order of the objects it is given along the concatenated dimension"],
}


def r1_r2(ctx) -> None:
    repo = ctx.repo
    fi = ctx.fn(DAT, "DataProviderLinked.align_index")
    fl = lib.flow(fi, repo)
    params = fi.params()
    val_p, target_p, tol_p, method_p = params[0], params[1], params[2], params[3]
    # R1
    subs = [n for n in lib.nodes(fi, ast.Subscript) if isinstance(n.ctx, ast.Load) and isinstance(n.value, ast.Name)
            and n.value.id == target_p and not isinstance(n.slice, ast.Slice)]
    ctx.sites("C09-R1", "reads of the target axis by position", len(subs), 1)
    for n in subs:
        st = lib.stmt_of(n)
        ps = position_source(fl, n.slice, st, {target_p})
        if ps is None:
            ctx.ob("C09-R1", "align_index/target-read", False, fi, st,
                   f"`{norm(n)}`: cannot establish that the index is a position of `{target_p}`")
            continue
        kind, sp = ps
        ctx.ob("C09-R1", "align_index/target-read", sp.same_as(target_p), fi, st,
               f"`{norm(n)}` indexes `{target_p}` with a position ({kind}) of an array living in index space "
               f"[{sp.describe()}]; it must be the space of `{target_p}` itself, a boolean-mask / fancy selection renumbers positions",
               sp.trace)
    # R2 sign convention and sides
    diffs = [d for d in fl.defs_of("diff")] if fl.defs_of("diff") else []
    first = None
    for n in lib.nodes(fi, ast.If):
        pass
    # the definition every method branch starts from
    base_def = None
    for d in fl.defs_of("diff"):
        if d.kind == "assign" and all(dd.kind == "param" for nm in lib.names_in(d.value) for dd in fl.reaching(nm, d.node) if nm in params):
            t = fl.term(d.value, d.node)
            if t == Poly.atom(("name", target_p)) - Poly.atom(("name", val_p)):
                base_def = d
    ctx.ob("C09-R2", "align_index/diff-sign", base_def is not None, fi, base_def.stmt if base_def else fi.node,
           f"the signed distance is `{target_p} - {val_p}` (positive = target lies ahead)",
           construct=lib.short(base_def.stmt) if base_def else "def align_index")
    want = {"forward": (ast.GtE,), "backward": (ast.LtE,)}
    seen = set()
    for n in lib.nodes(fi, ast.If):
        t = n.test
        if isinstance(t, ast.Compare) and len(t.ops) == 1 and isinstance(t.ops[0], ast.Eq) and isinstance(t.left, ast.Name) \
                and t.left.id == method_p and lib.const_str(t.comparators[0]) in want:
            m = lib.const_str(t.comparators[0])
            seen.add(m)
            body = ast.Module(body=n.body, type_ignores=[])
            cmps = [c for c in ast.walk(body) if isinstance(c, ast.Compare) and len(c.ops) == 1 and isinstance(c.left, ast.Name)
                    and c.left.id == "diff" and isinstance(c.comparators[0], ast.Constant) and c.comparators[0].value == 0]
            flipped = [c for c in ast.walk(body) if isinstance(c, ast.Compare) and len(c.ops) == 1 and isinstance(c.comparators[0], ast.Name)
                       and c.comparators[0].id == "diff" and isinstance(c.left, ast.Constant) and c.left.value == 0]
            ok = False
            for c in cmps:
                ok = ok or isinstance(c.ops[0], want[m])
            for c in flipped:
                inv = {"forward": ast.LtE, "backward": ast.GtE}[m]
                ok = ok or isinstance(c.ops[0], inv)
            # the compared diff must still be the signed distance
            for c in cmps + flipped:
                nm = c.left if isinstance(c.left, ast.Name) else c.comparators[0]
                tt = fl.term(nm, lib.stmt_of(c))
                if tt != Poly.atom(("name", target_p)) - Poly.atom(("name", val_p)):
                    ok = False
            ctx.ob("C09-R2", f"align_index/side:{m}", ok and len(cmps) + len(flipped) == 1, fi, n,
                   f"method '{m}' keeps exactly the candidates with `{target_p} - {val_p}` "
                   f"{'>=' if m == 'forward' else '<='} 0 (closed: an exact match is always permitted)",
                   construct=f"if {norm(t)}: " + "; ".join(lib.short(s, 60) for s in n.body))
    for m in want:
        if m not in seen:
            ctx.ob("C09-R2", f"align_index/side:{m}", False, fi, fi.node, f"no branch for method '{m}'", construct="def align_index")
    # tolerance test
    tol_ifs = [n for n in lib.nodes(fi, ast.If) if tol_p in lib.names_in(n.test)]
    ctx.sites("C09-R2", "tolerance test", len(tol_ifs), 1)
    for n in tol_ifs:
        ok = False
        for c in ast.walk(n.test):
            if isinstance(c, ast.Compare) and len(c.ops) == 1:
                l, r = norm(c.left), norm(c.comparators[0])
                if r == tol_p and isinstance(c.ops[0], ast.LtE) and ("min" in l):
                    ok = True
                if l == tol_p and isinstance(c.ops[0], ast.GtE) and ("min" in r):
                    ok = True
        ctx.ob("C09-R2", "align_index/tolerance-closed", ok, fi, n,
               f"a point is aligned iff the smallest permitted distance is <= `{tol_p}` (closed)", construct="if " + norm(n.test))
        # the minimum is taken over |diff|
        mins = [c for c in ast.walk(n.test) if isinstance(c, ast.Call) and ((isinstance(c.func, ast.Attribute) and c.func.attr == "min")
                                                                            or norm(c.func) in ("np.min", "min"))]
        absd = False
        for c in mins:
            arr = c.func.value if isinstance(c.func, ast.Attribute) and c.func.attr == "min" and norm(c.func.value) not in ("np",) else (c.args[0] if c.args else None)
            if arr is not None:
                tt = fl.term(arr, n)
                absd = absd or any(a[0] == "call" and a[1] == "abs" for a in tt.all_atoms()) or any(
                    a[0] == "phi" and "abs" in repr(a) for a in tt.all_atoms())
        ctx.ob("C09-R2", "align_index/distance-is-absolute", absd, fi, n, "the tolerance is compared with the absolute distance",
               construct="if " + norm(n.test))
    rets = lib.nodes(fi, ast.Return)
    for r in rets:
        ok = isinstance(r.value, ast.Name)
        if ok:
            ds = fl.reaching(r.value.id, r)
            kinds = {d.kind for d in ds}
            ok = "param" in kinds and r.value.id == val_p
        ctx.ob("C09-R2", "align_index/returns-value-or-target", ok, fi, r,
               "an unaligned point keeps its own value (the parameter is returned unless it was replaced by a target point)")


def r3(ctx, rule: str = "C09-R3") -> None:
    repo = ctx.repo
    fi = ctx.fn(DAT, "DataProviderLinked.create_aligned_global_axes")
    fl = lib.flow(fi, repo)
    cfg = fl.cfg
    rs = [r for r in lib.raises(fi) if (lib.raised_name(repo, fi, r) or "").endswith("AlignDatasetError")]
    if not ctx.ob(rule, "create_aligned_global_axes/raises", bool(rs), fi, rs[0] if rs else fi.node,
                  "an ambiguous alignment raises AlignDatasetError", construct=lib.short(rs[0]) if rs else "def"):
        return
    guard = None
    for a in lib.ancestors(rs[0], fi.node):
        if isinstance(a, ast.If) and lib.field_of(rs[0], a) == "body":
            guard = a
            break
    t = norm(guard.test) if guard is not None else ""
    ok_test = guard is not None and "np.unique(" in t and "len(" in t and any(isinstance(c, ast.Compare) and isinstance(c.ops[0], (ast.NotEq, ast.Lt, ast.Gt))
                                                                         for c in ast.walk(guard.test))
    ctx.ob(rule, "create_aligned_global_axes/ambiguity-test", ok_test, fi, guard or fi.node,
           "ambiguity = two points of one dataset mapped to the same aligned value (fewer unique values than points)",
           construct="if " + t)
    acc = None
    for d in fl.defs_of("aligned_axis_values") if fl.defs_of("aligned_axis_values") else []:
        pass
    acc_name = None
    # the accumulated axis is the variable passed as target to align_index
    for c in lib.calls(fi):
        if isinstance(c.func, ast.Attribute) and c.func.attr == "align_index" and len(c.args) >= 2 and isinstance(c.args[1], ast.Name):
            acc_name = c.args[1].id
    if acc_name is None:
        ctx.ob(rule, "create_aligned_global_axes/accumulator", False, fi, fi.node, "cannot find the accumulated axis", construct="def")
        return
    updates = [d for d in fl.defs_of(acc_name) if d.kind == "assign" and not (isinstance(d.value, ast.Constant) and d.value.value is None)]
    ctx.sites(rule, "updates of the accumulated axis", len(updates), 2)
    n_checked = 0
    for d in updates:
        v = fl.inline(d.value, d.stmt)  # temporaries looked through
        is_merge = isinstance(v, ast.Call) and norm(v.func) in ("np.unique", "numpy.unique")
        if is_merge:
            n_checked += 1
            ctx.ob(rule, "create_aligned_global_axes/refusal-first", guard is not None and cfg.dominates(guard, d.stmt)
                   and lib.stmt_of(guard).lineno < d.stmt.lineno, fi, d.stmt,
                   "the ambiguity test must dominate the merge of a dataset's aligned points into the accumulated axis")
            inner = v.args[0] if v.args else None
            ok = isinstance(inner, ast.Call) and norm(inner.func) in ("np.concatenate", "numpy.concatenate") and acc_name in lib.names_in(inner)
            # what is merged in: the *aligned* points of this dataset (the comprehension of align_index results)
            if ok:
                lst = inner.args[0] if inner.args else None
                elts = lst.elts if isinstance(lst, (ast.List, ast.Tuple)) else []
                others = [e for e in elts if not (isinstance(e, ast.Name) and e.id == acc_name)]
                aligned_ok = len(elts) == 2 and len(others) == 1 and (
                    (isinstance(others[0], ast.ListComp) and "align_index" in norm(others[0]))
                    or (isinstance(others[0], ast.Name) and any(
                        dd.kind == "assign" and isinstance(dd.value, ast.ListComp) and "align_index" in norm(dd.value)
                        for dd in fl.reaching(others[0].id, d.stmt)) and all(
                        dd.kind == "assign" and isinstance(dd.value, ast.ListComp) for dd in fl.reaching(others[0].id, d.stmt))))
                ctx.ob(rule, "create_aligned_global_axes/merges-aligned-points", aligned_ok, fi, d.stmt,
                       "the accumulated axis is extended by the dataset's *aligned* points; merging the original axis leaves the "
                       "old coordinate of every moved point behind as a ghost target for later datasets")
            ctx.ob(rule, "create_aligned_global_axes/merge-sorted-unique", ok, fi, d.stmt,
                   "the accumulated axis is np.unique(concatenate([old axis, aligned points])): strictly increasing, no duplicates")
        else:
            # first dataset: the axis itself, taken only when nothing was accumulated yet
            def none_test(test, pol, at):
                tt = norm(test)
                return pol and tt in (f"{acc_name} is None",) or (not pol and tt == f"{acc_name} is not None")
            ctx.ob(rule, "create_aligned_global_axes/first-dataset-defines-axis", lib.guarded_by(fl, d.stmt, none_test) is not None, fi, d.stmt,
                   "only the first dataset initialises the accumulated axis")
    sts = [(t, s_) for t, s_ in lib.stores(fi) if isinstance(t, ast.Subscript) and norm(t.value) == "aligned_global_axes"]
    ctx.sites(rule, "sites iterated at rules/c09.py:213 (sts)", len(sts), 1)
    for t, s_ in sts:
        v = s_.value
        okv = isinstance(v, ast.Name) and any(dd.kind == "assign" and isinstance(dd.value, ast.ListComp) and "align_index" in norm(dd.value)
                                              for dd in fl.reaching(v.id, s_))
        ctx.ob(rule, "create_aligned_global_axes/stores-aligned-axis", okv, fi, s_,
               "the axis recorded for a dataset is its aligned axis (own axis for the first dataset)")
    ctx.ob(rule, "create_aligned_global_axes/merge-present", n_checked >= 1, fi, fi.node, "later datasets are merged into the accumulated axis",
           construct="aligned_axis_values = np.unique(np.concatenate([...]))")
    # every point of every later dataset goes through align_index with the scheme's tolerance and method
    for c in lib.calls(fi):
        if isinstance(c.func, ast.Attribute) and c.func.attr == "align_index":
            args = [norm(a) for a in c.args]
            ok = len(args) == 4 and args[2].endswith("clp_link_tolerance") and args[3].endswith("clp_link_method")
            ctx.ob(rule, "create_aligned_global_axes/uses-scheme-settings", ok, fi, lib.stmt_of(c),
                   "align_index(value, accumulated axis, scheme.clp_link_tolerance, scheme.clp_link_method)")
            comp = None
            for a in lib.ancestors(c, fi.node):
                if isinstance(a, ast.ListComp):
                    comp = a
            ok2 = comp is not None and not comp.generators[0].ifs and len(comp.generators) == 1 and norm(comp.generators[0].target) == args[0]
            ctx.ob(rule, "create_aligned_global_axes/every-point-once", ok2, fi, lib.stmt_of(c),
                   "every point of the dataset's global axis is aligned exactly once (unfiltered comprehension over the axis)")


def _iter_of_comp(fi, call_name: str):
    """The (comprehension, generator) feeding xr.concat / dict in a stacker."""
    out = []
    for n in lib.nodes(fi, (ast.ListComp, ast.DictComp, ast.GeneratorExp)):
        out.append(n)
    return out


def r4(ctx, rule: str = "C09-R4") -> None:
    repo = ctx.repo
    stackers = [
        ("align_data", "aligned_global_axes"), ("align_dataset_indices", "aligned_global_axes"), ("align_groups", "aligned_global_axes"),
    ]
    for name, p in stackers:
        fi = ctx.fn(DAT, f"DataProviderLinked.{name}")
        comps = [c for c in lib.nodes(fi, (ast.ListComp, ast.GeneratorExp)) if any(
            isinstance(x, ast.Call) and norm(x.func) == "xr.DataArray" for x in ast.walk(c.elt))]
        ctx.sites(rule, f"stacking comprehension in {name}", len(comps), 1)
        for comp in comps:
            g = comp.generators[0]
            it = norm(g.iter)
            ok = it in (f"{p}.items()", f"{p}.values()") and not g.ifs and len(comp.generators) == 1
            ctx.ob(rule, f"{name}/stack-order", ok, fi, lib.stmt_of(comp),
                   f"datasets are stacked in the iteration order of `{p}` (no sorting, filtering or reversing) - the order "
                   "group_definitions and the result slicer rely on", construct=f"for {norm(g.target)} in {it}" + (" if ..." if g.ifs else ""))
            # inside xr.concat directly
            par = comp._parent
            ok2 = isinstance(par, ast.Call) and norm(par.func) == "xr.concat" and par.args and par.args[0] is comp
            ctx.ob(rule, f"{name}/concat-of-comprehension", ok2, fi, lib.stmt_of(comp),
                   "the comprehension is handed to xr.concat as is")
    cg = ctx.fn(DAT, "DataProviderLinked.create_aligned_global_axes")
    loops = [n for n in lib.nodes(cg, ast.For) if norm(n.iter) == "self._global_axes.items()"]
    ctx.ob(rule, "create_aligned_global_axes/dataset-order", len(loops) == 1, cg, loops[0] if loops else cg.node,
           "the aligned axes mapping is built in the order of the group's datasets", construct="for label, global_axis in self._global_axes.items()")
    init = ctx.fn(DAT, "DataProvider.__init__")
    loops = [n for n in lib.nodes(init, ast.For) if norm(n.iter) == "dataset_group.dataset_models.items()"]
    ctx.ob(rule, "DataProvider.__init__/dataset-order", len(loops) == 1, init, loops[0] if loops else init.node,
           "axes are registered in the order of dataset_group.dataset_models", construct="for label, dataset_model in dataset_group.dataset_models.items()")
    # group definitions: labels of one aligned index in stacking order
    ag = ctx.fn(DAT, "DataProviderLinked.align_groups")
    txt = norm(ag.node)
    ctx.ob(rule, "align_groups/definition-in-stack-order", "aligned_groups.isel({'global': i}).data" in txt and "filter(" in txt, ag, ag.node,
           "a group definition lists the datasets present at an aligned index in stacking order (absent ones filtered out)",
           construct="list(filter(lambda label: label != '', aligned_groups.isel({'global': i}).data))")
    # consumers use group_definitions order
    cam = ctx.fn(MAT, "MatrixProviderLinked.calculate_aligned_matrices")
    zips = [c for c in lib.calls(cam) if norm(c.func) == "zip"]
    ok = any(len(z.args) == 2 and "group_definitions[group_label]" in norm(z.args[0]) and "get_aligned_dataset_indices(" in norm(z.args[1]) for z in zips)
    ctx.ob(rule, "calculate_aligned_matrices/labels-with-indices", ok, cam, zips[0] if zips else cam.node,
           "dataset labels of the group definition are paired with the aligned dataset indices of the same aligned index",
           construct=lib.short(zips[0], 120) if zips else "def")
    scs = [n for n in lib.nodes(cam, ast.ListComp) if "scale" in norm(n.elt)]
    ok = any(norm(n.generators[0].iter).endswith("group_definitions[group_label]") and not n.generators[0].ifs for n in scs)
    ctx.ob(rule, "calculate_aligned_matrices/scales-in-same-order", ok, cam, scs[0] if scs else cam.node,
           "the dataset scales are listed in the same group definition order as the matrices", construct=lib.short(scs[0], 120) if scs else "def")
    aw = ctx.fn(DAT, "DataProviderLinked.align_weights")
    loops = [n for n in lib.nodes(aw, ast.For) if norm(n.iter) == "group_dataset_labels"]
    okw = bool(loops) and "self._group_definitions[group_label]" in norm(aw.node)
    ctx.ob(rule, "align_weights/same-order", okw, aw, loops[0] if loops else aw.node,
           "weights are concatenated in group definition order, with ones for datasets without weight", construct="for label in group_dataset_labels")
    ones = [c for c in lib.calls(aw) if norm(c.func) == "np.ones"]
    okones = bool(ones) and all("get_model_axis(label).size" in norm(lib.stmt_of(c)) or norm(c.args[0]) == "size" for c in ones)
    ctx.ob(rule, "align_weights/unweighted-datasets-get-ones", okones, aw, ones[0] if ones else aw.node,
           "a dataset without weight contributes ones of its own model-axis length", construct=lib.short(lib.stmt_of(ones[0])) if ones else "def")
    gr = ctx.fn(EST, "EstimationProviderLinked.get_result")
    fl = lib.flow(gr, repo)
    starts = [d for d in fl.defs_of("start") if d.kind == "assign"]
    ok = False
    for d in starts:
        t = norm(d.value)
        if t.startswith("sum(") and "get_model_axis(label).size" in t and "group_datasets[:dataset_index]" in t:
            ok = True
    ctx.ob(rule, "get_result/residual-slice-start", ok, gr, starts[0].stmt if starts else gr.node,
           "a dataset's residual block starts after the model axes of the datasets that precede it in the group definition")
    ends = [d for d in fl.defs_of("end") if d.kind == "assign"]
    ok = any(norm(d.value).replace(" ", "") == "start+self._data_provider.get_model_axis(dataset_label).size" for d in ends)
    ctx.ob(rule, "get_result/residual-slice-end", ok, gr, ends[0].stmt if ends else gr.node,
           "and has the length of the dataset's own model axis")
    di = [d for d in fl.defs_of("dataset_index") if d.kind == "assign"]
    ok = any(norm(d.value) == "group_datasets.index(dataset_label)" for d in di)
    ctx.ob(rule, "get_result/position-in-group", ok, gr, di[0].stmt if di else gr.node,
           "the dataset's position is looked up in the group definition of that aligned index")
    # the global coordinate reported back is the dataset's own axis
    coords = [s for t, s in lib.stores(gr) if "coords[global_dimension]" in norm(t)]
    ok = any(norm(s.value) == "global_axis" for s in coords) and any(
        d.kind == "assign" and norm(d.value) == "self._data_provider.get_global_axis(dataset_label)" for d in fl.defs_of("global_axis"))
    ctx.ob(rule, "get_result/original-coordinates", ok, gr, coords[0] if coords else gr.node,
           "results are reported on the dataset's original global axis, not on the aligned one")
    # ... in the order of that axis: the per-index results are collected along the (sorted) aligned axis and must be
    # brought back into the order of the dataset's own points before its axis is attached
    pos_apps = [c for c in lib.method_calls(gr, "append") if "get_aligned_dataset_indices(index)[dataset_index]" in norm(c.args[0]).replace(" ", "")] \
        if True else []
    pos_var = norm(pos_apps[0].func.value) if pos_apps else None
    perms = [d for d in fl.defs_of("original_order") if d.kind == "assign"] if pos_var else []
    order_vars = {d.var for v_ in {n.id for n in ast.walk(gr.node) if isinstance(n, ast.Name)} for d in fl.defs_of(v_)
                  if d.kind == "assign" and d.value is not None and pos_var and norm(d.value) in (f"np.argsort({pos_var})", f"np.argsort(np.asarray({pos_var}))")}
    reordered = set()
    for v_ in ("dataset_clps", "dataset_residual"):
        for d in fl.defs_of(v_):
            if d.kind == "assign" and isinstance(d.value, ast.ListComp) and len(d.value.generators) == 1:
                g_ = d.value.generators[0]
                if norm(g_.iter) in order_vars and norm(d.value.elt) == f"{v_}[{norm(g_.target)}]":
                    reordered.add(v_)
    ctx.ob(rule, "get_result/dataset-order-restored", reordered == {"dataset_clps", "dataset_residual"}, gr, gr.node,
           "clps and residuals collected along the sorted aligned axis are permuted back (argsort of the dataset's own positions "
           "get_aligned_dataset_indices(index)[dataset_index]) before the dataset's axis is attached: otherwise a dataset whose axis is not "
           "ascending gets its results under the wrong coordinates", [f"positions: {pos_var}", f"order variables: {sorted(order_vars)}", f"re-ordered: {sorted(reordered)}"])
    _ = perms


def r5(ctx) -> None:
    """The alignment settings given by the user are the ones the alignment uses; automatic linking needs one common global dimension."""
    lib.check_option_forwarding(ctx, "C09-R5", ("clp_link_tolerance", "clp_link_method"), 2)
    lib.check_linkable_requires_one_global_dimension(ctx, "C09-R5")
    lib.check_refusal_not_swallowed(ctx, "C09-R5", "AlignDatasetError", ("DataProviderLinked",), ("glotaran/optimization/", "glotaran/project/", "glotaran/simulation/"))


def check(ctx) -> None:
    for g in check.groups:
        g(ctx)


check.groups = [r1_r2, r3, r4, r5]
