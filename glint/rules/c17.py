"""C17 - models, schemes, datasets and results survive persistence unchanged."""

from __future__ import annotations

import ast
import re._parser as sre_parse  # type: ignore[import-not-found]

from glint import langs
from glint import lib
from glint.index import kwarg
from glint.index import norm
from glint.shapes import ShapeEval
from glint.shapes import arr
from glint.shapes import show

YML = "glotaran/builtin/io/yml/yml.py"
SAN = "glotaran/utils/sanitize.py"
RGX = "glotaran/utils/regex.py"
DCH = "glotaran/project/dataclass_helpers.py"
UIO = "glotaran/utils/io.py"
FLD = "glotaran/builtin/io/folder/folder_plugin.py"
ASC = "glotaran/builtin/io/ascii/wavelength_time_explicit_file.py"
NCD = "glotaran/builtin/io/netCDF/netCDF.py"

DOC = {
    "explanation": (
        "Static decision of: the tuple-key text the model writer produces lying inside the "
        "language the reader's regexes recognise and split (token comparison of the f-string "
        "template with the parsed regexes); every file-loadable field being written as a path "
        "relative to the folder handed to asdict, with the savers passing the result/scheme "
        "folder and the loaders the same folder, and nested saves dominating the "
        "serialisation of the result; the ASCII writer/reader pair agreeing on the "
        "orientation of explicit and secondary axis in the named-axis shape domain, by "
        "dimension name."
    ),
    "rules": {
        "C17-R1": "save_model renders tuple keys as `(a, b)`; the reader matches such keys with tuple_word (class contains word characters; `, ` separators) and splits them with `[\\w]+` back into the two labels; sanitize_yaml(do_keys=True) is applied on load",
        "C17-R2": "asdict writes every file-loadable field through relative_posix_path(source_path, folder) (str, sequence and mapping sources); save_scheme/save_result pass the target folder and load_scheme/load_result the same folder; the nested saves (which set source paths) dominate asdict(result); fields excluded from the dict are not file-loadable",
        "C17-R3": "the file names the folder plugin writes derive from the result folder and the saving options; result.yml is written last and its name is what load_result appends for folder paths",
        "C17-R4": "ASCII: observations are kept as (spectral, time) taken by dimension name; time explicit writes rows = spectral (first column spectral axis, header row times), wavelength explicit rows = time; the reader assigns explicit/secondary axes per format and returns (time, spectral)",
    },
    "declined": ["bit-equality of netCDF content and text precision of ASCII numbers", "equality of the objective after reload (values)", "labels containing characters outside \\w (e.g. '.') inside tuple keys"],
    "assumptions": ["ruamel.yaml round-trips str keys", "np.savetxt / pandas.read_csv row-major text layout"],
}


def r1(ctx) -> None:
    repo = ctx.repo
    sm = ctx.fn(YML, "YmlProjectIo.save_model")
    keys = [n for n in lib.nodes(sm, ast.ListComp) if isinstance(n.elt, (ast.JoinedStr, ast.BinOp))]
    ctx.sites("C17-R1", "tuple key template", len(keys), 1)
    toks = langs.fstring_tokens(keys[0].elt)
    var = norm(keys[0].generators[0].target)
    want = [("lit", "("), ("field", f"{var}[0]"), ("lit", ", "), ("field", f"{var}[1]"), ("lit", ")")]
    ctx.ob("C17-R1", "save_model/key-template", toks == want and norm(keys[0].generators[0].iter) == "prop" and not keys[0].generators[0].ifs, sm, keys[0],
           "tuple keys (to, from) are written as the text `(to, from)`", [f"tokens: {langs.show(toks)}"])
    g = next((a for a in lib.ancestors(keys[0], sm.node) if isinstance(a, ast.If)), None)
    ok = g is not None and "isinstance(prop, dict)" in norm(g.test) and "tuple" in norm(g.test)
    ctx.ob("C17-R1", "save_model/only-tuple-keyed-dicts", ok, sm, g or sm.node, "only dict properties with tuple keys are rewritten", construct="if " + norm(g.test) if g is not None else "?")
    st = [s for t, s in lib.stores(sm) if isinstance(t, ast.Subscript) and norm(t.value) == "item" and norm(t.slice) == "prop_name"]
    ok = len(st) == 1 and norm(st[0].value).replace(" ", "") == "{f'{k}':vfork,vinzip(keys,prop.values())}"
    ctx.ob("C17-R1", "save_model/values-keep-their-keys", ok, sm, st[0] if st else sm.node, "value i stays with key i (zip of the rendered keys with the original values)")
    # reader regexes
    mi = repo.module(RGX)
    rp = repo.cls(RGX, "RegexPattern")
    tw = rp.class_assigns.get("tuple_word")
    wd = rp.class_assigns.get("word")
    pat = lib.const_str(tw.args[0]) if isinstance(tw, ast.Call) else None
    ok = False
    trace = [f"tuple_word = {pat}"]
    if pat:
        parsed = list(sre_parse.parse(pat))
        if len(parsed) == 1 and str(parsed[0][0]) == "SUBPATTERN":
            inner = list(parsed[0][1][3])
            if len(inner) == 4 and str(inner[0][0]) == "LITERAL" and inner[0][1] == ord("(") and str(inner[3][0]) == "LITERAL" and inner[3][1] == ord(")"):
                c1, c2 = inner[1], inner[2]

                def cls_has(item, need_word, extra):
                    op, av = item
                    if str(op) not in ("MIN_REPEAT", "MAX_REPEAT"):
                        return False
                    lo, hi, sub = av
                    sub = list(sub)
                    if len(sub) != 1 or str(sub[0][0]) != "IN":
                        return False
                    members = sub[0][1]
                    has_word = any(str(o) == "CATEGORY" and str(a) == "CATEGORY_WORD" for o, a in members)
                    lits = {chr(a) for o, a in members if str(o) == "LITERAL"}
                    has_space = any(str(o) == "CATEGORY" and str(a) == "CATEGORY_SPACE" for o, a in members) or " " in lits
                    return (has_word or not need_word) and all((e in lits) or (e == " " and has_space) for e in extra)

                ok = cls_has(c1, True, "") and c1[1][0] >= 1 and cls_has(c2, True, ", ")
    ctx.ob("C17-R1", "tuple_word/covers-writer-language", ok, None, tw or rp.node,
           "the key pattern is `(` + one or more word characters + any of word characters, ',' and space + `)`: it matches every `(a, b)` the writer produces for word labels",
           trace, construct=f"tuple_word = {norm(tw) if tw is not None else '?'}")
    wpat = lib.const_str(wd.args[0]) if isinstance(wd, ast.Call) else None
    ctx.ob("C17-R1", "word/splits-labels", wpat in (r"[\w]+", r"\w+"), None, wd or rp.node, "labels are recovered as the maximal runs of word characters",
           construct=f"word = {norm(wd) if wd is not None else '?'}")
    sk = ctx.fn(SAN, "sanitize_dict_keys")
    txt = lib.xfn(sk, ctx.repo)  # temporaries looked through
    ok = "rp.tuple_word.match(k)" in txt and "d_new[tuple(map(str, rp.word.findall(k)))] = v" in txt
    ctx.ob("C17-R1", "sanitize_dict_keys/rebuilds-tuples", ok, sk, sk.node, "matching keys are turned back into tuples of their words, values kept", construct="k_new = tuple(map(str, rp.word.findall(k)))")
    lm = ctx.fn(YML, "YmlProjectIo.load_model")
    cs = [c for c in lib.calls(lm) if norm(c.func) == "sanitize_yaml"]
    ok = len(cs) == 1 and not any(k.arg == "do_keys" and isinstance(k.value, ast.Constant) and k.value.value is False for k in cs[0].keywords)
    sy = ctx.fn(SAN, "sanitize_yaml")
    dflt = dict(zip([a.arg for a in sy.node.args.args[-len(sy.node.args.defaults):]], sy.node.args.defaults))
    ok = ok and isinstance(dflt.get("do_keys"), ast.Constant) and dflt["do_keys"].value is True
    ctx.ob("C17-R1", "load_model/sanitizes-keys", ok, lm, cs[0] if cs else lm.node, "the loader converts tuple-like keys back (sanitize_yaml with do_keys)")
    _ = mi


def r2(ctx) -> None:
    repo = ctx.repo
    ad = ctx.fn(DCH, "asdict")
    fl = lib.flow(ad, repo)
    st = [(t, s) for t, s in lib.stores(ad) if isinstance(t, ast.Subscript) and norm(t.value) == "dataclass_dict" and norm(t.slice) == "field_item.name"]
    fileloader_if = next((n for n in lib.nodes(ad, ast.If) if norm(n.test) == "'file_loader' in field_item.metadata"), None)
    ctx.ob("C17-R2", "asdict/file-loader-branch", fileloader_if is not None, ad, fileloader_if or ad.node, "file-loadable fields are treated separately", construct="if 'file_loader' in field_item.metadata")
    n = 0
    if fileloader_if is not None:
        for t, s in st:
            if not lib.is_inside(s, fileloader_if):
                continue
            n += 1
            calls = [c for c in ast.walk(s.value) if isinstance(c, ast.Call) and norm(c.func) == "relative_posix_path"]
            ok = len(calls) == 1 and len(calls[0].args) == 2 and norm(calls[0].args[1]) == ad.params()[1]
            ctx.ob("C17-R2", f"asdict/relative-path:{type(s.value).__name__}", ok, ad, s,
                   "the stored reference is relative_posix_path(<source path>, folder): relative to the folder the dict is written into")
    ctx.sites("C17-R2", "file reference stores", n, 3)
    ex = ctx.fn(DCH, "exclude_from_dict_field")
    ok = "'exclude_from_dict': True" in norm(ex.node)
    ctx.ob("C17-R2", "exclude_from_dict_field/metadata", ok, ex, ex.node, "excluded fields are tagged", construct="metadata={'exclude_from_dict': True}")
    rpp = ctx.fn(UIO, "relative_posix_path")
    txt = lib.xfn(rpp, ctx.repo)
    ok = "os.path.relpath(source_path.as_posix(), Path(base_path).as_posix())" in txt and "return Path(source_path).as_posix()" in txt
    ctx.ob("C17-R2", "relative_posix_path/relative-to-base", ok, rpp, rpp.node, "paths are made relative to the base folder and rendered as posix", construct="os.path.relpath(source, base)")
    cont = [c for c in lib.nodes(rpp, ast.Compare) if len(c.ops) == 1 and isinstance(c.ops[0], ast.In) and isinstance(c.comparators[0], ast.Attribute)
            and c.comparators[0].attr == "parents"]
    okc = False
    for c in cont:
        l, r = c.left, c.comparators[0].value
        okc = isinstance(l, ast.Call) and isinstance(l.func, ast.Attribute) and l.func.attr in ("resolve", "absolute") and \
            isinstance(r, ast.Call) and isinstance(r.func, ast.Attribute) and r.func.attr in ("resolve", "absolute")
    ctx.ob("C17-R2", "relative_posix_path/containment-on-resolved-paths", okc, rpp, cont[0] if cont else rpp.node,
           "whether a relative source path lies inside the base folder is decided on resolved (absolute) paths on both sides; "
           "a cwd-relative source compared with an absolute folder never matches otherwise and is stored relative to the cwd",
           construct=lib.short(cont[0]) if cont else "def relative_posix_path")
    # savers / loaders pass the same folder
    ss = ctx.fn(YML, "YmlProjectIo.save_scheme")
    cs = [c for c in lib.calls(ss) if norm(c.func) == "asdict"]
    ok = len(cs) == 1 and norm(kwarg(cs[0], "folder") or ast.Constant(None)) == f"Path({ss.params()[2]}).parent"
    ctx.ob("C17-R2", "save_scheme/folder", ok, ss, cs[0] if cs else ss.node, "scheme references are relative to the folder of the scheme file")
    ls = ctx.fn(YML, "YmlProjectIo.load_scheme")
    cs = [c for c in lib.calls(ls) if norm(c.func) == "fromdict"]
    ok = len(cs) == 1 and norm(kwarg(cs[0], "folder") or ast.Constant(None)) == f"Path({ls.params()[1]}).parent"
    ctx.ob("C17-R2", "load_scheme/folder", ok, ls, cs[0] if cs else ls.node, "and resolved against the same folder on load")
    sr = ctx.fn(YML, "YmlProjectIo.save_result")
    flr = lib.flow(sr, repo)
    cfg = flr.cfg
    cs = [c for c in lib.calls(sr) if norm(c.func) == "asdict"]
    ok = len(cs) == 1 and norm(kwarg(cs[0], "folder") or ast.Constant(None)) == "result_folder" and norm(cs[0].args[0]) == sr.params()[1]
    ctx.ob("C17-R2", "save_result/folder", ok, sr, cs[0] if cs else sr.node, "result references are relative to the result folder")
    rf = [d for d in flr.defs_of("result_folder") if d.kind == "assign"]
    ctx.ob("C17-R2", "save_result/result-folder-is-parent-of-result-file", len(rf) == 1 and norm(rf[0].value) == "result_file_path.parent", sr, rf[0].stmt if rf else sr.node,
           "the result folder is the folder that holds result.yml")
    if cs:
        nested = [c for c in lib.calls(sr) if norm(c.func) in ("save_result", "save_model", "save_scheme")]
        ctx.sites("C17-R2", "nested saves in save_result", len(nested), 3)
        for c in nested:
            ctx.ob("C17-R2", f"save_result/saved-before-serialised:{norm(c.func)}", cfg.dominates(lib.stmt_of(c), lib.stmt_of(cs[0])) and c.lineno < cs[0].lineno, sr, lib.stmt_of(c),
                   "files are saved (which records their source paths) before the result dict with the references is built")
            usp = kwarg(c, "update_source_path")
            ctx.ob("C17-R2", f"save_result/source-paths-updated:{norm(c.func)}", usp is None or (isinstance(usp, ast.Constant) and usp.value is True), sr, lib.stmt_of(c),
                   "nested saves update the source paths the references are computed from")
        wd = [c for c in lib.calls(sr) if norm(c.func) == "write_dict"]
        ok = len(wd) == 1 and norm(wd[0].args[0]) == "result_dict" and norm(kwarg(wd[0], "file_name")) == "result_file_path" and cfg.dominates(lib.stmt_of(cs[0]), lib.stmt_of(wd[0]))
        ctx.ob("C17-R2", "save_result/writes-result-dict", ok, sr, wd[0] if wd else sr.node, "the dict with relative references is what gets written to result.yml")
        sch = [d for d in flr.defs_of("scheme") if d.kind == "assign"]
        ok = len(sch) == 1 and norm(sch[0].value).replace(" ", "") == "replace(result.scheme,data=result.data)"
        ctx.ob("C17-R2", "save_result/scheme-points-to-saved-data", ok, sr, sch[0].stmt if sch else sr.node,
               "the saved scheme references the datasets saved with the result")
    lr = ctx.fn(YML, "YmlProjectIo.load_result")
    cs = [c for c in lib.calls(lr) if norm(c.func) == "fromdict"]
    ok = len(cs) == 1 and norm(kwarg(cs[0], "folder") or ast.Constant(None)) == "result_file_path.parent"
    ctx.ob("C17-R2", "load_result/folder", ok, lr, cs[0] if cs else lr.node, "result references are resolved against the folder of result.yml, wherever it was moved to")
    fd = ctx.fn(DCH, "fromdict")
    txt = norm(fd.node)
    ok = "dataclass_dict[field_item.name] = field_item.metadata['file_loader'](file_path, folder)" in txt
    ctx.ob("C17-R2", "fromdict/loader-gets-folder", ok, fd, fd.node, "file loaders receive the folder", construct="file_loader(file_path, folder)")
    ff = repo.functions.get("glotaran.project.dataclass_helpers.file_loader_factory.<locals>.file_loader")
    if ff is not None:
        ctx.touch(ff)
        txt = norm(ff.node)
        ok = "targetClass.loader(Path(folder) / source_path)" in txt and "[Path(folder) / val for val in source_path]" in txt and "{key: Path(folder) / val for key, val in source_path.items()}" in txt
        ctx.ob("C17-R2", "file_loader/joins-folder", ok, ff, ff.node, "str, sequence and mapping references are joined with the folder", construct="Path(folder) / source_path")


def r3(ctx) -> None:
    repo = ctx.repo
    fs = ctx.fn(FLD, "FolderProjectIo.save_result")
    fl = lib.flow(fs, repo)
    names = {}
    for t, s in lib.stores(fs):
        if isinstance(t, ast.Name) and t.id.endswith("_path") and isinstance(s, ast.Assign):
            names[t.id] = norm(s.value)
    want = {
        "report_path": "result_folder / 'result.md'",
        "initial_parameters_path": "f'initial_parameters.{saving_options.parameter_format}'",
        "optimized_parameters_path": "f'optimized_parameters.{saving_options.parameter_format}'",
        "parameter_history_path": "result_folder / 'parameter_history.csv'",
        "optimization_history_path": "result_folder / 'optimization_history.csv'",
        "data_path": "result_folder / f'{label}.{saving_options.data_format}'",
    }
    ctx.ob("C17-R3", "folder-plugin/file-names", names == want, fs, fs.node,
           "the folder plugin writes result.md, initial/optimized_parameters.<fmt>, parameter_history.csv, optimization_history.csv and <label>.<fmt> inside the result folder",
           construct=str(names))
    calls = {norm(c.func) + ":" + norm(c.args[1] if len(c.args) > 1 else c.args[0]): c for c in lib.calls(fs)
             if norm(c.func) in ("save_parameters", "save_dataset") or (isinstance(c.func, ast.Attribute) and c.func.attr == "to_csv")}
    ok = "save_parameters:result_folder / initial_parameters_path" in calls and "save_parameters:result_folder / optimized_parameters_path" in calls and \
        "save_dataset:data_path" in calls and "result.parameter_history.to_csv:parameter_history_path" in calls and "result.optimization_history.to_csv:optimization_history_path" in calls
    ctx.ob("C17-R3", "folder-plugin/writes-inside-folder", ok, fs, fs.node, "every file is written below result_folder", construct=", ".join(sorted(calls)))
    for key, fmt in (("save_parameters:result_folder / initial_parameters_path", "saving_options.parameter_format"), ("save_dataset:data_path", "saving_options.data_format")):
        c = calls.get(key)
        ok = c is not None and norm(kwarg(c, "format_name") or ast.Constant(None)) == fmt
        ctx.ob("C17-R3", f"folder-plugin/format-matches-extension:{fmt.split('.')[-1]}", ok, fs, c or fs.node, "the format used equals the file extension chosen from the saving options")
    ic = calls.get("save_parameters:result_folder / initial_parameters_path")
    oc = calls.get("save_parameters:result_folder / optimized_parameters_path")
    ok = ic is not None and oc is not None and norm(ic.args[0]) == "result.scheme.parameters" and norm(oc.args[0]) == "result.optimized_parameters"
    ctx.ob("C17-R3", "folder-plugin/initial-vs-optimized", ok, fs, ic or fs.node, "initial parameters go to initial_parameters.*, optimized ones to optimized_parameters.*")
    for rel, name in ((YML, "YmlProjectIo.save_result"), (YML, "YmlProjectIo.load_result")):
        f = ctx.fn(rel, name)
        txt = norm(f.node)
        ok = "if result_file_path.suffix not in ['.yml', '.yaml']" in txt and "result_file_path = result_file_path / 'result.yml'" in txt
        ctx.ob("C17-R3", f"{name}/folder-means-result-yml", ok, f, f.node, "a folder path means <folder>/result.yml, for saving and for loading alike",
               construct="if suffix not in ['.yml', '.yaml']: path = path / 'result.yml'")
    sr = ctx.fn(YML, "YmlProjectIo.save_result")
    txt = norm(sr.node)
    ok = "model_path = result_folder / 'model.yml'" in txt and "scheme_path = result_folder / 'scheme.yml'" in txt
    ctx.ob("C17-R3", "save_result/model-and-scheme-files", ok, sr, sr.node, "model.yml and scheme.yml are written next to result.yml", construct="result_folder / 'model.yml', result_folder / 'scheme.yml'")
    _ = fl


def r4(ctx) -> None:
    repo = ctx.repo
    init = ctx.fn(ASC, "ExplicitFile.__init__")
    fl = lib.flow(init, repo)

    def src(e, text):
        if text in ("dataset.transpose('time', 'spectral').values", "dataset.transpose('time', 'spectral')"):
            return arr("T", "S")
        if text == "dataset.values":
            return None  # positional: orientation unknown
        return None

    ev = ShapeEval(fl, src)
    st = lib.attr_stores(init, "self._observations")
    arrs = [(t, s) for t, s in st if not isinstance(s.value, ast.List)]
    ctx.sites("C17-R4", "observations from a dataset", len(arrs), 1)
    for t, s in arrs:
        sh = ev.ev(s.value, s)
        ctx.ob("C17-R4", "ExplicitFile.__init__/observations-by-dimension-name", sh == arr("S", "T"), init, s,
               f"observations are kept as (spectral, time), taken from the dataset by dimension *name*; found {show(sh)} - `dataset.values` "
               "is positional and silently transposes data stored as (spectral, time)")
    tm = lib.attr_stores(init, "self._times")
    sp = lib.attr_stores(init, "self._spectral_indices")
    ok = any("coords['time']" in norm(s.value) for _, s in tm) and any("coords['spectral']" in norm(s.value) for _, s in sp)
    ctx.ob("C17-R4", "ExplicitFile.__init__/axes-by-name", ok, init, init.node, "time and spectral axes are read by coordinate name", construct="dataset.coords['time'], dataset.coords['spectral']")
    wr = ctx.fn(ASC, "ExplicitFile.write")
    flw = lib.flow(wr, repo)

    def srcw(e, text):
        if text == "self._observations":
            return arr("S", "T")
        if text == "self._times":
            return arr("T")
        if text == "self._spectral_indices":
            return arr("S")
        return None

    blocks = {}
    for fmt, key in (("wavelength", "DataFileType.wavelength_explicit"), ("time", "DataFileType.time_explicit")):
        # statements executed only when file_format == <key> (nested if / elif / guard form)
        body = lib.stmts_when(wr, repo, lambda e, key=key: isinstance(e, ast.Compare) and isinstance(e.ops[0], ast.Eq) and key in norm(e))
        if body:
            blocks[fmt] = body
    for fmt, body in sorted(blocks.items()):
        rd = [s for s in body if isinstance(s, ast.Assign) and norm(s.targets[0]) == "raw_data"]
        hd = [s for s in body if isinstance(s, ast.Assign) and norm(s.targets[0]) in ("wav", "tim")]
        txt = norm(rd[0].value).replace(" ", "") if rd else ""
        if fmt == "time":
            ok = txt == "np.vstack((self._spectral_indices.T,self._observations.T)).T" and bool(hd) and "self._times" in norm(hd[0].value)
            msg = "time explicit: header row = times; each data row = spectral value followed by the observations of that spectral point over time"
        else:
            ok = txt == "np.vstack((self._times.T,self._observations)).T" and bool(hd) and "self._spectral_indices" in norm(hd[0].value)
            msg = "wavelength explicit: header row = spectral values; each data row = time followed by the observations of that time over the spectral axis"
        ctx.ob("C17-R4", f"write/{fmt}-explicit-layout", ok, wr, rd[0] if rd else wr.node, msg)
    ctx.ob("C17-R4", "write/both-formats", set(blocks) == {"time", "wavelength"}, wr, wr.node, "both explicit formats are written", construct=str(sorted(blocks)))
    # the header row is text the reader parses as numbers: it must be rendered from python floats / a numeric format
    for fmt, body in sorted(blocks.items()):
        hd = [s for s in body if isinstance(s, ast.Assign) and norm(s.targets[0]) in ("wav", "tim")]
        ok = False
        if hd and isinstance(hd[0].value, ast.Call) and isinstance(hd[0].value.args[0], ast.GeneratorExp):
            elt = hd[0].value.args[0].elt
            var = norm(hd[0].value.args[0].generators[0].target)
            t_ = norm(elt).replace(" ", "")
            ok = t_ in (f"repr(float({var}))", f"str(float({var}))", f"number_format%{var}", f"'%r'%float({var})") or (
                isinstance(elt, ast.JoinedStr) and any(isinstance(v, ast.FormattedValue) and v.format_spec is not None for v in elt.values))
        ctx.ob("C17-R4", f"write/{fmt}-explicit-axis-as-numbers", ok, wr, hd[0] if hd else wr.node,
               "axis values in the header are rendered from python floats (or with a numeric format); repr() of a numpy scalar is "
               "'np.float64(0.1)' under numpy 2 and comes back as a string")
    rdf = ctx.fn(ASC, "ExplicitFile.read")
    txt = norm(rdf.node)
    ok_t = "self._times = explicit_axis" in txt and "self._spectral_indices = secondary_axis" in txt
    ok_w = "self._spectral_indices = explicit_axis" in txt and "self._times = secondary_axis" in txt
    ok_s = "secondary_axis = rest_of_data[:, 0]" in txt and "observations = rest_of_data[:, 1:]" in txt and "explicit_axis = explicit_axis[0, :]" in txt
    blocks = {}
    for fmt, key in (("wavelength", "DataFileType.wavelength_explicit"), ("time", "DataFileType.time_explicit")):
        body = lib.stmts_when(rdf, repo, lambda e, key=key: isinstance(e, ast.Compare) and isinstance(e.ops[0], ast.Eq) and key in norm(e))
        blocks[fmt] = norm(ast.Module(body=body, type_ignores=[])) if body else ""
    ok_b = "self._times = explicit_axis" in blocks.get("time", "") and "self._spectral_indices = secondary_axis" in blocks.get("time", "") and \
        "self._spectral_indices = explicit_axis" in blocks.get("wavelength", "") and "self._times = secondary_axis" in blocks.get("wavelength", "")
    ctx.ob("C17-R4", "read/axes-per-format", ok_t and ok_w and ok_s and ok_b, rdf, rdf.node,
           "the header row is the explicit axis and the first column the secondary axis: times/spectral for time explicit, spectral/times for wavelength explicit",
           construct="time explicit: times = explicit, spectral = secondary; wavelength explicit: the reverse")
    ds = ctx.fn(ASC, "ExplicitFile.dataset")
    txt = norm(ds.node)
    ok = "if self._file_data_format == DataFileType.time_explicit" in txt and "data = data.T" in txt and \
        "xr.DataArray(data, coords=[('time', self._times), ('spectral', self._spectral_indices)])" in txt
    ctx.ob("C17-R4", "dataset/time-by-spectral", ok, ds, ds.node,
           "time explicit rows are spectral points, so they are transposed; the returned array is (time, spectral) with the matching coordinates",
           construct="data.T for time explicit; DataArray(data, coords=[('time', times), ('spectral', spectral)])")
    sv = ctx.fn(ASC, "AsciiDataIo.save_dataset")
    txt = norm(sv.node)
    ok = "data_file.write(overwrite=True, comment=comment, file_format=file_format, number_format=number_format)" in txt
    ctx.ob("C17-R4", "save_dataset/format-passed-to-writer", ok, sv, sv.node, "the requested explicit format is the one written", construct="data_file.write(..., file_format=file_format, ...)")
    nc = ctx.fn(NCD, "NetCDFDataIo.save_dataset")
    cs = [c for c in lib.calls(nc) if isinstance(c.func, ast.Attribute) and c.func.attr == "to_netcdf"]
    ok = len(cs) == 1 and norm(cs[0].args[0]) == nc.params()[2]
    ctx.ob("C17-R4", "netcdf/writes-target", ok, nc, cs[0] if cs else nc.node, "netCDF datasets are written to the requested file")


def r2_loaders(ctx) -> None:
    """Every load dispatcher stamps the object with the path it was loaded from, unconditionally; every parameter file of a
    result is written with the same, complete, set of columns."""
    repo = ctx.repo
    PIO_ = "glotaran/plugin_system/project_io_registration.py"
    DIO_ = "glotaran/plugin_system/data_io_registration.py"
    n = 0
    for rel, name in ((DIO_, "load_dataset"), (PIO_, "load_model"), (PIO_, "load_parameters"), (PIO_, "load_scheme"), (PIO_, "load_result")):
        fi = ctx.fn(rel, name)
        path_p = fi.params()[0]
        cfg = lib.cfg(fi)
        stamps = []
        for t, s in lib.stores(fi):
            if (isinstance(t, ast.Attribute) and t.attr == "source_path") or (isinstance(t, ast.Subscript) and lib.const_str(t.slice) == "source_path"):
                stamps.append((t, s))
        n += len(stamps)
        ok = len(stamps) == 1 and norm(stamps[0][1].value) in (f"Path({path_p}).as_posix()", f"Path({path_p}).resolve().as_posix()") \
            and not cfg.exists_path(cfg.entry, cfg.exit, avoid=[stamps[0][1]], exc=False)
        ctx.ob("C17-R2", f"{name}/stamps-source-path", ok, fi, stamps[0][1] if stamps else fi.node,
               "whatever a plugin returns, the loaded object's source_path is the path it was just loaded from: netCDF stores the attributes "
               "of the moment of writing, so a kept old source_path makes later scheme/result files point at another file",
               construct=lib.short(stamps[0][1], 100) if stamps else "def " + name)
    ctx.sites("C17-R2", "source_path stamps in load dispatchers", n, 5)
    # what goes into result.yml must be representable: python numbers, not numpy scalars
    MATP = "glotaran/optimization/matrix_provider.py"
    for nm in ("MatrixProviderUnlinked.number_of_clps", "MatrixProviderLinked.number_of_clps"):
        f_ = ctx.fn(MATP, nm)
        npcalls = [c for c in lib.calls(f_, nested=True) if norm(c.func).startswith(("np.", "numpy."))
                   and not any(isinstance(a, ast.Call) and norm(a.func) == "int" for a in lib.ancestors(c, f_.node))]
        ctx.ob("C17-R2", f"{nm}/python-int", not npcalls, f_, npcalls[0] if npcalls else f_.node,
               "number_of_clps (and with it degrees_of_freedom, reduced_chi_square) is written to result.yml: a numpy reduction yields "
               "np.int64, which the yaml writer cannot represent - save_result fails half way", construct=lib.short(npcalls[0], 90) if npcalls else "builtin sum/len")
    crf = ctx.fn("glotaran/optimization/optimizer.py", "Optimizer.create_result")
    txt_ = norm(crf.node)
    need = {"optimality": "float(self._optimization_result.optimality)", "chi_square": "float(np.sum(self._optimization_result.fun ** 2))",
            "root_mean_square_error": "float(np.sqrt("}
    for k_, frag in need.items():
        ctx.ob("C17-R2", f"create_result/{k_}-python-float", frag in txt_, crf, crf.node,
               f"`{k_}` comes from numpy and is converted with float() before it is stored in the result", construct=frag)
    # the reference written to result.yml is the scheme file written next to it
    ysr = ctx.fn(YML, "YmlProjectIo.save_result")
    cfy = lib.cfg(ysr)
    sch = [s_ for t_, s_ in lib.stores(ysr) if norm(t_) == "result.scheme.source_path"]
    asd = [lib.stmt_of(c) for c in lib.calls(ysr) if norm(c.func) == "asdict"]
    svs = [lib.stmt_of(c) for c in lib.calls(ysr) if norm(c.func) == "save_scheme"]
    ok = len(sch) == 1 and bool(asd) and bool(svs) and norm(sch[0].value) in ("scheme.source_path", "scheme_path.as_posix()") \
        and all(cfy.dominates(sch[0], a) and sch[0].lineno < a.lineno for a in asd) and all(cfy.dominates(sv, sch[0]) for sv in svs)
    ctx.ob("C17-R2", "YmlProjectIo.save_result/scheme-reference-is-the-written-file", ok, ysr, sch[0] if sch else (asd[0] if asd else ysr.node),
           "a *copy* of the scheme is written to scheme.yml; result.yml takes its reference from result.scheme.source_path, which must be "
           "set to the written file before asdict(result) - otherwise a scheme loaded from elsewhere leaves `scheme: ../proj/s.yml` in the folder",
           construct=lib.short(sch[0], 100) if sch else "def save_result")
    sr = ctx.fn(FLD, "FolderProjectIo.save_result")
    pcalls = [c for c in lib.calls(sr) if norm(c.func) == "save_parameters"]
    ctx.sites("C17-R2", "parameter files written by the folder plugin", len(pcalls), 2)
    kws = [tuple(sorted((k.arg, norm(k.value)) for k in c.keywords if k.arg not in (None,))) for c in pcalls]
    ok = len(set(kws)) == 1 and all({k for k, _ in kw} <= {"format_name", "allow_overwrite", "update_source_path"} for kw in kws)
    ctx.ob("C17-R2", "FolderProjectIo.save_result/parameter-files-written-alike", ok, sr, pcalls[0] if pcalls else sr.node,
           "initial and optimized parameters are written with the same options and none that drops columns: the initial parameters of a "
           "chained fit carry standard errors too", [f"{norm(c.args[0]) if c.args else '?'}: {kw}" for c, kw in zip(pcalls, kws)])


def check(ctx) -> None:
    for g in check.groups:
        g(ctx)


check.groups = [r1, r2, r3, r4, r2_loaders]
