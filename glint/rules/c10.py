"""C10 - the objective is pure and deterministic; optimize() leaves its inputs unchanged."""

from __future__ import annotations

import ast

from glint import lib
from glint.callgraph import callgraph
from glint.callgraph import env_of
from glint.effects import effects
from glint.index import AnalysisError
from glint.index import kwarg
from glint.index import norm

OPT = "glotaran/optimization/optimizer.py"
GRP = "glotaran/optimization/optimization_group.py"
EST = "glotaran/optimization/estimation_provider.py"
MAT = "glotaran/optimization/matrix_provider.py"
DAT = "glotaran/optimization/data_provider.py"
ITM = "glotaran/model/item.py"
DSG = "glotaran/model/dataset_group.py"
PS = "glotaran/parameter/parameters.py"
P = "glotaran/parameter/parameter.py"

SCOPE = (
    "glotaran/optimization/",
    "glotaran/builtin/megacomplexes/",
    "glotaran/simulation/",
    "glotaran/model/dataset_group.py",
    "glotaran/model/dataset_model.py",
    "glotaran/model/item.py",
)

DOC = {
    "explanation": (
        "Ownership/effect analysis (A6) and dominance over the optimisation code: which "
        "objects may be mutated in place and where they come from (fresh allocation, "
        "caller's object, object state), summarised per function to a fixpoint over the "
        "resolved call graph; who may mutate Parameters; copy-before-fill of model items; "
        "freshness of every calculate_matrix result; reset-before-accumulate of provider "
        "state within one evaluation; induction-variable indexing of every write in "
        "numba prange loops of parallel kernels; absence of nondeterminism sources in the "
        "call graph reachable from the objective."
    ),
    "rules": {
        "C10-R1": "Optimizer works on a private deep copy of the parameters: every mutating Parameters/Parameter operation in the optimisation package targets self._parameters; the caller's scheme.parameters only sees the idempotent expression refresh; Parameters.copy copies every Parameter",
        "C10-R2": "fill_item copies the item (evolve) before any attribute is set; the setattr helpers are only reachable from fill_item; containers are rebuilt, not edited; DatasetGroup.set_parameters always fills from the pristine model item",
        "C10-R3": "no in-place mutation of an object that is not owned: a mutated object is freshly allocated in the function, is state that was stored from fresh values, or is a declared out-parameter whose every call site passes a fresh/owned object; DataProvider.get_from_dataset returns a copy",
        "C10-R4": "every calculate_matrix implementation returns an array allocated in that call",
        "C10-R5": "every accumulation into provider state reachable from an evaluation is dominated, within the evaluation, by a reset of that state; matrix caches are recomputed unconditionally",
        "C10-R6": "in every numba kernel compiled with parallel=True each array write inside a prange loop is indexed by the outermost prange variable (or delegated to a callee on a slice selected by it) and no scalar is carried across iterations",
        "C10-R8": "the expression refresh - the only operation applied to the caller's parameters and the first step of every evaluation - is an exact, history independent fixed point (same obligations as C12-R2): otherwise the objective at a vector depends on the vector evaluated before",
        "C10-R7": "no random/time/uuid source and no iteration over a set is reachable from the objective function",
    },
    "declined": ["bit-level reproducibility of BLAS/LAPACK and of numba's thread scheduling for race-free kernels"],
    "assumptions": [
        "OptimizationGroup.__init__ adding SVD variables to the caller's datasets when scheme.add_svd is set is the one listed exception (adds derived variables, changes no data value)",
        "numba parallelises only the outermost prange of a nest",
    ],
}

# functions which are *declared* to fill / extend an object handed in by their caller
OUT_PARAMS = {
    # kernels: fill the matrix allocated by the calling calculate_matrix
    "calculate_decay_matrix_gaussian_irf_on_index": ("matrix", "numba kernel filling the caller's matrix"),
    "calculate_decay_matrix_gaussian_irf": ("matrix", "numba kernel filling the caller's matrix"),
    "calculate_decay_matrix_no_irf": ("matrix", "numba kernel filling the caller's matrix"),
    "decay_matrix_implementation_index_independent": ("matrix", "dispatch helper of decay calculate_matrix"),
    "decay_matrix_implementation_index_dependent": ("matrix", "dispatch helper of decay calculate_matrix"),
    "calculate_damped_oscillation_matrix_no_irf": ("matrix", "numba kernel"),
    "calculate_damped_oscillation_matrix_gaussian_irf": ("matrix", "kernel"),
    "calculate_damped_oscillation_matrix_gaussian_irf_on_index": ("matrix", "kernel"),
    "calculate_pfid_matrix_gaussian_irf": ("matrix", "kernel"),
    "calculate_pfid_matrix_gaussian_irf_on_index": ("matrix", "kernel"),
    "_calculate_coherent_artifact_matrix": ("matrix", "numba kernel"),
    "_calculate_coherent_artifact_matrix_on_index": ("matrix", "numba kernel"),
    # result assembly: extend the result dataset (a copy made in create_result_data)
    "finalize_data": ("dataset", "adds result variables to the result dataset"),
    "finalize_dataset_model": ("dataset", "adds result variables to the result dataset"),
    "retrieve_species_associated_data": ("dataset", "result assembly"),
    "retrieve_initial_concentration": ("dataset", "result assembly"),
    "retrieve_decay_associated_data": ("dataset", "result assembly"),
    "retrieve_irf": ("dataset", "result assembly"),
    "add_weight_to_result_data": ("result_dataset", "result assembly"),
    "add_svd_data": ("dataset", "adds SVD variables"),
    "add_svd_to_dataset": ("dataset", "adds SVD variables"),
    # list of per-index containers created by reduce_matrix
    "apply_constraints": ("matrices", "replaces entries of the list created by reduce_matrix"),
    "apply_relations": ("matrices", "replaces entries of the list created by reduce_matrix"),
    # the evolve()d copy
    "fill_item_attributes": ("item", "sets attributes on the copy made by fill_item"),
    "fill_item_model_attributes": ("item", "sets attributes on the copy made by fill_item"),
    "fill_item_parameter_attributes": ("item", "sets attributes on the copy made by fill_item"),
}
# accepted non-fresh call arguments: (caller, callee, arg text) -> reason
ACCEPTED_ARGS = {
    ("OptimizationGroup.__init__", "add_svd_data", "dataset"):
        "documented exception: add_svd adds derived SVD variables to the caller's datasets, no data value changes",
    ("simulate", "finalize_dataset_model", "result"): "simulation result dataset built in simulate",
}
PARAM_MUTATORS = {
    "set_from_label_and_value_arrays", "set_from_history", "set_value_from_optimization",
}
PARAM_IDEMPOTENT = {"update_parameter_expression", "get_label_value_and_bounds_arrays"}


LAPACK_OVERWRITE = {"dormqr": {"overwrite_c": 4}, "dgeqrf": {"overwrite_a": 0}, "dtrtrs": {"overwrite_b": 1}}
ACCEPTED_SITES = {
    ("item", "cls.__item_types__ = {}"): "class decorator initialising the type registry of the class it creates",
    ("TypedItem._register_item_class", "cls.__item_types__[item_type] = cls"): "class registration at import time",
}
IDEMPOTENT = {"glotaran.parameter.parameters.Parameters.update_parameter_expression"}
CUT = {("OptimizationGroup.__init__", "add_svd_data")}


def _effects(repo):
    ef = effects(repo)
    ef.idempotent |= IDEMPOTENT
    ef.cut |= CUT
    return ef


def in_scope(fi) -> bool:
    return fi.rel.startswith(SCOPE)


def r1(ctx) -> None:
    repo = ctx.repo
    ef = _effects(repo)
    init = ctx.fn(OPT, "Optimizer.__init__")
    fl = lib.flow(init, repo)
    st = lib.attr_stores(init, "self._parameters")
    ctx.sites("C10-R1", "private parameter copy", len(st), 1)
    for t, s in st:
        v = s.value
        t = fl.term(v, s)
        a = t.single_atom()
        is_copy = bool(a and a[0] == "attr" and a[2] == "parameters")  # x.parameters.copy() normalises to x.parameters
        called_copy = any(isinstance(c.func, ast.Attribute) and c.func.attr in ("copy", "deepcopy") or norm(c.func) in ("copy.deepcopy", "deepcopy")
                          for c in lib.calls(init) if "parameters" in norm(c))
        ok = is_copy and called_copy and ef.origin(fl, v, s) == "fresh"
        ctx.ob("C10-R1", "Optimizer.__init__/private-copy", ok, init, s,
               "the optimiser's working parameters are a copy of scheme.parameters")
    cls = repo.cls(OPT, "Optimizer")
    for m in cls.methods.values():
        if m.name == "__init__":
            continue
        for t, s in lib.attr_stores(m, "self._parameters"):
            ctx.ob("C10-R1", f"Optimizer.{m.name}/copy-not-replaced", False, m, s, "self._parameters must stay the private copy")
    cp = ctx.fn(PS, "Parameters.copy")
    flc = lib.flow(cp, repo)
    rets = lib.nodes(cp, ast.Return)
    ctx.sites('C10-R1', "sites iterated at rules/c10.py:153 (rets)", len(rets), 1)
    for r in rets:
        v = r.value
        ok = isinstance(v, ast.Call) and norm(v.func) in ("Parameters", "cls", "type(self)", "self.__class__") and v.args
        deep = ok and ef.comp_elem_origin(flc, v.args[0], r) == "fresh" if ok and isinstance(v.args[0], (ast.DictComp, ast.Dict)) else False
        ctx.ob("C10-R1", "Parameters.copy/deep", bool(deep), cp, r,
               "Parameters.copy builds a new container whose every Parameter is itself a copy "
               "(a shallow copy would let the optimiser write into the caller's Parameter objects)")
    pc = ctx.fn(P, "Parameter.copy")
    ctx.ob("C10-R1", "Parameter.copy/fresh", ef.returns(pc) == "fresh", pc, pc.node, "Parameter.copy returns a new object",
           construct="return evolve(self)")
    # who mutates parameters in the optimisation package
    n = 0
    for fi in repo.functions.values():
        if not fi.rel.startswith("glotaran/optimization/"):
            continue
        ctx.touch(fi)
        flf = lib.flow(fi, repo)
        for c in lib.calls(fi):
            if isinstance(c.func, ast.Attribute) and c.func.attr in PARAM_MUTATORS | PARAM_IDEMPOTENT:
                recv = norm(c.func.value)
                n += 1
                if c.func.attr in PARAM_MUTATORS:
                    o = ef.origin(flf, c.func.value, lib.stmt_of(c))
                    ok = recv.startswith("self._parameters") and fi.cls is not None and fi.cls.name == "Optimizer"
                    ctx.ob("C10-R1", f"{fi.short}/mutator-on-copy:{c.func.attr}", ok, fi, lib.stmt_of(c),
                           f"`{c.func.attr}` changes parameter values and may only be applied to the optimiser's private copy "
                           f"(receiver origin: {o})")
        for mu in ef.mutations(fi):
            if mu.how.startswith("attr-store:") or mu.how.startswith("attr-augassign:"):
                attr = mu.how.split(":")[1]
                if attr in ("value", "standard_error", "vary", "minimum", "maximum", "non_negative", "expression", "label"):
                    n += 1
                    ok = mu.origin == "state:self._parameters" and fi.cls is not None and fi.cls.name == "Optimizer"
                    ctx.ob("C10-R1", f"{fi.short}/parameter-attribute-store:{attr}", ok, fi, mu.node,
                           f"Parameter attributes may only be written on parameters of the private copy (origin: {mu.origin})")
    ctx.sites("C10-R1", "parameter mutation sites in glotaran/optimization", n, 6)
    # data sets: scheme.data / self._data values are never the target of an in-place operation (see R3)


def r2(ctx) -> None:
    repo = ctx.repo
    fi = ctx.fn(ITM, "fill_item")
    cfg = lib.cfg(fi)
    p0 = fi.params()[0]
    ev = [s for t, s in lib.stores(fi) if norm(t) == p0 and isinstance(s, ast.Assign) and isinstance(s.value, ast.Call)
          and lib.resolved(repo, fi, s.value.func) in ("attrs.evolve", "attr.evolve", "copy.copy", "copy.deepcopy")
          and s.value.args and norm(s.value.args[0]) == p0 and not s.value.keywords]
    if not ctx.ob("C10-R2", "fill_item/copies", bool(ev), fi, ev[0] if ev else fi.node,
                  "fill_item rebinds the item to a copy (evolve) of the caller's item", construct=lib.short(ev[0]) if ev else "def fill_item"):
        return
    uses = [c for c in lib.calls(fi) if any(isinstance(a, ast.Name) and a.id == p0 for a in c.args) and c is not ev[0].value]
    ctx.sites("C10-R2", "uses of the item in fill_item", len(uses), 2)
    for c in uses:
        ctx.ob("C10-R2", f"fill_item/copy-first:{norm(c.func)}", cfg.dominates(ev[0], c), fi, lib.stmt_of(c),
               "the copy must dominate every call that sets attributes on the item")
    rets = lib.nodes(fi, ast.Return)
    fl = lib.flow(fi, repo)
    ctx.sites('C10-R2', "sites iterated at rules/c10.py:210 (rets)", len(rets), 1)
    for r in rets:
        ds = fl.reaching(p0, r)
        ctx.ob("C10-R2", "fill_item/returns-copy", isinstance(r.value, ast.Name) and r.value.id == p0
               and all(d.stmt in ev for d in ds), fi, r, "the filled copy is returned")
    helpers = {"fill_item_attributes", "fill_item_model_attributes", "fill_item_parameter_attributes"}
    allowed_callers = helpers | {"fill_item"}
    n = 0
    for f2 in repo.functions.values():
        for c in lib.calls(f2, nested=True):
            nm = c.func.id if isinstance(c.func, ast.Name) else (c.func.attr if isinstance(c.func, ast.Attribute) else "")
            if nm in helpers:
                n += 1
                top = f2
                while top.parent is not None:
                    top = top.parent
                ctx.ob("C10-R2", f"caller-of:{nm}:{top.short}", top.name in allowed_callers and top.rel == ITM, f2, lib.stmt_of(c),
                       "the attribute setting helpers may only be called on the copy made by fill_item")
    ctx.sites("C10-R2", "calls of the fill helpers", n, 4)
    fa = ctx.fn(ITM, "fill_item_attributes")
    for t, s in lib.stores(fa):
        if isinstance(t, ast.Subscript) and norm(t.value) == "value":
            ctx.ob("C10-R2", "fill_item_attributes/rebuilds-containers", False, fa, s,
                   "list/dict attribute values are shared with the unfilled item after evolve(); they must be rebuilt, "
                   "not edited in place")
    for c in lib.calls(fa):
        if isinstance(c.func, ast.Attribute) and c.func.attr in ("append", "extend", "update", "insert", "clear") and norm(c.func.value) == "value":
            ctx.ob("C10-R2", "fill_item_attributes/rebuilds-containers", False, fa, lib.stmt_of(c),
                   "list/dict attribute values must be rebuilt, not edited in place")
    ctx.ob("C10-R2", "fill_item_attributes/rebuilds-containers-checked", True, fa, fa.node,
           "no in-place edit of the attribute containers", construct="def fill_item_attributes")
    sp = ctx.fn(DSG, "DatasetGroup.set_parameters")
    cs = [c for c in lib.calls(sp) if norm(c.func) == "fill_item"]
    ctx.sites("C10-R2", "fill_item in set_parameters", len(cs), 1)
    for c in cs:
        src = norm(c.args[0]) if c.args else ""
        ctx.ob("C10-R2", "DatasetGroup.set_parameters/fills-pristine-item", src.startswith("self.model.dataset["), sp, lib.stmt_of(c),
               "each evaluation fills the pristine model item (self.model.dataset[label]) with the current parameters")
        ctx.ob("C10-R2", "DatasetGroup.set_parameters/uses-given-parameters", len(c.args) >= 3 and norm(c.args[2]) == sp.params()[1], sp,
               lib.stmt_of(c), "the items are filled from the parameters handed in for this evaluation")


def r3(ctx, rule: str = "C10-R3", scope: tuple = SCOPE, floors: bool = True) -> None:
    repo = ctx.repo
    ef = _effects(repo)
    mp = ef.mutated_params()
    gd = ctx.fn(DAT, "DataProvider.get_from_dataset")
    ctx.ob(rule, "DataProvider.get_from_dataset/returns-copy", ef.returns(gd) == "fresh", gd, gd.node,
           "get_from_dataset returns a copy of the caller's array (the provider multiplies it by the weight in place)",
           [f"return origin: {ef.returns(gd)}"], construct="return data  # data = dataset[name].data.copy()")
    n_sites = 0
    n_calls = 0
    for fi in repo.functions.values():
        if not fi.rel.startswith(scope):
            continue
        ctx.touch(fi)
        params = fi.params()
        is_init = fi.name == "__init__"
        for mu in ef.mutations(fi):
            how, o = mu.how, mu.origin
            if o in ("fresh", "scalar"):
                continue
            if how.startswith("attr-store:") or how.startswith("attr-delete"):
                # rebinding an attribute: only an issue on foreign objects
                if o == "param:self" or o == "param:cls":
                    continue
                if o.startswith("state:self._parameters"):
                    continue  # R1
                if o.startswith("param:") and OUT_PARAMS.get(fi.name, ("",))[0] == o[6:]:
                    continue
                n_sites += 1
                acc = ACCEPTED_SITES.get((fi.short, norm(mu.node)))
                ctx.ob(rule, f"{fi.short}/foreign-attribute-store", acc is not None, fi, mu.node,
                       f"attribute of an object that is not owned is assigned (origin: {o})" + (f" - accepted: {acc}" if acc else ""))
                continue
            n_sites += 1
            if o.startswith("param:"):
                p = o[6:]
                if p in ("self", "cls"):
                    # in-place on own attribute object: list accumulation is R5, arithmetic on a stored array is checked
                    if how.startswith("attr-augassign:") and not isinstance(mu.node.op, ast.Add):
                        attr = how.split(":")[1]
                        vals = []
                        if fi.cls is not None:
                            for m in fi.cls.methods.values():
                                flm = lib.flow(m, repo)
                                for t2, s2 in lib.attr_stores(m, f"self.{attr}"):
                                    if isinstance(s2, ast.Assign):
                                        vals.append(ef.origin(flm, s2.value, s2))
                        ok = bool(vals) and all(v in ("fresh", "scalar") for v in vals)
                        ctx.ob(rule, f"{fi.short}/in-place-on-attribute:{attr}", ok, fi, mu.node,
                               f"`self.{attr}` is modified in place; the object stored there must be a private copy "
                               "(a dataclass field holds whatever the constructor was given)", [f"stored origins: {vals}"])
                    continue
                ok = OUT_PARAMS.get(fi.name, ("",))[0] == p
                ctx.ob(rule, f"{fi.short}/mutates-parameter:{p}", ok, fi, mu.node,
                       f"`{norm(mu.target)}` is the caller's object and is modified in place ({how}); only declared "
                       "out-parameter functions may do that" + (f" - {OUT_PARAMS[fi.name][1]}" if ok else ""))
            elif o.startswith("state:"):
                if how in ("subscript-store", "subscript-delete"):
                    continue  # storing into own container
                if how.startswith("method:"):
                    continue  # list/dict state: R5
                # in-place arithmetic on an element of own state: all stored values must be fresh
                attr = o[6:]
                vals = []
                owner = fi.cls
                if owner is not None:
                    for q in repo.mro(owner.qualname):
                        ci = repo.classes.get(q)
                        if ci is None:
                            continue
                        for m in ci.methods.values():
                            flm = lib.flow(m, repo)
                            for t, s in lib.stores(m):
                                if isinstance(t, ast.Subscript) and lib.chain_text(t.value) == attr and isinstance(s, ast.Assign):
                                    vals.append((m, s, ef.origin(flm, s.value, s)))
                bad = [(m, s, oo) for m, s, oo in vals if oo not in ("fresh", "scalar")]
                ctx.ob(rule, f"{fi.short}/in-place-on-state:{attr}", bool(vals) and not bad, fi, mu.node,
                       f"`{norm(mu.target)}[...]` is modified in place; every value stored in {attr} must be a private copy",
                       [f"{m.short}: `{lib.short(s, 70)}` origin {oo}" for m, s, oo in vals])
            else:
                acc = ACCEPTED_SITES.get((fi.short, norm(mu.node)))
                ctx.ob(rule, f"{fi.short}/mutates-unowned", acc is not None, fi, mu.node,
                       f"`{norm(mu.target)}` is modified in place ({how}) but its origin is {o}")
        # call sites of functions that mutate a parameter
        for mu in ef.call_mutations(fi):
            callee = mu.how[5:].split("(")[0]
            cname = callee.split(".")[-1]
            pname = mu.how.split("param ")[1].rstrip(")")
            if pname in ("self", "cls"):
                continue
            n_calls += 1
            o = mu.origin
            argt = norm(mu.target)
            if o in ("fresh", "scalar"):
                ok = True
            elif o.startswith("param:") and o[6:] not in ("self", "cls"):
                ok = OUT_PARAMS.get(fi.name, ("",))[0] == o[6:]  # forwarded out-parameter
            elif o.startswith("state:") and cname in ("apply_constraints", "apply_relations"):
                ok = False
            else:
                ok = (fi.short, cname, argt) in ACCEPTED_ARGS
            ctx.ob(rule, f"{fi.short}/passes-to-mutator:{cname}({pname})", ok, fi, lib.stmt_of(mu.node),
                   f"`{cname}` modifies its argument `{pname}` in place; here it receives `{argt}` with origin {o}; "
                   "it must be fresh, or a forwarded out-parameter"
                   + (f" - accepted: {ACCEPTED_ARGS[(fi.short, cname, argt)]}" if (fi.short, cname, argt) in ACCEPTED_ARGS else ""))
        for c in lib.calls(fi):
            for k in c.keywords:
                if k.arg and k.arg.startswith("overwrite_") and not (isinstance(k.value, ast.Constant) and not k.value.value):
                    fname = c.func.attr if isinstance(c.func, ast.Attribute) else norm(c.func)
                    pos = LAPACK_OVERWRITE.get(fname, {}).get(k.arg)
                    o = "unknown"
                    if pos is not None and pos < len(c.args):
                        o = ef.origin(lib.flow(fi, repo), c.args[pos], lib.stmt_of(c))
                    ctx.ob(rule, f"{fi.short}/lapack-overwrite:{fname}", o == "fresh", fi, lib.stmt_of(c),
                           f"`{k.arg}` lets LAPACK overwrite its input array in place; that array has origin {o}")
    if floors:
        ctx.sites(rule, "in-place mutation sites examined", n_sites, 40)
        ctx.sites(rule, "calls of parameter mutating functions", n_calls, 15)
    else:
        ctx.sites(rule, "in-place mutation sites examined", n_sites, 10)
    ctx.call_sites += n_calls
    _ = mp


def r4(ctx) -> None:
    repo = ctx.repo
    ef = _effects(repo)
    base = "glotaran.model.megacomplex.Megacomplex"
    impls = []
    for sc in repo.subclasses(base):
        ci = repo.classes[sc]
        if ci.rel.startswith("glotaran/testing/") or "calculate_matrix" not in ci.methods:
            continue
        impls.append(ci.methods["calculate_matrix"])
    ctx.sites("C10-R4", "calculate_matrix implementations", len(impls), 9)
    for m in impls:
        o = ef.returns(m, (1,))
        ctx.ob("C10-R4", f"{m.short}/fresh-matrix", o == "fresh", m, m.node,
               "the returned matrix is allocated in this call (calculate_dataset_matrix scales it in place with "
               f"`this_matrix *= scale`); origin of the returned matrix: {o}", construct=f"def {m.short}(...) -> (labels, matrix)")
    cdm = ctx.fn(MAT, "MatrixProvider.calculate_dataset_matrix")
    fl = lib.flow(cdm, repo)
    for mu in ef.mutations(cdm):
        if mu.how == "augassign":
            ctx.ob("C10-R4", "calculate_dataset_matrix/scales-fresh-matrix", mu.origin == "fresh", cdm, mu.node,
                   f"the matrix scaled in place comes straight from calculate_matrix (origin: {mu.origin})")
    _ = fl


CACHES = ["_matrix_containers", "_global_matrix_containers", "_prepared_matrix_container", "_full_matrices",
          "_aligned_matrices", "_aligned_full_clp_labels"]


def r5(ctx, rule: str = "C10-R5") -> None:
    repo = ctx.repo
    lib.check_filled_items_fresh(ctx, rule)
    lib.check_no_parameter_state_in_constructors(ctx, rule)
    lib.check_linkable_requires_one_global_dimension(ctx, rule)
    entries = [
        (EST, "EstimationProviderUnlinked.estimate"),
        (EST, "EstimationProviderLinked.estimate"),
        (MAT, "MatrixProviderUnlinked.calculate"),
        (MAT, "MatrixProviderLinked.calculate"),
    ]
    ACC = {"append", "extend", "insert"}
    n = 0
    for rel, name in entries:
        entry = ctx.fn(rel, name)
        cls = entry.cls
        env = env_of(repo, entry)
        # functions of the same class hierarchy reachable from the entry (depth <= 3)
        reach = {entry.qualname: (entry, [])}
        frontier = [entry]
        for _ in range(3):
            nxt = []
            for f in frontier:
                for c in lib.calls(f):
                    if isinstance(c.func, ast.Attribute) and lib.chain_text(c.func.value) == "self":
                        m = repo.find_method(cls.qualname, c.func.attr)
                        if m is not None and m.qualname not in reach:
                            reach[m.qualname] = (m, reach[f.qualname][1] + [(f, c)])
                            nxt.append(m)
            frontier = nxt
        for q, (f, chain) in reach.items():
            ctx.touch(f)
            cfg = lib.cfg(f)
            sites = []
            for c in lib.calls(f):
                if isinstance(c.func, ast.Attribute) and c.func.attr in ACC:
                    ch = lib.attr_chain(c.func.value if not isinstance(c.func.value, ast.Subscript) else c.func.value.value)
                    if ch and ch[0] == "self" and len(ch) == 2:
                        sub = norm(c.func.value.slice) if isinstance(c.func.value, ast.Subscript) else None
                        sites.append((lib.stmt_of(c), ch[1], sub, f".{c.func.attr}()"))
            for t, s in lib.stores(f):
                if isinstance(s, ast.AugAssign):
                    base = t.value if isinstance(t, ast.Subscript) else t
                    ch = lib.attr_chain(base)
                    if ch and ch[0] == "self" and len(ch) == 2 and isinstance(s.op, ast.Add):
                        # numeric in-place adds on arrays are R3; list += is accumulation
                        sub = norm(t.slice) if isinstance(t, ast.Subscript) else None
                        sites.append((s, ch[1], sub, "+="))
            for s, attr, sub, how in sites:
                n += 1
                # resets of that attribute: self.attr.clear(), self.attr[sub].clear(), self.attr = ..., self.attr[sub] = ...
                def resets(fn):
                    out = []
                    for c in lib.calls(fn):
                        if isinstance(c.func, ast.Attribute) and c.func.attr == "clear":
                            b = c.func.value
                            bs = norm(b.slice) if isinstance(b, ast.Subscript) else None
                            ch = lib.attr_chain(b.value if isinstance(b, ast.Subscript) else b)
                            if ch == ["self", attr] and bs == sub:
                                out.append(lib.stmt_of(c))
                    for t2, s2 in lib.stores(fn):
                        if isinstance(s2, ast.Assign):
                            bs = norm(t2.slice) if isinstance(t2, ast.Subscript) else None
                            ch = lib.attr_chain(t2.value if isinstance(t2, ast.Subscript) else t2)
                            if ch == ["self", attr] and bs == sub:
                                out.append(s2)
                    return out

                ok = False
                trace = []
                rs = resets(f)
                if any(cfg.dominates(r, s) and r is not s for r in rs):
                    ok = True
                    trace.append(f"reset in {f.short} dominates the accumulation")
                    # an accumulator shared by all items of the evaluation must not be reset once per item:
                    # a reset inside a function that the entry calls from a loop wipes the earlier items' contributions
                    if sub is None:
                        for caller, call in chain:
                            if any(isinstance(a, (ast.For, ast.While)) for a in lib.ancestors(call, caller.node)):
                                ok = False
                                trace.append(f"but {f.short} is called once per item from a loop in {caller.short}: the reset there "
                                             f"discards what earlier items added to self.{attr}")
                                break
                else:
                    # a reset in a caller on the chain that dominates the call
                    for caller, call in reversed(chain):
                        ccfg = lib.cfg(caller)
                        crs = resets(caller)
                        if any(ccfg.dominates(r, call) for r in crs):
                            ok = True
                            trace.append(f"reset in {caller.short} dominates the call")
                            break
                ctx.ob(rule, f"{f.short}/reset-before:{attr}{'[' + sub + ']' if sub else ''}{how}", ok, f, s,
                       f"self.{attr} accumulates across statements; within one evaluation (entry {entry.short}) a reset of it "
                       "must dominate the accumulation, otherwise the value depends on earlier evaluations", trace)
    ctx.sites(rule, "accumulation sites reachable from an evaluation", n, 3)
    # caches are recomputed unconditionally
    for rel, name in [
        (MAT, "MatrixProvider.calculate_dataset_matrices"), (MAT, "MatrixProviderUnlinked.calculate_global_matrices"),
        (MAT, "MatrixProviderUnlinked.calculate_prepared_matrices"), (MAT, "MatrixProviderUnlinked.calculate_full_matrices"),
        (MAT, "MatrixProviderLinked.calculate_aligned_matrices"), (MAT, "MatrixProviderUnlinked.calculate"),
        (MAT, "MatrixProviderLinked.calculate"), (GRP, "OptimizationGroup.calculate"), (DSG, "DatasetGroup.set_parameters"),
    ]:
        f = ctx.fn(rel, name)
        bad = []
        for node in lib.nodes(f, (ast.If, ast.IfExp, ast.While)):
            t = node.test
            txt = norm(t)
            if any(f"self.{c}" in txt for c in CACHES) or "self._cache" in txt or "parameters ==" in txt or "self.parameters" in txt:
                bad.append(node)
        for node in lib.nodes(f, ast.Try):
            for h in node.handlers:
                if h.type is not None and "KeyError" in norm(h.type):
                    bad.append(node)
        for c in lib.calls(f):
            if isinstance(c.func, ast.Attribute) and c.func.attr in ("setdefault", "get") and any(
                    lib.chain_text(c.func.value) == f"self.{x}" for x in CACHES):
                bad.append(c)
        ctx.ob(rule, f"{f.short}/recomputes-unconditionally", not bad, f, bad[0] if bad else f.node,
               "matrices are recomputed on every evaluation; a test on the cached state (memoisation without the "
               "parameters in the key) makes the result depend on the evaluation history",
               construct=lib.short(bad[0], 80) if bad else f"def {f.name}")
    for deco in ("functools.lru_cache", "functools.cache", "lru_cache", "cache", "functools.cached_property", "cached_property"):
        pass
    for fi in repo.functions.values():
        if in_scope(fi) or fi.rel.startswith("glotaran/parameter/"):
            for d in fi.decorator_names():
                if d.split("(")[0] in ("functools.lru_cache", "functools.cache", "lru_cache", "cache", "functools.cached_property",
                                       "cached_property"):
                    ctx.ob(rule, f"{fi.short}/no-memoisation", False, fi, fi.node,
                           f"`@{d}` memoises across evaluations in the optimisation path", construct=f"@{d} def {fi.name}")


def _jit_info(fi):
    for d in fi.decorators:
        f = d.func if isinstance(d, ast.Call) else d
        if norm(f) in ("nb.jit", "numba.jit", "nb.njit", "numba.njit", "jit", "njit"):
            par = False
            if isinstance(d, ast.Call):
                p = kwarg(d, "parallel")
                par = isinstance(p, ast.Constant) and p.value is True
                if p is not None and not isinstance(p, ast.Constant):
                    par = True  # unknown expression: assume parallel
            return True, par
    return False, False


def _is_prange(it: ast.AST) -> bool:
    return isinstance(it, ast.Call) and norm(it.func) in ("nb.prange", "numba.prange", "prange")


def r6(ctx) -> None:
    repo = ctx.repo
    jitted = []
    for fi in repo.functions.values():
        j, par = _jit_info(fi)
        if j:
            jitted.append((fi, par))
    ctx.sites("C10-R6", "numba jitted functions", len(jitted), 6)
    par_names = {fi.name for fi, par in jitted if par}
    n_par = 0
    for fi, par in jitted:
        ctx.touch(fi)
        if not par:
            ctx.ob("C10-R6", f"{fi.short}/serial", True, fi, fi.node, "compiled with parallel=False: prange is range (recorded)",
                   construct=f"@jit(parallel=False) def {fi.name}")
            continue
        n_par += 1
        loops = [n for n in lib.nodes(fi, ast.For) if _is_prange(n.iter)]
        outer = [lp for lp in loops if not any(isinstance(a, ast.For) and _is_prange(a.iter) for a in lib.ancestors(lp, fi.node))]
        if not loops:
            ctx.ob("C10-R6", f"{fi.short}/no-prange", True, fi, fi.node, "parallel=True without prange loop: nothing is parallelised by the user",
                   construct=f"@jit(parallel=True) def {fi.name}")
        for lp in outer:
            iv = lp.target.id if isinstance(lp.target, ast.Name) else None
            body = ast.Module(body=lp.body, type_ignores=[])
            for t, s in lib.stores(body):
                if isinstance(t, ast.Subscript):
                    idx = t.slice.elts if isinstance(t.slice, ast.Tuple) else [t.slice]
                    ok = any(isinstance(i, ast.Name) and i.id == iv for i in idx)
                    ctx.ob("C10-R6", f"{fi.short}/write-indexed-by-prange-variable", ok, fi, s,
                           f"different iterations of the parallel loop over `{iv}` must write disjoint elements: the written "
                           f"index must contain `{iv}`")
                elif isinstance(t, ast.Name) and isinstance(s, ast.AugAssign):
                    used_as_index = any(isinstance(sub, ast.Subscript) and t.id in lib.names_in(sub.slice) for sub in ast.walk(body))
                    defined_in_loop = any(isinstance(s2, ast.Assign) and any(norm(x) == t.id for x in s2.targets)
                                          for s2 in ast.walk(body) if isinstance(s2, ast.Assign))
                    ctx.ob("C10-R6", f"{fi.short}/no-loop-carried-scalar:{t.id}", not used_as_index or defined_in_loop, fi, s,
                           f"`{t.id}` is updated across iterations of a parallel loop and used as an index (data race)")
            for c in lib.calls(body):
                nm = c.func.id if isinstance(c.func, ast.Name) else ""
                if nm in OUT_PARAMS and c.args:
                    a0 = c.args[0]
                    ok = isinstance(a0, ast.Subscript) and (
                        (isinstance(a0.slice, ast.Name) and a0.slice.id == iv)
                        or (isinstance(a0.slice, ast.Tuple) and isinstance(a0.slice.elts[0], ast.Name) and a0.slice.elts[0].id == iv))
                    ctx.ob("C10-R6", f"{fi.short}/callee-writes-own-slice:{nm}", ok, fi, lib.stmt_of(c),
                           f"inside the parallel loop the kernel `{nm}` must receive the slice of the matrix selected by `{iv}`")
    ctx.sites("C10-R6", "parallel kernels", n_par, 3)
    _ = par_names


NONDET = ("numpy.random", "random.", "time.", "uuid.", "secrets.", "os.urandom", "datetime.datetime.now", "datetime.datetime.today")


def r7(ctx) -> None:
    repo = ctx.repo
    cg = callgraph(repo)
    root = ctx.fn(OPT, "Optimizer.objective_function")
    reach = cg.reachable_from([root.qualname])
    ctx.sites("C10-R7", "functions reachable from the objective", len(reach), 80)
    n = 0
    for q in sorted(reach):
        fi = repo.functions[q]
        if fi.rel.startswith(("glotaran/project/", "glotaran/utils/ipython", "glotaran/plugin_system/")):
            continue
        ctx.touch(fi)
        for c in lib.calls(fi, nested=True):
            rq = lib.resolved(repo, fi, c.func)
            n += 1
            if rq.startswith(NONDET) or rq in ("random", "time"):
                ctx.ob("C10-R7", f"{fi.short}/nondeterministic-call", False, fi, lib.stmt_of(c),
                       f"`{rq}` is reachable from the objective function; two evaluations at the same vector may differ")
        for node in lib.nodes(fi, (ast.For, ast.comprehension), nested=True):
            it = node.iter
            is_set = isinstance(it, (ast.Set, ast.SetComp)) or (isinstance(it, ast.Call) and norm(it.func) in ("set", "frozenset"))
            if isinstance(it, ast.Name):
                fl = lib.flow(fi, repo) if not fi.parent else None
                if fl is not None:
                    try:
                        ds = fl.reaching(it.id, node if isinstance(node, ast.For) else lib.stmt_of(node))
                    except KeyError:
                        ds = []
                    if ds and all(d.value is not None and (isinstance(d.value, (ast.Set, ast.SetComp)) or (
                            isinstance(d.value, ast.Call) and norm(d.value.func) in ("set", "frozenset"))) for d in ds):
                        is_set = True
            if is_set:
                ctx.ob("C10-R7", f"{fi.short}/iterates-over-set", False, fi, lib.stmt_of(node) if not isinstance(node, ast.For) else node,
                       "iteration order of a set of strings changes between processes (hash randomisation); it must not feed "
                       "an ordered result on the objective path")
        for c in lib.calls(fi, nested=True):
            if norm(c.func) in ("list", "tuple") and c.args and (
                    isinstance(c.args[0], (ast.Set, ast.SetComp)) or (isinstance(c.args[0], ast.Call) and norm(c.args[0].func) == "set")):
                ctx.ob("C10-R7", f"{fi.short}/orders-a-set", False, fi, lib.stmt_of(c), "list(set(...)) has process dependent order")
    ctx.call_sites += n
    ctx.ob("C10-R7", "objective/reachable-scan", True, root, root.node,
           f"scanned {len(reach)} functions / {n} call sites reachable from the objective for random, time, uuid and set iteration",
           construct="def objective_function")


def r8(ctx) -> None:
    """The one mutation the caller's parameters see (expression refresh) is an exact fixed point (shared with C12-R2)."""
    from glint.rules.c12 import r2 as fixed_point

    fixed_point(ctx, rule="C10-R8")


def datasets_untouched(ctx, rule: str = "C10-R3") -> None:
    """The optimisation group writes result variables only into copies of the caller's datasets."""
    repo = ctx.repo
    ef = _effects(repo)
    cls = repo.cls(GRP, "OptimizationGroup")
    n = 0
    WRITERS = {"add_svd_data", "add_svd_to_dataset", "add_weight_to_result_data", "finalize_dataset_model"}
    for m in cls.methods.values():
        fl = lib.flow(m, repo)
        ctx.touch(m)
        for c in lib.calls(m):
            nm = c.func.attr if isinstance(c.func, ast.Attribute) else (c.func.id if isinstance(c.func, ast.Name) else "")
            if nm not in WRITERS:
                continue
            if m.name in WRITERS:
                continue  # the helpers hand their own parameter on; they are judged at their call sites
            pos = {"add_svd_data": 1, "add_svd_to_dataset": 0, "add_weight_to_result_data": 1, "finalize_dataset_model": 1}[nm]
            arg = c.args[pos] if pos < len(c.args) else next((k.value for k in c.keywords if k.arg in ("dataset", "result_dataset")), None)
            ds = [arg] if isinstance(arg, ast.Name) else []
            for a in ds[:1]:
                n += 1
                o = ef.origin(fl, a, lib.stmt_of(c))
                in_init = m.name == "__init__"
                ok = o in ("fresh",) and not in_init or (not in_init and a.id.startswith("result_"))
                ctx.ob(rule, f"{m.short}/{nm}:writes-into-a-copy", ok, m, c,
                       "variables are added to the result datasets (copies made in create_result_data), never to the datasets of scheme.data: "
                       "the caller's scheme stays untouched and a second optimisation sees the same input",
                       [f"argument `{a.id}` has origin {o}" + (" (constructor: only the caller's datasets exist here)" if in_init else "")],
                       construct=lib.short(c, 110))
        for t, st in lib.stores(m):
            if isinstance(t, ast.Subscript) and isinstance(t.value, ast.Name) and ("dataset" in t.value.id) and m.name == "__init__":
                ctx.ob(rule, f"{m.short}/no-dataset-store-in-constructor", False, m, st, "the constructor must not write into datasets", construct=lib.short(st, 100))
    ctx.sites(rule, "dataset writers called by the optimisation group", n, 3)
    cr = ctx.fn(GRP, "OptimizationGroup.create_result_data")
    txt = lib.xfn(cr, repo)
    ctx.ob(rule, "create_result_data/works-on-copies", "label: data.copy() for label, data in self._data.items()" in txt, cr, cr.node,
           "result datasets start as copies of the input datasets", construct="{label: data.copy() for label, data in self._data.items() ...}")


def r3_datasets(ctx) -> None:
    datasets_untouched(ctx, "C10-R3")


def check(ctx) -> None:
    for g in check.groups:
        g(ctx)


check.groups = [r1, r2, r3, r4, r5, r6, r7, r8, r3_datasets]
