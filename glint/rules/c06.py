"""C06 - labelled outputs follow their labels: declaration order and composition."""

from __future__ import annotations

import ast

from glint import lib
from glint.index import norm

MAT = "glotaran/optimization/matrix_provider.py"
DOA = "glotaran/builtin/megacomplexes/damped_oscillation/damped_oscillation_megacomplex.py"
PFD = "glotaran/builtin/megacomplexes/pfid/pfid_megacomplex.py"
DUT = "glotaran/builtin/megacomplexes/decay/util.py"

DOC = {
    "explanation": (
        "Static decision of: label-keyed combination of megacomplex matrices (every column read "
        "is located by `.index(label)` in the operand's own label list, every column written "
        "at the position of the label in the result list, labels and matrices swapped "
        "together); agreement of the column layout map k -> (cos, sin) between the label "
        "constructor, every kernel and every reader of the oscillation type megacomplexes; "
        "access of result variables by label (.sel) in every finalize_data; first-seen merge "
        "of label lists."
    ),
    "rules": {
        "C06-R9": "linked groups stack data, indices, groups, weights, matrices and scales of the datasets in one order (so a dataset's index-dependent matrix is sliced with its own index); result variables are stored as labelled DataArrays of the dataset's own label (alignment by clp_label, never a bare (dims, data) tuple) - shared with C09-R4 and C03-R1",
        "C06-R8": "retrieve_clps writes and reads every clp at the position of its label in the full label list (relation source and target included), never at a position taken from the reduced list (shared with C03-R6)",
        "C06-R1": "combine_megacomplex_matrices: result column = position of the label in the merged list; operand column = <that operand's labels>.index(label), guarded by membership; zeros initialised; labels and matrices are swapped under the same condition",
        "C06-R2": "damped-oscillation and PFID: label list, each kernel and the complex split use the same blocked layout (real/cos columns 0..n-1, imag/sin columns n..2n-1)",
        "C06-R3": "in all finalize_data / retrieve_* functions clp, matrix and spectra variables are read with .sel(<label list>), never positionally",
        "C06-R6": "decay: the closed-form (sequential) A-matrix and rate order, which read the chain off the *declaration* order of the compartments, are used only when is_sequential proves that compartment i is fed by compartment i-1 for every i >= 1 and all population starts in compartment 0; a_matrix and rates are selected by the same guard (shared with C04-R2)",
        "C06-R7": "decay: compartments, initial concentration (restricted by a membership mask over the declared compartments, never by positions in the filtered list), K-matrix fold, rates, A-matrix, returned clp labels and reported matrices all use the one order of get_compartments(dataset_model) (shared with C04-R3)",
        "C06-R5": "label lists are merged first-seen: left + [c for c in right if c not in left]; aligned label lists likewise",
    },
    "declined": ["permutation invariance of fitted numbers (values)"],
    "assumptions": ["xarray .sel returns entries in the order of the requested labels"],
}


def r1(ctx) -> None:
    repo = ctx.repo
    f = ctx.fn(MAT, "MatrixProvider.combine_megacomplex_matrices")
    fl = lib.flow(f, repo)
    augs = [(t, s) for t, s in lib.stores(f) if isinstance(s, ast.AugAssign) and isinstance(t, ast.Subscript) and norm(t.value) == "result_matrix"]
    plain = [(t, s) for t, s in lib.stores(f) if isinstance(s, ast.Assign) and isinstance(t, ast.Subscript) and norm(t.value) == "result_matrix"]
    for t, s in plain:
        ctx.ob("C06-R1", "combine/accumulates", False, f, s,
               "columns must be accumulated (+=): when both operands contribute the same label their columns are added, an "
               "assignment keeps only the last one")
    ctx.sites("C06-R1", "column accumulations", len(augs) + len(plain), 4)
    loop = next((n for n in lib.nodes(f, ast.For) if isinstance(n.iter, ast.Call) and norm(n.iter.func) == "enumerate"), None)
    ok_loop = loop is not None and norm(loop.iter.args[0]) == "result_clp_labels" and isinstance(loop.target, ast.Tuple)
    ctx.ob("C06-R1", "combine/loop-over-result-labels", ok_loop, f, loop or f.node, "the combination loops over the merged label list with positions")
    if not ok_loop:
        return
    pos, lab = norm(loop.target.elts[0]), norm(loop.target.elts[1])
    for t, s in augs:
        idx = t.slice.elts if isinstance(t.slice, ast.Tuple) else [t.slice]
        w_ok = isinstance(idx[-1], ast.Name) and idx[-1].id == pos and all(isinstance(i, ast.Slice) for i in idx[:-1]) and isinstance(s.op, ast.Add)
        ctx.ob("C06-R1", "combine/write-at-label-position", w_ok, f, s, f"the column written is the position `{pos}` of `{lab}` in the merged list")
        # reads
        reads = [n for n in ast.walk(s.value) if isinstance(n, ast.Subscript) and norm(n.value).startswith("matrix_")]
        r_ok = bool(reads)
        for n in reads:
            side = norm(n.value)[len("matrix_"):]
            ridx = n.slice.elts if isinstance(n.slice, ast.Tuple) else [n.slice]
            last = ridx[-1]
            r_ok = r_ok and isinstance(last, ast.Call) and norm(last.func) == f"clp_labels_{side}.index" and len(last.args) == 1 and norm(last.args[0]) == lab \
                and all(isinstance(i, ast.Slice) for i in ridx[:-1])
        ctx.ob("C06-R1", "combine/read-by-label", r_ok, f, s,
               "the column read from an operand is `<labels of that operand>.index(label)` - never a position of another list")
        # guard
        sides = {norm(n.value)[len("matrix_"):] for n in reads}

        def member(test, pol, at, sides=sides):
            return pol and any(norm(test) == f"{lab} in clp_labels_{sd}" for sd in sides)
        ctx.ob("C06-R1", "combine/guarded-by-membership", lib.guarded_by(fl, s, member) is not None, f, s,
               "an operand contributes a column only if it has that label")
    init = [d for d in fl.defs_of("result_matrix") if d.kind == "assign"]
    ctx.ob("C06-R1", "combine/zero-initialised", len(init) == 1 and isinstance(init[0].value, ast.Call) and norm(init[0].value.func) in ("np.zeros", "numpy.zeros"), f,
           init[0].stmt if init else f.node, "columns are accumulated onto zeros")
    swaps = [s for t, s in lib.stores(f) if isinstance(s, ast.Assign) and isinstance(s.targets[0], ast.Tuple) and isinstance(s.value, ast.Tuple)
             and [norm(x) for x in s.targets[0].elts] == [norm(x) for x in reversed(s.value.elts)]]
    swapped = {frozenset(norm(x) for x in s.targets[0].elts) for s in swaps}
    same_block = len({id(getattr(s, "_parent", None)) for s in swaps}) == 1
    ok = swapped == {frozenset(["matrix_left", "matrix_right"]), frozenset(["clp_labels_left", "clp_labels_right"])} and same_block
    ctx.ob("C06-R1", "combine/labels-swapped-with-matrices", ok or not swaps, f, swaps[0] if swaps else f.node,
           "when the operands are exchanged their label lists are exchanged under the same condition",
           construct="; ".join(lib.short(s, 70) for s in swaps) or "no swap")
    rets = lib.nodes(f, ast.Return)
    ctx.ob("C06-R1", "combine/returns-labels-and-matrix", len(rets) == 1 and norm(rets[0].value) == "(result_clp_labels, result_matrix)", f, rets[0] if rets else f.node,
           "returns (merged labels, combined matrix)")
    cdm = ctx.fn(MAT, "MatrixProvider.calculate_dataset_matrix")
    cs = [c for c in lib.calls(cdm) if norm(c.func).endswith("combine_megacomplex_matrices")]
    ctx.sites('C06-R1', "sites iterated at rules/c06.py:94 (cs)", len(cs), 1)
    for c in cs:
        st = lib.stmt_of(c)
        ok = [norm(a) for a in c.args] == ["matrix", "this_matrix", "clp_labels", "this_clp_labels"] and isinstance(st, ast.Assign) and \
            norm(st.targets[0]) == "(clp_labels, matrix)"
        ctx.ob("C06-R1", "calculate_dataset_matrix/combine-arguments", ok, cdm, st, "(matrix, this_matrix, labels, this_labels) -> (labels, matrix)")


def _layout_of_labels(e: ast.AST) -> tuple | None:
    """('blocked', [suffix order]) / ('interleaved', ...) of a label list expression."""
    if isinstance(e, ast.BinOp) and isinstance(e.op, ast.Add):
        parts = []
        for side in (e.left, e.right):
            if isinstance(side, ast.ListComp) and isinstance(side.elt, ast.JoinedStr) and len(side.generators) == 1 and not side.generators[0].ifs:
                lit = "".join(v.value for v in side.elt.values if isinstance(v, ast.Constant))
                parts.append((lit, norm(side.generators[0].iter)))
            else:
                return None
        if parts[0][1] == parts[1][1]:
            return ("blocked", [p[0] for p in parts], parts[0][1])
    if isinstance(e, ast.ListComp) and len(e.generators) >= 2:
        return ("interleaved", [], norm(e.generators[0].iter))
    return None


def r2(ctx, rule: str = "C06-R2") -> None:
    repo = ctx.repo
    for rel, cls, kernels, split in (
        (DOA, "DampedOscillationMegacomplex", ["calculate_damped_oscillation_matrix_no_irf"], "calculate_damped_oscillation_matrix_gaussian_irf"),
        (PFD, "PFIDMegacomplex", [], "calculate_pfid_matrix_gaussian_irf"),
    ):
        cm = ctx.fn(rel, f"{cls}.calculate_matrix")
        fl = lib.flow(cm, repo)
        ds = [d for d in fl.defs_of("clp_label") if d.kind == "assign"]
        lay = _layout_of_labels(ds[0].value) if ds else None
        ok = lay is not None and lay[0] == "blocked" and lay[1] == ["_cos", "_sin"] and lay[2] == "self.labels"
        ctx.ob(rule, f"{cls}/label-layout", ok, cm, ds[0].stmt if ds else cm.node,
               "clp labels are [<label>_cos for all labels] + [<label>_sin for all labels]: cos block, then sin block",
               construct=lib.short(ds[0].stmt, 120) if ds else "def")
        rets = lib.nodes(cm, ast.Return)
        ctx.ob(rule, f"{cls}/returns-labels-with-matrix", all(norm(r.value) == "(clp_label, matrix)" for r in rets) and bool(rets), cm, rets[0] if rets else cm.node,
               "the label list built above is returned with the matrix")
        shp = [d for d in fl.defs_of("matrix_shape") if d.kind == "assign"]
        ctx.ob(rule, f"{cls}/matrix-has-2n-columns", bool(shp) and "len(clp_label)" in norm(shp[0].value), cm, shp[0].stmt if shp else cm.node,
               "the matrix has one column per clp label")
        for k in kernels:
            kf = ctx.fn(rel, k)
            sts = [(t, s) for t, s in lib.stores(kf) if isinstance(t, ast.Subscript) and norm(t.value) == kf.params()[0]]
            re_col = im_col = None
            for t, s in sts:
                col = t.slice.elts[-1] if isinstance(t.slice, ast.Tuple) else t.slice
                if norm(s.value).endswith(".real"):
                    re_col = col
                if norm(s.value).endswith(".imag"):
                    im_col = col
            steps = [s for t, s in lib.stores(kf) if isinstance(s, ast.AugAssign) and isinstance(t, ast.Name)]
            okk = False
            trace = []
            if re_col is not None and im_col is not None and len(steps) == 1:
                cnt = norm(steps[0].target)
                step1 = isinstance(steps[0].op, ast.Add) and isinstance(steps[0].value, ast.Constant) and steps[0].value.value == 1
                re_is_k = norm(re_col) == cnt
                flk = lib.flow(kf, repo)
                off = None
                if isinstance(im_col, ast.BinOp) and isinstance(im_col.op, ast.Add):
                    other = im_col.right if norm(im_col.left) == cnt else (im_col.left if norm(im_col.right) == cnt else None)
                    if other is not None:
                        off = flk.term(other, lib.stmt_of(im_col))
                trace = [f"real -> column {norm(re_col)}", f"imag -> column {norm(im_col)}", f"counter step: {lib.short(steps[0])}"]
                n_ok = False
                if off is not None:
                    a = off.single_atom()
                    n_ok = bool(a and a[0] == "call" and a[1] == "len" and any(p in repr(a[2]) for p in kf.params()[1:3]))
                    n_ok = n_ok or bool(a and a[0] == "attr" and a[2] == "size")
                # zero initial counter
                init0 = any(d.kind == "assign" and isinstance(d.value, ast.Constant) and d.value.value == 0 for d in flk.defs_of(cnt))
                okk = step1 and re_is_k and n_ok and init0
            ctx.ob(rule, f"{k}/blocked-columns", okk, kf, sts[0][1] if sts else kf.node,
                   "oscillation k writes its real (cos) part to column k and its imaginary (sin) part to column n + k, like the label list", trace)
            loopz = [n for n in lib.nodes(kf, ast.For) if isinstance(n.iter, ast.Call) and norm(n.iter.func) == "zip"]
            ok_zip = len(loopz) == 1 and [norm(a) for a in loopz[0].iter.args] == kf.params()[1:3]
            ctx.ob(rule, f"{k}/frequency-rate-pairs", ok_zip, kf, loopz[0] if loopz else kf.node, "frequency k is paired with rate k")
        sf = ctx.fn(rel, split)
        rets = lib.nodes(sf, ast.Return)
        oks = False
        for r in rets:
            v = r.value
            if isinstance(v, ast.Call) and norm(v.func) in ("np.concatenate", "numpy.concatenate") and v.args and isinstance(v.args[0], ast.Tuple) and len(v.args[0].elts) == 2:
                a, b = v.args[0].elts
                ax = next((k.value for k in v.keywords if k.arg == "axis"), None)
                oks = norm(a).endswith(".real") and norm(b).endswith(".imag") and norm(a)[:-5] == norm(b)[:-5] and isinstance(ax, ast.Constant) and ax.value == 1
        ctx.ob(rule, f"{split}/blocked-columns", oks, sf, rets[0] if rets else sf.node,
               "the IRF kernel returns concatenate((real, imag), axis=1): real block then imaginary block, like the label list")
        # the oscillation axis of the complex array is ordered like rates/frequencies
        fls = lib.flow(sf, repo)
        ks = [d for d in fls.defs_of("k") if d.kind == "assign"]
        okk = False
        if ks:
            from glint.terms import Poly
            kt = fls.term(ks[0].value, ks[0].node)
            rp, fp = sf.params()[1], sf.params()[0]
            r_atom = Poly.atom(("name", rp))
            rest = kt - r_atom
            names = {a[1] for a in rest.all_atoms() if a[0] == "name"}
            sel = [a for a in kt.all_atoms() if a[0] == "sub"]
            # rates enter linearly with coefficient one, the imaginary part is elementwise in the frequencies
            okk = kt.coefficient_of(("name", rp)) == Poly.const(1) and "1j" in names and fp in names and rp not in names and not sel
        ctx.ob(rule, f"{split}/columns-in-parameter-order", okk, sf,
               ks[0].stmt if ks else sf.node, "column k of the complex array belongs to rate k and (elementwise) frequency k: k = rates + 1j * f(frequencies)")
        # accumulate on index variant
        oi = ctx.fn(rel, split + "_on_index")
        aug = [s for t, s in lib.stores(oi) if isinstance(s, ast.AugAssign) and norm(t) == oi.params()[0] and isinstance(s.op, ast.Add)]
        ctx.ob(rule, f"{split}_on_index/adds-whole-blocks", len(aug) == 1 and isinstance(aug[0].value, ast.Call) and norm(aug[0].value.func) == split, oi,
               aug[0] if aug else oi.node, "the (n_t, 2n) block of each Gaussian is added as a whole (no column re-ordering)")
        # the parameter arrays follow the declaration order of the labels
        for nm in ("frequencies", "rates"):
            dd = [d for d in fl.defs_of(nm) if d.kind == "assign"]
            okp = False
            for d in dd:
                tt = fl.term(d.value, d.node)
                atoms = tt.atoms()
                arr_atoms = [a for a in atoms if a[0] == "call" and a[1] == "numpy.array"]
                others = [a for a in atoms if a not in arr_atoms and a[0] not in ("num",) and not (a[0] == "attr" and a[2] == "pi")
                          and not (a[0] == "name" and a[1] in ("frequencies", "rates"))]
                src_ok = len(arr_atoms) == 1 and f"'{nm}'" in repr(arr_atoms[0][2]) and "self" in repr(arr_atoms[0][2]) and len(tt.terms) == 1
                # later rebinding (axis scaling) must stay elementwise in the same array
                okp = okp or (src_ok and not others)
                if not src_ok and not arr_atoms:
                    # frequencies = frequencies * scale  (elementwise on the previous definition)
                    okp = okp
            bad_sel = any(a[0] in ("sub", "mcall") and nm in repr(a) for d in dd for a in fl.term(d.value, d.node).all_atoms()
                          if a[0] == "sub" or (a[0] == "mcall" and a[2] in ("sort", "argsort")))
            bad_call = any(a[0] == "call" and a[1] in ("numpy.sort", "sorted", "numpy.flip", "numpy.unique", "reversed", "numpy.roll") for d in dd
                           for a in fl.term(d.value, d.node).all_atoms())
            okp = okp and not bad_sel and not bad_call
            ctx.ob(rule, f"{cls}/{nm}-in-declaration-order", okp, cm, dd[0].stmt if dd else cm.node,
                   f"the {nm} array follows self.{nm} (the order of self.labels)")


READ_VARS = {"clp", "matrix", "global_matrix"}


def r3(ctx) -> None:
    repo = ctx.repo
    fins = [fi for fi in repo.functions.values() if fi.rel.startswith("glotaran/builtin/megacomplexes/") and (
        fi.name == "finalize_data" or fi.name.startswith("retrieve_"))]
    ctx.sites("C06-R3", "finalize / retrieve functions", len(fins), 10)
    n = 0
    for fi in fins:
        ctx.touch(fi)
        dp = "dataset"
        for node in lib.nodes(fi, (ast.Attribute, ast.Subscript)):
            name = None
            if isinstance(node, ast.Attribute) and isinstance(node.value, ast.Name) and node.value.id == dp and node.attr in READ_VARS and isinstance(node.ctx, ast.Load):
                name = node.attr
            if isinstance(node, ast.Subscript) and isinstance(node.value, ast.Name) and node.value.id == dp and isinstance(node.ctx, ast.Load):
                k = lib.const_str(node.slice)
                if k in READ_VARS or (isinstance(node.slice, ast.JoinedStr) and "associated" in norm(node.slice)):
                    name = k or norm(node.slice)
            if name is None:
                continue
            # also follow one local alias:  matrix = dataset.global_matrix if as_global else dataset.matrix
            par = node._parent
            uses = [par]
            if isinstance(par, ast.IfExp) and isinstance(par._parent, ast.Assign) and isinstance(par._parent.targets[0], ast.Name):
                alias = par._parent.targets[0].id
                uses = [u._parent for u in lib.nodes(fi, ast.Name) if u.id == alias and isinstance(u.ctx, ast.Load)]
            for u in uses:
                n += 1
                ok = isinstance(u, ast.Attribute) and u.attr in ("sel", "shape", "coords", "dims") or (
                    isinstance(u, ast.Call) and norm(u.func) == "len")
                if isinstance(u, ast.Attribute) and u.attr == "sel":
                    call = u._parent
                    ok = isinstance(call, ast.Call) and (call.keywords or call.args)
                ctx.ob("C06-R3", f"{fi.short}/label-selection:{name}", ok, fi, lib.stmt_of(node),
                       f"`{name}` is a label-indexed result variable: it must be read with `.sel(<labels>)`, a positional read returns "
                       "whatever label sits at that position after merging")
    ctx.sites("C06-R3", "reads of label-indexed result variables", n, 14)


def r5(ctx) -> None:
    repo = ctx.repo
    f = ctx.fn(MAT, "MatrixProvider.combine_megacomplex_matrices")
    fl = lib.flow(f, repo)
    ds = [d for d in fl.defs_of("result_clp_labels") if d.kind == "assign"]
    ok = False
    for d in ds:
        v = d.value
        if isinstance(v, ast.BinOp) and isinstance(v.op, ast.Add) and isinstance(v.right, ast.ListComp):
            left = norm(v.left)
            g = v.right.generators[0]
            ok = norm(v.right.elt) == norm(g.target) and len(g.ifs) == 1 and norm(g.ifs[0]) == f"{norm(g.target)} not in {left}" and \
                left.startswith("clp_labels_") and norm(g.iter).startswith("clp_labels_") and norm(g.iter) != left
    ctx.ob("C06-R5", "combine/first-seen-merge", ok, f, ds[0].stmt if ds else f.node,
           "merged labels = left labels followed by the right labels not seen before, each in their own order")
    al = ctx.fn(MAT, "MatrixProviderLinked.align_full_clp_labels")
    txt = norm(al.node)
    ok = "for dataset_label in dataset_labels" in txt and "if label not in aligned_full_clp_labels[group_label]" in txt and \
        "self.get_matrix_container(dataset_label).clp_labels" in txt
    ctx.ob("C06-R5", "align_full_clp_labels/first-seen-merge", ok, al, al.node,
           "aligned label lists are the first-seen union over the group's datasets in group order",
           construct="aligned[group] += [label for label in labels(dataset) if label not in aligned[group]]")
    am = ctx.fn(MAT, "MatrixProviderLinked.align_matrices")
    txt = norm(am.node)
    ok = "if c not in full_clp_labels" in txt and "full_clp_labels.append(c)" in txt and "mask.append(full_clp_labels.index(c))" in txt
    ctx.ob("C06-R5", "align_matrices/columns-by-label", ok, am, am.node,
           "stacked matrices place each dataset's columns at the positions of their labels in the first-seen union",
           construct="mask.append(full_clp_labels.index(c))")
    st = [s for t, s in lib.stores(am) if isinstance(t, ast.Subscript) and norm(t.value) == "full_matrix"]
    ok = len(st) == 1 and norm(st[0].targets[0]).replace(" ", "") == "full_matrix[start:end,masks[i]]"
    ctx.ob("C06-R5", "align_matrices/block-placement", ok, am, st[0] if st else am.node, "block i occupies its own rows and the columns given by its label mask")


def r8(ctx) -> None:
    """Reduced clps are expanded by label position (shared with C03-R6)."""
    from glint.rules import c03

    c03.r6(ctx, rule="C06-R8")


def r9(ctx) -> None:
    """Per-dataset quantities of linked groups are stacked in one order, and result variables are assigned as labelled
    arrays (xarray aligns them by clp_label) - shared with C09-R4 and C03-R1."""
    from glint.rules import c03
    from glint.rules import c09

    c09.r4(ctx, rule="C06-R9")
    c03.r1(ctx, rule="C06-R9")


def check(ctx) -> None:
    for g in check.groups:
        g(ctx)


def r6(ctx) -> None:
    from glint.rules import c04

    c04.r2(ctx, rule="C06-R6")


def r7(ctx) -> None:
    from glint.rules import c04

    c04.r3(ctx, rule="C06-R7")


check.groups = [r1, r2, r3, r5, r6, r7, r8, r9]
