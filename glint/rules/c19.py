"""C19 - plugin registry: first registration wins, every plugin stays reachable."""

from __future__ import annotations

import ast

from glint import lib
from glint.index import norm
from glint.terms import Poly

BASE = "glotaran/plugin_system/base_registry.py"
PIO = "glotaran/plugin_system/project_io_registration.py"
DIO = "glotaran/plugin_system/data_io_registration.py"
MEG = "glotaran/plugin_system/megacomplex_registration.py"

DOC = {
    "explanation": (
        "Premises of a two-line inductive invariant over all registration histories, decided "
        "from the source: only add_plugin_to_registry and set_plugin store into a registry "
        "(package-wide who-may-write scan over subscript stores, deletes and mutating mapping "
        "methods on the registry parameter or on __PluginRegistry attributes); the short-key "
        "store is reached with the original key only when the key was absent (reaching "
        "definitions + path query); the '.' rejection dominates every store; lookups raise "
        "ValueError naming the known plugins; every load_/save_ dispatcher calls the same-named "
        "plugin method on the io object resolved from the given or inferred format."
    ),
    "rules": {
        "C19-R1": "only add_plugin_to_registry and set_plugin write registry mappings; nothing deletes or clears them",
        "C19-R2": "on every path where the short key is already present it is rebound to the plugin's full name before the short-key store; the other store is keyed by the full name; the stored value is the registered plugin",
        "C19-R3": "the test for '.' in the short name raises ValueError and dominates every store (both writers); set_plugin validates the full name before storing",
        "C19-R4": "get_plugin_from_registry subscripts the registry only under the membership test and otherwise raises ValueError with the caller's message, which interpolates the known names of the same registry",
        "C19-R5": "each load_x/save_x dispatcher obtains io from get_*_io(format_name or infer_file_format(<its path parameter>)) and calls io.<same name>",
    },
    "declined": ["entry-point discovery order of third-party plugins (environment dependent)"],
    "assumptions": ["glotaran/testing/plugin_system.py (monkeypatch helpers for test suites) is outside the registry API"],
}

MUTATORS = {"pop", "popitem", "clear", "update", "setdefault", "__setitem__", "__delitem__"}
REG_ATTRS = {"megacomplex", "data_io", "project_io"}
# functions allowed to store, with reason
WRITERS = {
    "add_plugin_to_registry": "the registration primitive",
    "set_plugin": "the sanctioned re-pointing of a short name",
}
TESTING_HELPERS = "glotaran/testing/plugin_system.py"


def _is_registry_expr(e: ast.AST, fi) -> bool:
    """Expression denoting a registry mapping: the ``plugin_registry`` parameter of the base
    registry functions or an attribute of ``__PluginRegistry``."""
    ch = lib.attr_chain(e)
    if ch is None:
        return False
    if len(ch) == 2 and ch[0].endswith("PluginRegistry") and ch[1] in REG_ATTRS:
        return True
    if ch == ["plugin_registry"] and "plugin_registry" in fi.params():
        return True
    return False


def r1(ctx) -> None:
    repo = ctx.repo
    n_stores = 0
    n_scanned = 0
    for fi in repo.functions.values():
        if fi.rel == TESTING_HELPERS:
            continue
        n_scanned += 1
        for t, s in lib.stores(fi):
            target_reg = None
            if isinstance(t, ast.Subscript) and _is_registry_expr(t.value, fi):
                target_reg = t
            elif _is_registry_expr(t, fi) and not isinstance(s, (ast.For,)):
                target_reg = t  # rebinding a whole registry
            if target_reg is None:
                continue
            if isinstance(s, ast.Delete):
                ctx.ob("C19-R1", "package/no-registry-delete", False, fi, s,
                       "registry entries must never be deleted (every registered plugin stays reachable)")
                continue
            n_stores += 1
            ok = fi.rel == BASE and fi.name in WRITERS and isinstance(t, ast.Subscript)
            ctx.ob("C19-R1", f"package/registry-store:{fi.short}", ok, fi, s,
                   "only add_plugin_to_registry and set_plugin may store into a plugin registry")
        for c in lib.calls(fi):
            if isinstance(c.func, ast.Attribute) and c.func.attr in MUTATORS and _is_registry_expr(c.func.value, fi):
                ctx.ob("C19-R1", "package/no-registry-mutator", False, fi, lib.stmt_of(c),
                       f"`.{c.func.attr}()` on a plugin registry bypasses first-registration-wins")
    for mi in repo.modules.values():
        if mi.rel == TESTING_HELPERS:
            continue
        for node in mi.tree.body:
            if isinstance(node, (ast.Assign, ast.Delete, ast.AugAssign)):
                tg = node.targets if not isinstance(node, ast.AugAssign) else [node.target]
                for t in tg:
                    base = t.value if isinstance(t, ast.Subscript) else t
                    ch = lib.attr_chain(base)
                    if ch and len(ch) == 2 and ch[0].endswith("PluginRegistry") and ch[1] in REG_ATTRS:
                        ctx.ob("C19-R1", "package/module-level-registry-store", False, None, node,
                               f"module level store into a registry in {mi.rel}")
    ctx.sites("C19-R1", "registry stores", n_stores, 3)
    ctx.note(f"C19-R1 scanned {n_scanned} functions for registry stores/deletes/mutators")
    # the registries are created empty
    reg = repo.cls(BASE, "__PluginRegistry")
    for a in sorted(REG_ATTRS):
        v = reg.class_assigns.get(a)
        ctx.ob("C19-R1", f"__PluginRegistry.{a}/starts-empty", isinstance(v, ast.Dict) and not v.keys, None, v or reg.node,
               "registries start empty (base case of the invariant)", construct=f"{a} = {norm(v) if v is not None else '?'}")


def _dot_guard(fi, param: str):
    """The ``if '.' in <param>: raise ValueError`` statement."""
    for n in lib.nodes(fi, ast.If):
        t = n.test
        if (
            isinstance(t, ast.Compare)
            and len(t.ops) == 1
            and isinstance(t.ops[0], ast.In)
            and lib.const_str(t.left) == "."
            and isinstance(t.comparators[0], ast.Name)
            and t.comparators[0].id == param
            and n.body
            and isinstance(n.body[-1], ast.Raise)
        ):
            return n
    return None


def r2_r3(ctx) -> None:
    repo = ctx.repo
    add = ctx.fn(BASE, "add_plugin_to_registry")
    fl = lib.flow(add, repo)
    cfg = fl.cfg
    params = add.params()
    key_p, plugin_p, reg_p = params[0], params[1], params[2]
    st = [(t, s) for t, s in lib.stores(add) if isinstance(t, ast.Subscript) and lib.chain_text(t.value) == reg_p]
    ctx.sites("C19-R2", "stores in add_plugin_to_registry", len(st), 2)
    fpn_calls = lambda e: [c for c in ast.walk(e) if isinstance(c, ast.Call) and norm(c.func) == "full_plugin_name"  # noqa: E731
                           and len(c.args) == 1 and isinstance(c.args[0], ast.Name) and c.args[0].id == plugin_p]
    dot = _dot_guard(add, key_p)
    ctx.ob("C19-R3", "add_plugin_to_registry/dot-rejected", dot is not None
           and (lib.raised_name(repo, add, dot.body[-1]) == "ValueError"), add, dot or add.node,
           "a short name containing '.' is rejected with ValueError", construct=lib.short(dot) if dot else "def add_plugin_to_registry")
    if dot is not None:
        only_param = all(d.kind == "param" for d in fl.reaching(key_p, dot))
        ctx.ob("C19-R3", "add_plugin_to_registry/dot-test-on-original-key", only_param, add, dot,
               "the '.' test must examine the key as given by the caller (before any rebinding)")
    n_short = n_full = 0
    ident_stores = []
    for t, s in st:
        if dot is not None:
            ctx.ob("C19-R3", f"add_plugin_to_registry/dot-guard-dominates:{norm(t.slice)[:40]}", cfg.dominates(dot, s), add, s,
                   "the '.' rejection must dominate every registry store")
        val_ok = isinstance(s, ast.Assign) and isinstance(s.value, ast.Name) and s.value.id == plugin_p \
            and all(d.kind == "param" for d in fl.reaching(plugin_p, s))
        ctx.ob("C19-R2", f"add_plugin_to_registry/stores-the-plugin:{norm(t.slice)[:40]}", val_ok, add, s,
               "the value stored is the plugin being registered")
        k = t.slice
        tk = fl.term(k, s)
        full = False
        a = tk.single_atom()
        if a and a[0] == "fstring" and a[1] and a[1][0][0] == "fmt":
            first_atom = Poly(dict(a[1][0][1])).single_atom()
            full = bool(first_atom and first_atom[0] == "call" and first_atom[1].endswith("full_plugin_name")
                        and first_atom[2] == (Poly.atom(("name", plugin_p)).key(),))
        if a and a[0] == "call" and a[1].endswith("full_plugin_name"):
            full = a[2] == (Poly.atom(("name", plugin_p)).key(),)
        if full:
            ctx.ob("C19-R2", "add_plugin_to_registry/full-name-key", True, add, s,
                   "store keyed by a name that starts with full_plugin_name(plugin)")
            n_full += 1
            if a and a[0] == "fstring" and len(a[1]) >= 2:
                ident_stores.append(s)
            continue
        if isinstance(k, ast.Name) and any(d.kind == "param" and d.var == key_p for d in fl.reaching(k.id, s)):
            n_short += 1
            # short-key store: the caller's key may reach it only if the key was absent
            tests = [n for n in lib.nodes(add, ast.If)
                     if isinstance(n.test, ast.Compare) and len(n.test.ops) == 1 and isinstance(n.test.ops[0], ast.In)
                     and isinstance(n.test.left, ast.Name) and n.test.left.id == k.id
                     and lib.chain_text(n.test.comparators[0]) == reg_p]
            tests = [n for n in tests if all(d.kind == "param" for d in fl.reaching(k.id, n))]
            full_term = Poly.atom(("call", "glotaran.plugin_system.base_registry.full_plugin_name", (Poly.atom(("name", plugin_p)).key(),)))
            rebinds = [d.stmt for d in fl.defs_of(k.id) if d.kind == "assign" and fl.term(d.value, d.node) == full_term]
            ok = False
            trace = []
            for g in tests:
                if not cfg.dominates(g, s):
                    trace.append(f"presence test at line {g.lineno} does not dominate the store")
                    continue
                first = g.body[0]
                escapes = cfg.exists_path(first, s, avoid=rebinds, strict=False) if first not in rebinds else False
                if not escapes:
                    ok = True
                else:
                    trace.append("a path from the key-present branch reaches the store without rebinding the key")
            if not tests:
                trace.append("no `key in registry` test on the caller's key")
            # every definition of the key that reaches the store is the parameter or the full-name rebinding
            for d in fl.reaching(k.id, s):
                if d.kind == "param":
                    continue
                if d.stmt in rebinds:
                    continue
                ok = False
                trace.append(f"key also defined by `{lib.short(d.stmt, 70)}`")
            ctx.ob("C19-R2", "add_plugin_to_registry/first-wins", ok, add, s,
                   "when the short key is already registered it must be rebound to full_plugin_name(plugin) on every "
                   "path before this store, so that the existing short-name binding is kept", trace)
            continue
        ctx.ob("C19-R2", "add_plugin_to_registry/unknown-key", False, add, s,
               "a registry store must be keyed either by the caller's (absent) short key or by the plugin's full name")
    unavoidable = bool(ident_stores) and not cfg.exists_path(cfg.entry, cfg.exit, avoid=ident_stores, exc=False)
    ctx.ob("C19-R2", "add_plugin_to_registry/full-name-store-on-every-path", unavoidable, add, ident_stores[0] if ident_stores else add.node,
           "every registration - also one whose short name is already taken - stores the plugin under "
           "`<full name><instance identifier>`, the key under which that instance stays retrievable",
           construct=lib.short(ident_stores[0]) if ident_stores else "def add_plugin_to_registry")
    ctx.ob("C19-R2", "add_plugin_to_registry/stores-short-and-full", n_short >= 1 and n_full >= 1, add, add.node,
           "a registration stores the plugin under its full name (always reachable) and under the short key",
           construct="def add_plugin_to_registry")
    # a warning is issued on conflict
    warns = [c for c in lib.calls(add) if lib.resolved(repo, add, c.func) in ("warnings.warn", "warn")
             and any("PluginOverwriteWarning" in norm(a) for a in c.args)]
    ctx.ob("C19-R2", "add_plugin_to_registry/warns-on-conflict", bool(warns), add, warns[0] if warns else add.node,
           "a conflicting registration issues PluginOverwriteWarning", construct=lib.short(warns[0], 60) if warns else "def")
    # full_plugin_name yields a dotted name
    fpn = ctx.fn(BASE, "full_plugin_name")
    rets = lib.nodes(fpn, ast.Return)
    ctx.sites('C19-R2', "sites iterated at rules/c19.py:229 (rets)", len(rets), 1)
    for r in rets:
        dotted = isinstance(r.value, ast.JoinedStr) and any(
            isinstance(v, ast.Constant) and "." in v.value for v in r.value.values) and "__module__" in norm(r.value)
        ctx.ob("C19-R2", "full_plugin_name/dotted", dotted, fpn, r,
               "full names are '<module>.<class>' and therefore always contain '.', which keeps them disjoint from short names")
    # ---- set_plugin
    sp = ctx.fn(BASE, "set_plugin")
    fls = lib.flow(sp, repo)
    cfgs = fls.cfg
    sparams = sp.params()
    skey, sfull, sreg = sparams[0], sparams[1], sparams[2]
    dot2 = _dot_guard(sp, skey)
    sst = [(t, s) for t, s in lib.stores(sp) if isinstance(t, ast.Subscript) and lib.chain_text(t.value) == sreg]
    ctx.sites("C19-R3", "stores in set_plugin", len(sst), 1)
    ctx.ob("C19-R3", "set_plugin/dot-rejected", dot2 is not None and lib.raised_name(repo, sp, dot2.body[-1]) == "ValueError",
           sp, dot2 or sp.node, "set_plugin rejects short names containing '.'", construct=lib.short(dot2) if dot2 else "def set_plugin")
    val_guard = None
    for n in lib.nodes(sp, ast.If):
        txt = norm(n.test)
        if sfull in txt and "is_registered_plugin" in txt and n.body and isinstance(n.body[-1], ast.Raise):
            val_guard = n
    for t, s in sst:
        if dot2 is not None:
            ctx.ob("C19-R3", "set_plugin/dot-guard-dominates", cfgs.dominates(dot2, s), sp, s,
                   "the '.' rejection must dominate the store")
        ctx.ob("C19-R3", "set_plugin/full-name-validated", val_guard is not None and cfgs.dominates(val_guard, s)
               and lib.raised_name(repo, sp, val_guard.body[-1]) == "ValueError", sp, s,
               "the full name must be validated (registered, dotted) with ValueError before the store")
        ok = isinstance(t.slice, ast.Name) and t.slice.id == skey and isinstance(s, ast.Assign) \
            and isinstance(s.value, ast.Subscript) and lib.chain_text(s.value.value) == sreg \
            and isinstance(s.value.slice, ast.Name) and s.value.slice.id == sfull
        ctx.ob("C19-R3", "set_plugin/repoints-short-to-full", ok, sp, s,
               "set_plugin stores registry[full name] under the short name")


def r4(ctx) -> None:
    repo = ctx.repo
    get = ctx.fn(BASE, "get_plugin_from_registry")
    fl = lib.flow(get, repo)
    p = get.params()
    key_p, reg_p, msg_p = p[0], p[1], p[2]

    def member(test, pol, at):
        inner, pos = lib.strip_not(test)
        want = pol if pos else not pol
        if isinstance(inner, ast.Call) and norm(inner.func) == "is_registered_plugin":
            args = [norm(a) for a in inner.args] + [norm(k.value) for k in inner.keywords]
            return want and key_p in args and reg_p in args
        if isinstance(inner, ast.Compare) and len(inner.ops) == 1 and norm(inner.left) == key_p and norm(inner.comparators[0]) == reg_p:
            if isinstance(inner.ops[0], ast.In):
                return want
            if isinstance(inner.ops[0], ast.NotIn):
                return not want
        return False

    subs = [n for n in lib.nodes(get, ast.Subscript) if lib.chain_text(n.value) == reg_p and isinstance(n.ctx, ast.Load)]
    ctx.ob("C19-R4", "get_plugin_from_registry/returns-registry-entry", bool(subs), get, subs[0] if subs else get.node,
           "a successful lookup returns registry[key]", construct=lib.short(lib.stmt_of(subs[0])) if subs else "def get_plugin_from_registry")
    for n in subs:
        ctx.ob("C19-R4", "get_plugin_from_registry/guarded-lookup", lib.guarded_by(fl, n, member) is not None, get, lib.stmt_of(n),
               "the registry is subscripted only when the key is registered (no KeyError for unknown names)")
    rs = lib.raises(get)
    ok = any(lib.raised_name(repo, get, r) == "ValueError" and isinstance(r.exc, ast.Call) and r.exc.args
             and norm(r.exc.args[0]) == msg_p and lib.guarded_by(fl, r, lambda t, pl, a: member(t, not pl, a)) is not None
             for r in rs)
    ctx.ob("C19-R4", "get_plugin_from_registry/unknown-raises-ValueError", ok, get, rs[0] if rs else get.node,
           "an unknown name raises ValueError carrying the caller supplied message", construct=lib.short(rs[0]) if rs else "def")
    for r in lib.nodes(get, ast.Return):
        if r.value is None or (isinstance(r.value, ast.Constant) and r.value.value is None):
            ctx.ob("C19-R4", "get_plugin_from_registry/no-default", False, get, r, "lookup must not return a default")
        for c in ast.walk(r.value) if r.value is not None else []:
            if isinstance(c, ast.Call) and isinstance(c.func, ast.Attribute) and c.func.attr == "get" and lib.chain_text(c.func.value) == reg_p:
                ctx.ob("C19-R4", "get_plugin_from_registry/no-default", False, get, r, "`.get()` returns None for unknown names")
    irp = ctx.fn(BASE, "is_registered_plugin")
    rets = lib.nodes(irp, ast.Return)
    ok = len(rets) == 1 and isinstance(rets[0].value, ast.Compare) and isinstance(rets[0].value.ops[0], ast.In) \
        and norm(rets[0].value.left) == irp.params()[0] and norm(rets[0].value.comparators[0]) == irp.params()[1]
    ctx.ob("C19-R4", "is_registered_plugin/is-membership", ok, irp, rets[0] if rets else irp.node,
           "is_registered_plugin is exactly `key in registry`")
    # the three typed lookups
    for rel, name, reg, known in (
        (PIO, "get_project_io", "project_io", "known_project_formats"),
        (DIO, "get_data_io", "data_io", "known_data_formats"),
        (MEG, "get_megacomplex", "megacomplex", "known_megacomplex_names"),
    ):
        g = ctx.fn(rel, name)
        cs = lib.calls_to(repo, g, "get_plugin_from_registry")
        ctx.sites("C19-R4", f"{name} lookup", len(cs), 1)
        c = cs[0]
        regarg = lib.kwarg(c, "plugin_registry") if hasattr(lib, "kwarg") else None
        from glint.index import kwarg
        regarg = kwarg(c, "plugin_registry") or (c.args[1] if len(c.args) > 1 else None)
        keyarg = kwarg(c, "plugin_register_key") or (c.args[0] if c.args else None)
        msg = kwarg(c, "not_found_error_message") or (c.args[2] if len(c.args) > 2 else None)
        ctx.ob("C19-R4", f"{name}/right-registry", regarg is not None and (lib.attr_chain(regarg) or [""])[-1] == reg
               and keyarg is not None and norm(keyarg) == g.params()[0], g, c,
               f"{name} looks its parameter up in the {reg} registry")
        names_known = msg is not None and isinstance(msg, ast.JoinedStr) and any(
            isinstance(v, ast.FormattedValue) and isinstance(v.value, ast.Call) and norm(v.value.func) == known
            for v in msg.values) and any(
            isinstance(v, ast.FormattedValue) and norm(v.value) == g.params()[0] for v in msg.values)
        ctx.ob("C19-R4", f"{name}/message-names-known", names_known, g, c,
               "the error message names the unknown format and interpolates the known names")
        kf = ctx.fn(rel, known)
        kc = [x for x in lib.calls(kf) if norm(x.func) == "registered_plugins"]
        ok = bool(kc) and any((lib.attr_chain(a) or [""])[-1] == reg for a in list(kc[0].args) + [k.value for k in kc[0].keywords])
        ctx.ob("C19-R4", f"{known}/same-registry", ok, kf, kc[0] if kc else kf.node,
               "the known-names helper lists the same registry", construct=lib.short(kc[0]) if kc else "def")
        if name == "get_project_io" or name == "get_data_io":
            # decorator registration goes to the same registry
            pass


def r5(ctx) -> None:
    repo = ctx.repo
    from glint.index import kwarg
    table = [
        (PIO, "get_project_io", ["load_model", "save_model", "load_parameters", "save_parameters",
                                 "load_scheme", "save_scheme", "load_result", "save_result"]),
        (DIO, "get_data_io", ["load_dataset", "save_dataset"]),
    ]
    n = 0
    for rel, getter, names in table:
        for name in names:
            fi = ctx.fn(rel, name)
            fl = lib.flow(fi, repo)
            params = fi.params()
            path_p = params[0] if name.startswith("load_") else params[1]
            io_defs = [d for d in fl.defs_of("io")]
            gcalls = [c for c in lib.calls(fi) if norm(c.func) == getter]
            ok_get = False
            for c in gcalls:
                a = c.args[0] if c.args else None
                if isinstance(a, ast.BoolOp) and isinstance(a.op, ast.Or) and len(a.values) == 2:
                    l, r = a.values
                    if isinstance(l, ast.Name) and l.id == "format_name" and isinstance(r, ast.Call) and norm(r.func) == "infer_file_format":
                        first = r.args[0] if r.args else kwarg(r, "file_path")
                        nte = kwarg(r, "needs_to_exist")
                        exist_ok = True
                        if name.startswith("save_"):
                            exist_ok = nte is not None and isinstance(nte, ast.Constant) and nte.value is False
                        if first is not None and norm(first) == path_p and exist_ok \
                                and all(d.kind == "param" for d in fl.reaching(path_p, c)) \
                                and all(d.kind == "param" for d in fl.reaching("format_name", c)):
                            ok_get = True
            ctx.ob("C19-R5", f"{name}/format-resolution", ok_get, fi, gcalls[0] if gcalls else fi.node,
                   f"io = {getter}(format_name or infer_file_format({path_p}" + (", needs_to_exist=False" if name.startswith("save_") else "") + "))",
                   construct=lib.short(gcalls[0]) if gcalls else "def " + name)
            mcalls = [c for c in lib.calls(fi) if isinstance(c.func, ast.Attribute) and isinstance(c.func.value, ast.Name) and c.func.value.id == "io"]
            n += len(mcalls)
            same = len(mcalls) == 1 and mcalls[0].func.attr == name and len(io_defs) == 1 and bool(gcalls) \
                and io_defs[0].value is gcalls[0]
            ctx.ob("C19-R5", f"{name}/same-name-dispatch", same, fi, mcalls[0] if mcalls else fi.node,
                   f"exactly one plugin call, `io.{name}(...)`, on the io object resolved above",
                   construct=lib.short(mcalls[0], 70) if mcalls else "def " + name)
            # the path handed to the plugin is the dispatcher's path parameter
            if mcalls:
                c = mcalls[0]
                pa = [a for a in list(c.args) + [k.value for k in c.keywords] if path_p in lib.xnames(fl, a, c)]
                ctx.ob("C19-R5", f"{name}/passes-path", bool(pa), fi, c,
                       "the plugin receives the dispatcher's path parameter")
    ctx.sites("C19-R5", "plugin method calls", n, 10)


def r2_reach(ctx) -> None:
    """Every registration request reaches add_plugin_to_registry (which alone decides first-wins/warn/full-name)."""
    repo = ctx.repo
    inst = ctx.fn(BASE, "add_instantiated_plugin_to_registry")
    p = inst.params()
    keys_p, cls_p, reg_p = p[0], p[1], p[2]
    loops = [lp for lp in lib.nodes(inst, ast.For) if norm(lp.iter) == keys_p and isinstance(lp.target, ast.Name)]
    ok = len(loops) == 1
    trace = []
    call = None
    if ok:
        lp, kv = loops[0], loops[0].target.id
        calls_ = [c for c in lib.calls(lp) if norm(c.func) == "add_plugin_to_registry"]
        leaves = [n for n in ast.walk(lp) if isinstance(n, (ast.Continue, ast.Break, ast.Return))]
        ok = len(calls_) == 1 and lib.stmt_of(calls_[0]) in lp.body and not leaves
        trace.append(f"calls in loop: {len(calls_)}, statements leaving the loop body early: {len(leaves)}")
        if ok:
            call = calls_[0]
            kw = {k.arg: norm(k.value) for k in call.keywords}
            okk = kw.get("plugin_register_key") == kv and kw.get("plugin") == f"{cls_p}({kv})" and kw.get("plugin_registry") == reg_p \
                and kw.get("instance_identifier") == kv
            ctx.ob("C19-R2", "add_instantiated_plugin_to_registry/arguments", okk, inst, call,
                   "each key is registered with a fresh instance created for that key, in the caller's registry, with the key as identifier",
                   construct=lib.short(call, 140))
    ctx.ob("C19-R2", "add_instantiated_plugin_to_registry/every-key-reaches-the-registry", ok, inst, loops[0] if loops else inst.node,
           "for every requested key add_plugin_to_registry is called unconditionally: skipping a key (e.g. 'already registered') bypasses "
           "the first-wins warning and the full-name entry that keep every plugin retrievable", trace)
    n = 0
    for rel, outer, callee in ((DIO, "register_data_io", "add_instantiated_plugin_to_registry"), (PIO, "register_project_io", "add_instantiated_plugin_to_registry"),
                               (MEG, "register_megacomplex", "add_plugin_to_registry")):
        fo = ctx.fn(rel, outer)
        cands = [fo] + [f for f in repo.functions.values() if f.parent is fo]
        found = [(f, c) for f in cands for c in lib.calls(f) if norm(c.func) == callee]
        n += len(found)
        okr = len(found) == 1
        if okr:
            f, c = found[0]
            guards = [a for a in lib.ancestors(c, f.node) if isinstance(a, (ast.If, ast.Try, ast.For, ast.While))]
            cfgf = lib.cfg(f)
            okr = not guards and not cfgf.exists_path(cfgf.entry, cfgf.exit, avoid=[lib.stmt_of(c)], exc=False)
        ctx.ob("C19-R2", f"{outer}/always-registers", okr, fo, found[0][1] if found else fo.node,
               f"the registration decorator/function calls {callee} on every path", construct=lib.short(found[0][1], 100) if found else "def " + outer)
    ctx.sites("C19-R2", "registration wrappers", n, 3)


def check(ctx) -> None:
    for g in check.groups:
        g(ctx)


check.groups = [r1, r2_r3, r4, r5, r2_reach]
