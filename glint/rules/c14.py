"""C14 - simulation and fitting agree."""

from __future__ import annotations

import ast

from glint import lib
from glint.index import kwarg
from glint.index import norm
from glint.shapes import ShapeEval
from glint.shapes import arr
from glint.shapes import show

SIM = "glotaran/simulation/simulation.py"
MAT = "glotaran/optimization/matrix_provider.py"

DOC = {
    "explanation": (
        "Static decision of: simulation and the optimisation providers computing dataset "
        "matrices through one and the same builder (resolved call sites; no second builder in "
        "the simulation package); column i of the simulated data being the matrix of index i "
        "times the clps of position i selected *by label*; the global matrix being transposed "
        "into (clp, global) for the full-model path (named-axis shapes); the seed call "
        "preceding the noise draw on every path that has a seed."
    ),
    "rules": {
        "C14-R7": "the optimiser's working copy of the parameters evaluates its expressions on itself (Parameters.copy builds the copy through the constructor), so expression parameters follow the free parameters during the fit (shared with C12-R4)",
        "C14-R6": "automatic linking (link_clp unset) requires one common global dimension name over all datasets (shared with C09-R5)",
        "C14-R1": "simulate_from_clp / simulate_full_model and MatrixProvider.calculate_dataset_matrices / calculate_global_matrices all call MatrixProvider.calculate_dataset_matrix; nothing in glotaran/simulation calls a megacomplex' calculate_matrix directly; the dataset model is filled from the given parameters",
        "C14-R2": "data[:, i] = matrix_i @ clp(position i on the global dimension, selected by the matrix' clp labels); result allocated as zeros (model, global) on the given axes",
        "C14-R3": "full model: clp = global matrix transposed to (clp_label, global) with the global matrix' own labels; index dependent global matrices are refused",
        "C14-R5": "the fit applies to the shared builder's matrix exactly the stages megacomplex scale -> dataset scale (also per aligned index, over the datasets stacked there) -> relations -> constraints -> weight, each once (same obligations as C02-R2); simulation applies none, so simulated data lie in the column space of the fit's matrix up to the dataset scale",
        "C14-R4": "with noise: np.random.seed(noise_seed) (when a seed is given) is executed before the normal draw, which is centred on the simulated data with the given standard deviation; without noise the data is returned unchanged",
    },
    "declined": ["recovery of generating parameters from perturbed starts, zero objective at the truth (numeric, needs execution)"],
    "assumptions": ["numpy's legacy global RandomState is deterministic after seed()"],
}


def r1(ctx) -> None:
    repo = ctx.repo
    target = "glotaran.optimization.matrix_provider.MatrixProvider.calculate_dataset_matrix"
    for rel, name in ((SIM, "simulate_from_clp"), (SIM, "simulate_full_model")):
        f = ctx.fn(rel, name)
        cs = [c for c in lib.calls(f) if lib.resolved(repo, f, c.func) == target]
        ok = len(cs) == 1 and [norm(a) for a in cs[0].args[:3]] == ["dataset_model", "global_axis", "model_axis"]
        ctx.ob("C14-R1", f"{name}/shared-builder", ok, f, cs[0] if cs else f.node,
               "the simulated matrix comes from MatrixProvider.calculate_dataset_matrix(dataset_model, global_axis, model_axis)",
               construct=lib.short(cs[0], 110) if cs else "def " + name)
        if name == "simulate_full_model" and cs:
            gm = kwarg(cs[0], "global_matrix")
            ctx.ob("C14-R1", f"{name}/global-builder", isinstance(gm, ast.Constant) and gm.value is True, f, cs[0],
                   "the global matrix is built with global_matrix=True (same switch as the provider)")
    for name, extra in (("MatrixProvider.calculate_dataset_matrices", None), ("MatrixProviderUnlinked.calculate_global_matrices", "global_matrix")):
        f = ctx.fn(MAT, name)
        cs = [c for c in lib.method_calls(f, "calculate_dataset_matrix") if lib.chain_text(c.func.value) == "self"]
        ok = len(cs) == 1 and [norm(a) for a in cs[0].args[:3]] == ["dataset_model", "global_axis", "model_axis"]
        if extra:
            gm = kwarg(cs[0], extra) if cs else None
            ok = ok and isinstance(gm, ast.Constant) and gm.value is True
        ctx.ob("C14-R1", f"{name}/shared-builder", ok, f, cs[0] if cs else f.node, "the fit builds its matrices with the same function and argument order")
    n = 0
    for fi in repo.functions_in("glotaran/simulation/"):
        ctx.touch(fi)
        for c in lib.calls(fi, nested=True):
            n += 1
            if isinstance(c.func, ast.Attribute) and c.func.attr == "calculate_matrix":
                ctx.ob("C14-R1", f"{fi.short}/no-second-builder", False, fi, lib.stmt_of(c),
                       "simulation must not evaluate megacomplex matrices on its own (scales, label merging and index dependence "
                       "would have to be duplicated)")
    ctx.call_sites += n
    sm = ctx.fn(SIM, "simulate")
    fl = lib.flow(sm, repo)
    ds = [d for d in fl.defs_of("dataset_model") if d.kind == "assign"]
    ok = len(ds) == 1 and norm(ds[0].value) == f"fill_item(model.dataset[{sm.params()[1]}], model, {sm.params()[2]})"
    ctx.ob("C14-R1", "simulate/filled-from-given-parameters", ok, sm, ds[0].stmt if ds else sm.node,
           "the dataset model is filled with the caller's parameters (as DatasetGroup.set_parameters does for the fit)")
    gd = [d for d in fl.defs_of("global_dimension") if d.kind == "assign"]
    ok = any("dim != model_dimension" in norm(d.value) and "coordinates" in norm(d.value) for d in gd)
    ctx.ob("C14-R1", "simulate/global-dimension", ok, sm, gd[0].stmt if gd else sm.node, "the global dimension is the coordinate that is not the model dimension")
    disp = {c.func.id: c for c in lib.calls(sm) if isinstance(c.func, ast.Name) and c.func.id in ("simulate_full_model", "simulate_from_clp")}
    ok = set(disp) == {"simulate_full_model", "simulate_from_clp"} and \
        [norm(a) for a in disp["simulate_full_model"].args] == ["dataset_model", "global_dimension", "global_axis", "model_dimension", "model_axis"] and \
        [norm(a) for a in disp["simulate_from_clp"].args] == ["dataset_model", "global_dimension", "global_axis", "model_dimension", "model_axis", "clp"]
    ctx.ob("C14-R1", "simulate/dispatch-arguments", ok, sm, sm.node, "dimensions and axes are handed on in matching order", construct="simulate_full_model(...) / simulate_from_clp(..., clp)")


def r2(ctx) -> None:
    repo = ctx.repo
    f = ctx.fn(SIM, "simulate_from_clp")
    fl = lib.flow(f, repo)
    loops = [n for n in lib.nodes(f, ast.For)]
    ok_loop = len(loops) == 1 and isinstance(loops[0].iter, ast.Call) and norm(loops[0].iter.func) == "range" and norm(loops[0].iter.args[0]) == "global_axis.size"
    if not ctx.ob("C14-R2", "simulate_from_clp/loop-over-global-axis", ok_loop, f, loops[0] if loops else f.node, "one column per global axis point"):
        return
    pos = norm(loops[0].target)
    sts = [(t, s) for t, s in lib.stores(loops[0]) if isinstance(t, ast.Subscript) and norm(t.value) in ("result.data", "result['data']")]
    ctx.sites("C14-R2", "column store", len(sts), 1)
    for t, s in sts:
        idx = t.slice.elts if isinstance(t.slice, ast.Tuple) else [t.slice]
        w_ok = len(idx) == 2 and isinstance(idx[0], ast.Slice) and norm(idx[1]) == pos
        ctx.ob("C14-R2", "simulate_from_clp/writes-column-i", w_ok, f, s, f"column `{pos}` of the (model, global) data is written")
        v = s.value
        is_dot = (isinstance(v, ast.Call) and norm(v.func) in ("np.dot", "numpy.dot", "np.matmul") and len(v.args) == 2) or (
            isinstance(v, ast.BinOp) and isinstance(v.op, ast.MatMult))
        a0, a1 = (v.args if isinstance(v, ast.Call) else (v.left, v.right)) if is_dot else (None, None)
        m_ok = False
        if a0 is not None:
            mt = a0
            if isinstance(mt, ast.Name):
                ds = [d for d in fl.reaching(mt.id, s) if d.kind == "assign"]
                mt = ds[0].value if len(ds) == 1 else mt
            m_ok = isinstance(mt, ast.IfExp) and norm(mt.test) == "matrix.is_index_dependent" and norm(mt.body) == f"matrix.matrix[{pos}]" and norm(mt.orelse) == "matrix.matrix"
        ctx.ob("C14-R2", "simulate_from_clp/matrix-of-index-i", is_dot and m_ok, f, s,
               f"the matrix is matrix[{pos}] for index dependent models and the single matrix otherwise")
        c_ok = False
        if a1 is not None:
            txt = norm(a1).replace(" ", "")
            c_ok = txt in (f"clp.isel({{global_dimension:{pos}}}).sel({{'clp_label':matrix.clp_labels}})",
                           f"clp.sel({{'clp_label':matrix.clp_labels}}).isel({{global_dimension:{pos}}})",
                           f"clp.isel({{global_dimension:{pos}}}).sel(clp_label=matrix.clp_labels)")
        ctx.ob("C14-R2", "simulate_from_clp/clp-by-label-at-position-i", c_ok, f, s,
               f"the clps are those of global position `{pos}`, selected by the matrix' own clp labels (order independent)")
    init = [d for d in fl.defs_of("result") if d.kind == "assign"]
    ok = any(isinstance(d.value, ast.Call) and norm(d.value.func) == "xr.DataArray" and d.value.args
             and lib.xnorm(fl, d.value.args[0], d.stmt).replace(" ", "") == "np.zeros((model_axis.size,global_axis.size))"
             and "[(model_dimension, model_axis), (global_dimension, global_axis)]" in lib.xnorm(fl, d.value, d.stmt) for d in init)
    ctx.ob("C14-R2", "simulate_from_clp/result-layout", ok, f, init[0].stmt if init else f.node, "the result is zeros of shape (model, global) on the given axes")
    chk = [n for n in lib.nodes(f, ast.If) if "clp_label" in norm(n.test) and isinstance(n.body[-1], ast.Raise)]
    ctx.ob("C14-R2", "simulate_from_clp/requires-clp-labels", len(chk) == 1, f, chk[0] if chk else f.node, "a clp array without clp_label coordinate is refused")


def r3(ctx) -> None:
    repo = ctx.repo
    f = ctx.fn(SIM, "simulate_full_model")
    fl = lib.flow(f, repo)
    das = [c for c in lib.calls(f) if norm(c.func) == "xr.DataArray"]
    ctx.sites("C14-R3", "global clp DataArray", len(das), 1)
    for c in das:
        st = lib.stmt_of(c)

        def src(e, text):
            if text == "global_matrix.matrix":
                return arr("G", "K")
            return None

        ev = ShapeEval(fl, src)
        sh = ev.ev(c.args[0], st)
        coords = kwarg(c, "coords") or (c.args[1] if len(c.args) > 1 else None)
        names = [norm(p.elts[0]) for p in coords.elts] if isinstance(coords, (ast.List, ast.Tuple)) else []
        tags = [{"'clp_label'": "K", "global_dimension": "G"}.get(n) for n in names]
        ok = sh == arr("K", "G") and tags == ["K", "G"]
        ctx.ob("C14-R3", "simulate_full_model/global-matrix-as-clp", ok, f, st,
               f"the (global, clp) matrix must be transposed to (clp_label, global) to serve as clp; array is {show(sh)}, coords are {names}")
        lab = coords.elts[0].elts[1] if isinstance(coords, (ast.List, ast.Tuple)) and coords.elts and isinstance(coords.elts[0], ast.Tuple) else None
        ok_l = lab is not None and any(d.kind == "assign" and norm(d.value) == "global_matrix.clp_labels" for d in fl.reaching(norm(lab), st)) if isinstance(lab, ast.Name) else False
        ctx.ob("C14-R3", "simulate_full_model/labels-of-global-matrix", ok_l, f, st, "the clp_label coordinate carries the global matrix' own labels")
    chk = [n for n in lib.nodes(f, ast.If) if "is_index_dependent" in norm(n.test) and isinstance(n.body[-1], ast.Raise)]
    ctx.ob("C14-R3", "simulate_full_model/index-dependent-refused", len(chk) == 1, f, chk[0] if chk else f.node, "index dependent global matrices are refused")
    rets = lib.nodes(f, ast.Return)
    ok = len(rets) == 1 and isinstance(rets[0].value, ast.Call) and norm(rets[0].value.func) == "simulate_from_clp" and \
        [norm(a) for a in rets[0].value.args] == ["dataset_model", "global_dimension", "global_axis", "model_dimension", "model_axis", "global_matrix"]
    ctx.ob("C14-R3", "simulate_full_model/delegates", ok, f, rets[0] if rets else f.node, "the data is then generated by simulate_from_clp with that clp")


def r4(ctx) -> None:
    repo = ctx.repo
    f = ctx.fn(SIM, "simulate")
    cfg = lib.cfg(f)
    fl = lib.flow(f, repo)
    draws = [c for c in lib.calls(f) if lib.resolved(repo, f, c.func).startswith("numpy.random.") and not lib.resolved(repo, f, c.func).endswith(".seed")]
    seeds = [c for c in lib.calls(f) if lib.resolved(repo, f, c.func) == "numpy.random.seed"]
    ctx.sites("C14-R4", "noise draw", len(draws), 1)
    ctx.ob("C14-R4", "simulate/seeds", len(seeds) == 1 and seeds[0].args and norm(seeds[0].args[0]) == "noise_seed", f, seeds[0] if seeds else f.node,
           "the generator is seeded with noise_seed", construct=lib.short(seeds[0]) if seeds else "def simulate")
    for d in draws:
        sd = lib.stmt_of(d)
        if seeds:
            g = next((a for a in lib.ancestors(seeds[0], f.node) if isinstance(a, ast.If)), None)
            ok = g is not None and norm(g.test) == "noise_seed is not None" and cfg.dominates(g, sd) and g.lineno < sd.lineno and not cfg.exists_path(sd, g)
            ctx.ob("C14-R4", "simulate/seed-before-draw", ok, f, sd, "whenever a seed is given it is applied before the noise is drawn")
        ok = lib.resolved(repo, f, d.func) == "numpy.random.normal" and len(d.args) >= 2 and norm(d.args[0]) in ("result.data", "result['data']") and norm(d.args[1]) == "noise_std_dev"
        ctx.ob("C14-R4", "simulate/draw", ok, f, sd, "noise is normal, centred on the simulated data, with the given standard deviation")

        def noise_on(test, pol, at):
            return pol and norm(test) == "noise"
        ctx.ob("C14-R4", "simulate/noise-optional", lib.guarded_by(fl, sd, noise_on) is not None, f, sd, "without noise=True the exact model data is returned")
    rets = lib.nodes(f, ast.Return)
    ctx.ob("C14-R4", "simulate/returns-result", all(norm(r.value) == "result" for r in rets) and bool(rets), f, rets[0] if rets else f.node, "returns the simulated dataset")


def r5(ctx) -> None:
    """The fit side of the agreement: the matrix the fit uses is the shared builder's matrix with exactly the documented
    stages applied (shared with C02-R2); simulation applies none of them, which is why clps come back divided by the scale."""
    from glint.rules.c02 import r2 as pipeline

    pipeline(ctx, rule="C14-R5")


def r6(ctx) -> None:
    """Fit and simulation describe the same model only if datasets are linked on one common global dimension (shared with C09-R5)."""
    lib.check_linkable_requires_one_global_dimension(ctx, "C14-R6")


def r7(ctx) -> None:
    """The fit moves the same parameter set it evaluates: the working copy has its own expression evaluator (shared with C12-R4)."""
    from glint.rules import c12

    c12.r4(ctx, rule="C14-R7")


def check(ctx) -> None:
    for g in check.groups:
        g(ctx)


check.groups = [r1, r2, r3, r4, r5, r6, r7]
