"""C01 - the linear sub-problem is solved optimally (variable projection and NNLS)."""

from __future__ import annotations

import ast

from glint import lib
from glint.index import kwarg
from glint.index import norm
from glint.terms import Poly

VP = "glotaran/optimization/variable_projection.py"
NN = "glotaran/optimization/nnls.py"
EST = "glotaran/optimization/estimation_provider.py"
DSG = "glotaran/model/dataset_group.py"

DOC = {
    "explanation": (
        "Static decision of the *protocol* of the two kernels and of the dispatch: the NNLS "
        "residual identity r = data - matrix.clp for the clp returned by scipy's nnls; the "
        "Kaufman variable-projection protocol as a dataflow pattern over the LAPACK calls "
        "(QR of the matrix, Q^T y, back substitution reading Q^T y before its first n entries "
        "are zeroed, zeroing of exactly positions [0, n), Q applied to the zeroed vector, "
        "side/trans flags, same qr/tau everywhere, clp cut to n); keys of the dispatch table "
        "equal to the Literal options of the model and mapped to the right kernel."
    ),
    "rules": {
        "C01-R1": "residual_nnls returns (clp, data - matrix @ clp) with clp = scipy.optimize.nnls(matrix, data)[0]",
        "C01-R2": "residual_variable_projection: qr,tau = dgeqrf(matrix); t = dormqr('L','T',qr,tau,data); clp = dtrtrs(qr,t) read before zeroing; t[0:n] = 0 with n = matrix.shape[1]; residual = dormqr('L','N',qr,tau,t); returns (clp[:n], residual); inputs are not overwritten",
        "C01-R4": "the matrix and the data handed to the kernel went through the same preparation: weights (dataset weight, else model weights) are complete before the data is weighted once, the matrix is scaled, reduced and weighted in the fixed order (shared with C02-R2)",
        "C01-R3": "SUPPORTED_RESIUDAL_FUNCTIONS has exactly the residual_function options of the dataset group model and maps them to the right kernels; calculate_residual forwards (matrix, data) in order to the function selected in the constructor",
    },
    "declined": ["numerical optimality / KKT for ill-conditioned matrices (values; LAPACK and scipy.optimize.nnls are the trusted base)"],
    "assumptions": ["LAPACK dgeqrf/dormqr/dtrtrs and scipy.optimize.nnls compute what they document", "m >= n, full column rank (property's quantifier)"],
}


def _name(p: str) -> Poly:
    return Poly.atom(("name", p))


def r1(ctx) -> None:
    repo = ctx.repo
    f = ctx.fn(NN, "residual_nnls")
    fl = lib.flow(f, repo)
    mp, dp = f.params()[0], f.params()[1]
    rets = lib.nodes(f, ast.Return)
    ctx.sites("C01-R1", "return", len(rets), 1)
    r = rets[0]
    ok_shape = isinstance(r.value, ast.Tuple) and len(r.value.elts) == 2
    if not ctx.ob("C01-R1", "residual_nnls/returns-pair", ok_shape, f, r, "returns (clp, residual)"):
        return
    clp_t = fl.term(r.value.elts[0], r)
    res_t = fl.term(r.value.elts[1], r)
    nn = Poly.atom(("call", "scipy.optimize.nnls", (_name(mp).key(), _name(dp).key())))
    clp_want = Poly.atom(("item", nn.key(), (0,)))
    alt = Poly.atom(("sub", nn.key(), Poly.const(0).key()))
    ok_clp = clp_t in (clp_want, alt)
    ctx.ob("C01-R1", "residual_nnls/clp-from-nnls", ok_clp, f, r, "clp is the solution vector of scipy.optimize.nnls(matrix, data)", [f"clp term: {clp_t!r}"])
    from glint.dataflow import matmul
    want = _name(dp) - matmul(_name(mp), clp_t)
    ctx.ob("C01-R1", "residual_nnls/residual-identity", res_t == want, f, r,
           "residual = data - matrix @ clp for the *returned* clp", [f"residual term: {res_t!r}"])


def _lapack_calls(f, name):
    return [c for c in lib.calls(f) if (isinstance(c.func, ast.Attribute) and c.func.attr == name) or norm(c.func) == name]


def r2(ctx) -> None:
    repo = ctx.repo
    f = ctx.fn(VP, "residual_variable_projection")
    fl = lib.flow(f, repo)
    cfg = fl.cfg
    mp, dp = f.params()[0], f.params()[1]
    qrf = _lapack_calls(f, "dgeqrf")
    orm = _lapack_calls(f, "dormqr")
    trs = _lapack_calls(f, "dtrtrs")
    ok_counts = len(qrf) == 1 and len(orm) == 2 and len(trs) == 1
    if not ctx.ob("C01-R2", "vp/lapack-calls", ok_counts, f, f.node, "one dgeqrf, two dormqr, one dtrtrs", construct=f"dgeqrf x{len(qrf)}, dormqr x{len(orm)}, dtrtrs x{len(trs)}"):
        return
    q = qrf[0]
    ctx.ob("C01-R2", "vp/qr-of-matrix", q.args and norm(q.args[0]) == mp and not any(
        k.arg == "overwrite_a" and not (isinstance(k.value, ast.Constant) and not k.value.value) for k in q.keywords), f, lib.stmt_of(q),
        "the QR factorisation is computed from the model matrix, which is not overwritten")
    qterm = fl.term(q, lib.stmt_of(q))
    qr_t = Poly.atom(("item", qterm.key(), (0,)))
    tau_t = Poly.atom(("item", qterm.key(), (1,)))
    orm = sorted(orm, key=lambda c: c.lineno)
    o1, o2 = orm

    def orm_args(c):
        a = c.args
        return (lib.const_str(a[0]), lib.const_str(a[1]), fl.term(a[2], lib.stmt_of(c)), fl.term(a[3], lib.stmt_of(c)), a[4]) if len(a) >= 5 else None

    a1, a2 = orm_args(o1), orm_args(o2)
    ok1 = a1 is not None and a1[0] == "L" and a1[1] == "T" and a1[2] == qr_t and a1[3] == tau_t and norm(a1[4]) == dp
    ctx.ob("C01-R2", "vp/apply-Qt-to-data", ok1, f, lib.stmt_of(o1), "first dormqr: side 'L', trans 'T', the qr/tau of the factorisation, applied to the data (Q^T y)")
    ow = kwarg(o1, "overwrite_c")
    ctx.ob("C01-R2", "vp/data-not-overwritten", ow is None or (isinstance(ow, ast.Constant) and not ow.value), f, lib.stmt_of(o1),
           "the data vector handed in by the provider must not be overwritten")
    t_def = lib.stmt_of(o1)
    tvar = None
    if isinstance(t_def, ast.Assign) and isinstance(t_def.targets[0], ast.Tuple) and isinstance(t_def.targets[0].elts[0], ast.Name):
        tvar = t_def.targets[0].elts[0].id
    elif isinstance(t_def, ast.Assign) and isinstance(t_def.targets[0], ast.Name):
        tvar = None
    if not ctx.ob("C01-R2", "vp/Qty-bound", tvar is not None, f, t_def, "Q^T y (first result of dormqr) is bound to a variable"):
        return
    # zeroing
    zero_stmts = []
    zero_ok = False
    n_term = Poly.atom(("sub", Poly.atom(("attr", _name(mp).key(), "shape")).key(), Poly.const(1).key()))
    for t, s in lib.stores(f):
        if isinstance(t, ast.Subscript) and isinstance(t.value, ast.Name) and t.value.id == tvar and isinstance(s, ast.Assign) \
                and isinstance(s.value, ast.Constant) and s.value.value == 0:
            zero_stmts.append(s)
            if isinstance(t.slice, ast.Slice):
                lo_ok = t.slice.lower is None or (isinstance(t.slice.lower, ast.Constant) and t.slice.lower.value == 0)
                up = fl.term(t.slice.upper, s) if t.slice.upper is not None else None
                zero_ok = lo_ok and up == n_term and t.slice.step is None
            else:
                it = fl.term(t.slice, s)
                a = it.single_atom()
                # loop variable of range(matrix.shape[1])
                zero_ok = bool(a and a[0] == "pos_axis" and a[1] == _name(mp).key() and a[2] == Poly.const(1).key()) or \
                    bool(a and a[0] == "rangevar" and a[1] == (n_term.key(),))
    ctx.ob("C01-R2", "vp/zero-first-n", len(zero_stmts) == 1 and zero_ok, f, zero_stmts[0] if zero_stmts else f.node,
           "exactly the first n = matrix.shape[1] entries of Q^T y are set to zero (the component inside the column space)",
           construct=lib.short(zero_stmts[0], 60) if zero_stmts else "def")
    s_trs = lib.stmt_of(trs[0])
    ta = trs[0].args
    ok_t = len(ta) >= 2 and fl.term(ta[0], s_trs) == qr_t and isinstance(ta[1], ast.Name) and ta[1].id == tvar
    ctx.ob("C01-R2", "vp/back-substitution", ok_t, f, s_trs, "clp solves R clp = (Q^T y) with the R of the same factorisation")
    if zero_stmts:
        z = zero_stmts[0]
        zl = next((a for a in lib.ancestors(z, f.node) if isinstance(a, ast.For)), z)
        ctx.ob("C01-R2", "vp/clp-read-before-zeroing", cfg.dominates(s_trs, zl) and not cfg.exists_path(zl, s_trs), f, s_trs,
               "the back substitution reads Q^T y before its first n entries are zeroed")
        ctx.ob("C01-R2", "vp/zeroing-before-residual", cfg.dominates(zl, lib.stmt_of(o2)), f, lib.stmt_of(o2),
               "the zeroing dominates the second dormqr")
    ok2 = a2 is not None and a2[0] == "L" and a2[1] == "N" and a2[2] == qr_t and a2[3] == tau_t and isinstance(a2[4], ast.Name) and a2[4].id == tvar
    ctx.ob("C01-R2", "vp/apply-Q-to-zeroed", ok2, f, lib.stmt_of(o2), "second dormqr: side 'L', trans 'N', same qr/tau, applied to the zeroed vector (residual = Q [0; Q2^T y])")
    rets = lib.nodes(f, ast.Return)
    r = rets[0] if rets else None
    okr = False
    if r is not None and isinstance(r.value, ast.Tuple) and len(r.value.elts) == 2:
        c0, r0 = r.value.elts
        ct = fl.term(c0, r)
        rt = fl.term(r0, r)
        trs_t = fl.term(trs[0], s_trs)
        clp_full = Poly.atom(("item", trs_t.key(), (0,)))
        want_c = Poly.atom(("sub", clp_full.key(), ("slice", None, n_term.key(), None)))
        o2_t = fl.term(o2, lib.stmt_of(o2))
        want_r = Poly.atom(("item", o2_t.key(), (0,)))
        okr = ct == want_c and rt == want_r
    ctx.ob("C01-R2", "vp/returns-clp-and-residual", okr, f, r or f.node, "returns (clp[:n], residual) - the n coefficients of the columns and the projected residual")


def r3(ctx) -> None:
    repo = ctx.repo
    mi = repo.module(EST)
    table = mi.assigns.get("SUPPORTED_RESIUDAL_FUNCTIONS")
    ok_t = isinstance(table, ast.Dict)
    if not ctx.ob("C01-R3", "dispatch/table", ok_t, None, table or mi.tree, "the dispatch table is a dict literal", construct="SUPPORTED_RESIUDAL_FUNCTIONS = {...}"):
        return
    entries = {lib.const_str(k): repo.resolve_expr(mi, v) for k, v in zip(table.keys, table.values)}
    want = {
        "variable_projection": "glotaran.optimization.variable_projection.residual_variable_projection",
        "non_negative_least_squares": "glotaran.optimization.nnls.residual_nnls",
    }
    ctx.ob("C01-R3", "dispatch/maps-to-kernels", entries == want, None, table, "each option maps to its kernel", construct=norm(table))
    for cls_name in ("DatasetGroupModel", "DatasetGroup"):
        ci = repo.cls(DSG, cls_name)
        ann = ci.annotations.get("residual_function")
        opts = set()
        if ann is not None:
            for n in ast.walk(ann):
                if isinstance(n, ast.Constant) and isinstance(n.value, str):
                    opts.add(n.value)
        ctx.ob("C01-R3", f"dispatch/options-of-{cls_name}", opts == set(entries), None, ann or ci.node,
               "the Literal options of residual_function are exactly the keys of the dispatch table",
               construct=f"{cls_name}.residual_function: {norm(ann) if ann is not None else '?'}")
    dflt = repo.cls(DSG, "DatasetGroupModel").class_assigns.get("residual_function")
    ctx.ob("C01-R3", "dispatch/default-option", dflt is not None and lib.const_str(dflt) == "variable_projection", None, dflt or table,
           "the default residual function is variable projection", construct=f"residual_function = {norm(dflt) if dflt is not None else '?'}")
    init = ctx.fn(EST, "EstimationProvider.__init__")
    st = lib.attr_stores(init, "self._residual_function")
    ok = len(st) == 1 and norm(st[0][1].value) == f"SUPPORTED_RESIUDAL_FUNCTIONS[{init.params()[1]}.residual_function]"
    ctx.ob("C01-R3", "dispatch/selected-by-group-option", ok, init, st[0][1] if st else init.node, "the kernel is selected by the dataset group's residual_function")
    cr = ctx.fn(EST, "EstimationProvider.calculate_residual")
    rets = lib.nodes(cr, ast.Return)
    p = cr.params()
    ok = len(rets) == 1 and norm(rets[0].value) == f"self._residual_function({p[1]}, {p[2]})"
    ctx.ob("C01-R3", "dispatch/forwards-matrix-data", ok, cr, rets[0] if rets else cr.node, "calculate_residual forwards (matrix, data) unchanged and in order")
    for rel, nm in ((VP, "residual_variable_projection"), (NN, "residual_nnls")):
        f = ctx.fn(rel, nm)
        ctx.ob("C01-R3", f"dispatch/signature:{nm}", len(f.params()) == 2, f, f.node, "kernels take (matrix, data)", construct=f"def {nm}({', '.join(f.params())})")
    # get_model attribute propagation: DatasetGroup gets the model's option
    gg = ctx.fn("glotaran/model/model.py", "Model.get_dataset_groups")
    ok = "residual_function=group_model.residual_function" in norm(gg.node)
    ctx.ob("C01-R3", "dispatch/option-reaches-group", ok, gg, gg.node, "the dataset group carries the option of its group model", construct="DatasetGroup(residual_function=group_model.residual_function, ...)")


def r3_sites(ctx) -> None:
    """Every linear sub-problem of the package is solved through the dispatcher."""
    repo = ctx.repo
    kernels = {"glotaran.optimization.variable_projection.residual_variable_projection", "glotaran.optimization.nnls.residual_nnls"}
    n_direct = 0
    for fi in repo.functions.values():
        if not fi.rel.startswith(("glotaran/optimization/", "glotaran/simulation/", "glotaran/builtin/", "glotaran/project/", "glotaran/model/")):
            continue
        for c in lib.calls(fi, nested=True):
            q = lib.resolved(repo, fi, c.func) or ""
            if q in kernels:
                n_direct += 1
                ctx.ob("C01-R3", f"{fi.short}/no-direct-kernel-call", False, fi, c,
                       "a kernel called directly ignores the group's residual_function option (e.g. NNLS requested, unconstrained solution returned); "
                       "kernels are reached only through EstimationProvider.calculate_residual", construct=lib.short(c, 100))
            if isinstance(c.func, ast.Attribute) and c.func.attr == "_residual_function" and fi.short != "EstimationProvider.calculate_residual":
                ctx.ob("C01-R3", f"{fi.short}/selected-kernel-called-only-by-dispatcher", False, fi, c,
                       "the selected kernel is invoked only by calculate_residual", construct=lib.short(c, 100))
    ctx.ob("C01-R3", "package/no-direct-kernel-call", n_direct == 0, None, repo.module(EST).tree,
           "no function outside the dispatch table calls residual_variable_projection / residual_nnls", construct=f"{n_direct} direct calls")
    # each estimation site solves through the dispatcher and stores (clp, residual) of that call
    sites = []
    for fi in repo.functions.values():
        if fi.rel != EST:
            continue
        for c in lib.method_calls(fi, "calculate_residual"):
            if lib.chain_text(c.func.value) == "self":
                sites.append((fi, c))
    ctx.sites("C01-R3", "linear sub-problems solved through calculate_residual", len(sites), 3)
    est_fns = {"EstimationProviderUnlinked.calculate_full_model_estimation", "EstimationProviderUnlinked.calculate_estimation", "EstimationProviderLinked.estimate"}
    have = {fi.short for fi, _ in sites}
    for nm in sorted(est_fns):
        f = ctx.fn(EST, nm)
        ctx.ob("C01-R3", f"{nm}/solves-through-dispatcher", nm in have, f, f.node,
               "this estimation path obtains clps and residual from self.calculate_residual(matrix, data)", construct="self.calculate_residual(...)")
    for fi, c in sites:
        st = lib.stmt_of(c)
        ok = isinstance(st, ast.Assign) and isinstance(st.targets[0], ast.Tuple) and len(st.targets[0].elts) == 2 and len(c.args) == 2
        ctx.ob("C01-R3", f"{fi.short}/stores-clp-and-residual-of-the-call", ok, fi, st,
               "(clps, residual) are taken together from one call for one (matrix, data) pair", construct=lib.short(st, 110))


def r4(ctx) -> None:
    """The (matrix, data) pair given to the kernel is the weighted pair of one weight: preparation pipeline (shared with C02-R2)."""
    from glint.rules import c02

    c02.r2(ctx, rule="C01-R4")
    from glint.rules.c10 import r3 as ownership

    ownership(ctx, rule="C01-R4", scope=("glotaran/optimization/matrix_provider.py", "glotaran/optimization/data_provider.py",
                                         "glotaran/optimization/estimation_provider.py"), floors=False)


def check(ctx) -> None:
    for g in check.groups:
        g(ctx)


check.groups = [r1, r2, r3, r3_sites, r4]
