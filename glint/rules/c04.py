"""C04 - decay matrices are the solution of the compartmental rate equations."""

from __future__ import annotations

import ast
from fractions import Fraction

from glint import lib
from glint.dataflow import matmul
from glint.dataflow import transpose
from glint.index import norm
from glint.terms import Poly

KM = "glotaran/builtin/megacomplexes/decay/k_matrix.py"
DUT = "glotaran/builtin/megacomplexes/decay/util.py"
DM = "glotaran/builtin/megacomplexes/decay/decay_megacomplex.py"
DP = "glotaran/builtin/megacomplexes/decay/decay_parallel_megacomplex.py"
DS = "glotaran/builtin/megacomplexes/decay/decay_sequential_megacomplex.py"
IC = "glotaran/builtin/megacomplexes/decay/initial_concentration.py"

DOC = {
    "explanation": (
        "Static decision of: population conservation in the assembly of the full K-matrix "
        "(every off-diagonal +p at [to, from] is paired with -p at [from, from]); the guard of "
        "the closed-form unibranched path pinning where the population starts; rates and "
        "A-matrix being selected by the same guard; one compartment order feeding rates, "
        "A-matrix and the returned labels; the K-matrices of the sequential and parallel "
        "megacomplexes; and formula conformance of rates, lifetimes, the eigen-decomposition "
        "A-matrix, DAS = SAS.A^T, the exponential columns and the normalisation of the "
        "initial concentrations."
    ),
    "rules": {
        "C04-R1": "KMatrix.full: key (to, from): diagonal keys subtract p at [to,to]; off-diagonal keys add p at [to,from] and subtract p at [from,from]; indices are positions of to/from in the given compartment order; starts from zeros",
        "C04-R2": "is_sequential contains a position sensitive test of the initial concentration (population starts in the first compartment), not only its sum; rates() and a_matrix() are selected by the same is_sequential(compartments, initial_concentration) test",
        "C04-R3": "compartments used for rates, A-matrix and the returned clp labels come from the same get_compartments(dataset_model); the initial concentration is filtered to the same compartments",
        "C04-R4": "parallel: K[(c_i, c_i)] = rate_i; sequential: K[(c_{i+1}, c_i)] = rate_i for i < n-1 and K[(c_{n-1}, c_{n-1})] = rate_{n-1}; sequential starts in compartment 0; parallel starts uniformly (normalised)",
        "C04-R5": "rates = -eigenvalues (or -diag(full) on the sequential path); eigen uses the left eigenvectors of full(compartments).T; A = (V diag(V^-1 j)).T; lifetimes = 1/rates; DAS = SAS @ A.T; matrix = exp(-k t) columns @ A; normalised j = j / sum(j[not excluded])",
    },
    "declined": ["agreement with expm(K t) j for all topologies (numeric; eigen solver trusted)", "the product formula of a_matrix_sequential beyond its structural guard"],
    "assumptions": ["scipy.linalg.eig / solve", "K-matrices with real, distinct eigenvalues (property's quantifier)"],
}


def r1(ctx) -> None:
    repo = ctx.repo
    f = ctx.fn(KM, "KMatrix.full")
    fl = lib.flow(f, repo)
    cp = f.params()[1]
    loop = next(iter(lib.nodes(f, ast.For)), None)
    ok = loop is not None and norm(loop.iter) == "self.matrix.items()" and isinstance(loop.target, ast.Tuple) and isinstance(loop.target.elts[0], ast.Tuple)
    if not ctx.ob("C04-R1", "full/loop-over-entries", ok, f, loop or f.node, "every (to, from) -> parameter entry is visited"):
        return
    to_v, fr_v = norm(loop.target.elts[0].elts[0]), norm(loop.target.elts[0].elts[1])
    par = norm(loop.target.elts[1])
    idx = {}
    for d in fl.defs_of("to_idx") + fl.defs_of("fr_idx"):
        if d.kind == "assign":
            idx[d.var] = norm(d.value)
    # find the two index variables by their definition
    to_i = next((k for k, v in idx.items() if v == f"{cp}.index({to_v})"), None)
    fr_i = next((k for k, v in idx.items() if v == f"{cp}.index({fr_v})"), None)
    ctx.ob("C04-R1", "full/positions-in-given-order", to_i is not None and fr_i is not None, f, loop,
           f"row/column are the positions of `{to_v}` / `{fr_v}` in the compartment order handed in", construct=str(idx))
    if to_i is None or fr_i is None:
        return
    augs = [(t, s) for t, s in lib.stores(loop) if isinstance(s, ast.AugAssign) and isinstance(t, ast.Subscript)]
    diag_if = next((n for n in lib.nodes(loop, ast.If) if norm(n.test).replace(" ", "") in (f"{to_i}=={fr_i}", f"{fr_i}=={to_i}")), None)
    ok = diag_if is not None
    ctx.ob("C04-R1", "full/diagonal-test", ok, f, diag_if or loop, "diagonal entries (loss channels) are distinguished from transfers")
    if not ok:
        return
    got = {"diag": [], "off": []}
    for t, s in augs:
        br = lib.field_of(s, diag_if)
        where = "diag" if br == "body" else "off"
        ix = [norm(i) for i in (t.slice.elts if isinstance(t.slice, ast.Tuple) else [t.slice])]
        sign = "+" if isinstance(s.op, ast.Add) else ("-" if isinstance(s.op, ast.Sub) else "?")
        got[where].append((tuple(ix), sign, norm(s.value)))
    want_diag = {((to_i, fr_i), "-", par), ((to_i, to_i), "-", par), ((fr_i, fr_i), "-", par)}
    ok_d = len(got["diag"]) == 1 and got["diag"][0] in want_diag
    ctx.ob("C04-R1", "full/diagonal-entry-is-loss", ok_d, f, diag_if, "a diagonal key (c, c) subtracts its rate at [c, c]", construct=str(got["diag"]))
    ok_o = set(got["off"]) == {((to_i, fr_i), "+", par), ((fr_i, fr_i), "-", par)}
    ctx.ob("C04-R1", "full/transfer-conserves-population", ok_o, f, diag_if,
           "a transfer (to, from) adds the rate at [to, from] and subtracts it at [from, from]: every column of a loss-free K sums to zero",
           construct=str(got["off"]))
    init = [d for d in fl.defs_of("mat") if d.kind == "assign"]
    ctx.ob("C04-R1", "full/zero-initialised", len(init) == 1 and isinstance(init[0].value, ast.Call) and norm(init[0].value.func) == "np.zeros" and
           norm(init[0].value.args[0]).replace(" ", "") == "(size,size)", f, init[0].stmt if init else f.node, "K starts as a square zero matrix")
    rets = lib.nodes(f, ast.Return)
    ctx.ob("C04-R1", "full/returns-matrix", len(rets) == 1 and norm(rets[0].value) == "mat", f, rets[0] if rets else f.node, "the assembled matrix is returned")
    rd = ctx.fn(KM, "KMatrix.reduced")
    txt = norm(rd.node)
    ok = f"i = {rd.params()[1]}.index(index[0])" in txt and f"j = {rd.params()[1]}.index(index[1])" in txt and "array[i, j] = self.matrix[index]" in txt
    ctx.ob("C04-R1", "reduced/row-to-column-from", ok, rd, rd.node, "reduced K: entry (to, from) sits at [to, from]", construct="array[i, j] = self.matrix[index]")


def _bool_eval(e, atoms, val):
    """Truth value of a boolean expression over recognised atoms under the assignment ``val``."""
    if isinstance(e, ast.BoolOp):
        vs = [_bool_eval(x, atoms, val) for x in e.values]
        return all(vs) if isinstance(e.op, ast.And) else any(vs)
    if isinstance(e, ast.UnaryOp) and isinstance(e.op, ast.Not):
        return not _bool_eval(e.operand, atoms, val)
    a = atoms(e)
    if a is None:
        raise ValueError(norm(e))
    name, positive = a
    return val[name] if positive else not val[name]


def chain_shape(ctx, f):
    """is_sequential's structural test, as a boolean formula per compartment position i over the atoms
    A = 'column i of the reduced K has exactly one entry', B = 'K[i, i-1] != 0', Z = 'i == 0',
    L = 'i is the last position', D = 'K[i, i] != 0'.
    The conjunction of all quantified conditions must be equivalent to  A and (Z or B) and (not L or D):
    every compartment but the last hands its population to the next one (its single entry is the
    sub-diagonal one) and the last one decays (its single entry is the diagonal one, not a back transfer)."""
    fl = lib.flow(f, ctx.repo)
    mats = [d for d in fl.defs_of("matrix") if d.kind == "assign"]
    mvar = None
    for v in {n.id for n in ast.walk(f.node) if isinstance(n, ast.Name)}:
        ds = [d for d in fl.defs_of(v) if d.kind == "assign" and d.value is not None]
        if len(ds) == 1 and norm(ds[0].value) == f"self.reduced({f.params()[1]})":
            mvar = v
    if mvar is None:
        return False, "no variable holds self.reduced(compartments)", None
    comp_p = f.params()[1]
    full_ranges = {f"range({mvar}.shape[1])", f"range({mvar}.shape[0])", f"range(len({mvar}))", f"range(len({comp_p}))"}
    from1 = {r.replace("range(", "range(1, ") for r in full_ranges}
    conjuncts = []  # (body expr positive-for-sequential?, polarity, generator var, starts_at_one, node)

    def quantified(e, positive, node):
        # all(gen) -> body must hold; not any(gen) -> not body must hold
        if isinstance(e, ast.UnaryOp) and isinstance(e.op, ast.Not):
            return quantified(e.operand, not positive, node)
        if isinstance(e, ast.BoolOp) and ((isinstance(e.op, ast.And) and positive) or (isinstance(e.op, ast.Or) and not positive)):
            return all(quantified(x, positive, node) for x in e.values)
        if isinstance(e, ast.Compare) and len(e.ops) == 1 and norm(e.left) in (f"{mvar}[-1, -1]", f"{mvar}[-1][-1]") \
                and isinstance(e.comparators[0], ast.Constant) and e.comparators[0].value == 0 and isinstance(e.ops[0], (ast.Eq, ast.NotEq)):
            if isinstance(e.ops[0], ast.NotEq) != positive:
                return False
            plain_last.append(e)
            return True
        if isinstance(e, ast.Call) and isinstance(e.func, ast.Name) and e.func.id in ("all", "any") and len(e.args) == 1 \
                and isinstance(e.args[0], (ast.GeneratorExp, ast.ListComp)) and len(e.args[0].generators) == 1 and not e.args[0].generators[0].ifs:
            g = e.args[0]
            it = norm(g.generators[0].iter)
            if not isinstance(g.generators[0].target, ast.Name) or it not in full_ranges | from1:
                return False
            if (e.func.id == "all") != positive:
                return False  # `not all(...)` / `any(...)` as a requirement is not a per-position condition
            conjuncts.append((g.elt, e.func.id == "all", g.generators[0].target.id, it in from1, node))
            return True
        return False

    last_forms = {f"{mvar}.shape[1] - 1", f"{mvar}.shape[0] - 1", f"len({mvar}) - 1", f"len({comp_p}) - 1"}
    for v in {n.id for n in ast.walk(f.node) if isinstance(n, ast.Name)}:
        ds = [d for d in fl.defs_of(v) if d.kind == "assign" and d.value is not None]
        if len(ds) == 1 and norm(ds[0].value) in last_forms:
            last_forms = last_forms | {v}
    plain_last = []  # conjuncts outside the quantifier: K[-1, -1] != 0
    where = None
    for n in lib.nodes(f, ast.If):
        if n.body and isinstance(n.body[-1], ast.Return) and isinstance(n.body[-1].value, ast.Constant) and n.body[-1].value.value is False \
                and not n.orelse and mvar in lib.names_in(n.test):
            if not quantified(n.test, False, n):
                return False, f"unrecognised early refusal `{lib.short(n.test, 100)}`", n
    rets = [r for r in lib.nodes(f, ast.Return) if not isinstance(r.value, ast.Constant)]
    if len(rets) != 1:
        return False, "expected one non-constant return", rets[0] if rets else None
    where = rets[0]
    if not quantified(fl.inline(rets[0].value, rets[0]), True, rets[0]):
        return False, "the returned value is not a conjunction of all(...)/not any(...) over the compartment positions", where

    def atoms_for(ivar):
        count_forms = {f"np.nonzero({mvar}[:, {ivar}])[0].size", f"np.count_nonzero({mvar}[:, {ivar}])", f"len(np.nonzero({mvar}[:, {ivar}])[0])",
                       f"np.nonzero({mvar}[:, {ivar}])[0].shape[0]"}
        sub_forms = {f"{mvar}[{ivar}, {ivar} - 1]", f"{mvar}[{ivar}][{ivar} - 1]"}
        diag_forms = {f"{mvar}[{ivar}, {ivar}]", f"{mvar}[{ivar}][{ivar}]"}

        def atoms(e):
            if not (isinstance(e, ast.Compare) and len(e.ops) == 1):
                return None
            l, r, op = norm(e.left), e.comparators[0], e.ops[0]
            rv = r.value if isinstance(r, ast.Constant) else None
            if l in count_forms and rv == 1 and isinstance(op, (ast.Eq, ast.NotEq)):
                return "A", isinstance(op, ast.Eq)
            if l in sub_forms and rv == 0 and isinstance(op, (ast.Eq, ast.NotEq)):
                return "B", isinstance(op, ast.NotEq)
            if l in diag_forms and rv == 0 and isinstance(op, (ast.Eq, ast.NotEq)):
                return "D", isinstance(op, ast.NotEq)
            if l == ivar and norm(r) in last_forms and isinstance(op, (ast.Eq, ast.NotEq)):
                return "L", isinstance(op, ast.Eq)
            if l == ivar and rv == 0 and isinstance(op, (ast.Eq, ast.NotEq)):
                return "Z", isinstance(op, ast.Eq)
            if l == ivar and rv == 0 and isinstance(op, ast.Gt):
                return "Z", False
            if l == ivar and rv == 1 and isinstance(op, (ast.Lt, ast.GtE)):
                return "Z", isinstance(op, ast.Lt)
            return None
        return atoms

    import itertools
    try:
        for a_, b_, z_, l_, d_ in itertools.product((False, True), repeat=5):
            val = {"A": a_, "B": b_, "Z": z_, "L": l_, "D": d_}
            got = (not l_ or d_) if plain_last else True
            for body, is_all, ivar, starts1, _ in conjuncts:
                v = _bool_eval(body, atoms_for(ivar), val)
                v = v if is_all else not v
                if starts1:
                    v = v or z_  # position 0 is not quantified over
                got = got and v
            want = a_ and (z_ or b_) and (not l_ or d_)
            if got != want:
                return False, (f"for A={a_} (one entry in column i), B={b_} (K[i,i-1] != 0), Z={z_} (i == 0), L={l_} (i is last), "
                               f"D={d_} (K[i,i] != 0) the test accepts={got}, required={want}"), where
    except ValueError as e:
        return False, f"condition `{e}` is neither a column count, the sub-diagonal entry K[i, i-1] nor a test of the position", where
    if not conjuncts:
        return False, "no per-position condition found", where
    return True, "", where


def r2(ctx, rule: str = "C04-R2") -> None:
    repo = ctx.repo
    f = ctx.fn(KM, "KMatrix.is_sequential")
    icp = f.params()[2]
    early = [n for n in lib.nodes(f, ast.If) if n.body and isinstance(n.body[-1], ast.Return) and isinstance(n.body[-1].value, ast.Constant)
             and n.body[-1].value.value is False]
    pos_sensitive = False
    sums = False
    for n in early:
        for sub in ast.walk(n.test):
            if isinstance(sub, ast.Subscript) and norm(sub.value) == icp and isinstance(sub.slice, ast.Constant) and sub.slice.value == 0:
                par = sub._parent
                if isinstance(par, ast.Compare) and isinstance(par.ops[0], (ast.NotEq,)) and isinstance(par.comparators[0], ast.Constant) and par.comparators[0].value == 1:
                    pos_sensitive = True
            if isinstance(sub, ast.Call) and norm(sub.func) in ("np.sum", "sum") and sub.args and norm(sub.args[0]) == icp:
                sums = True
    ctx.ob(rule, "is_sequential/start-compartment-pinned", pos_sensitive, f, early[0] if early else f.node,
           "the closed-form A-matrix ignores the initial concentration and assumes all population starts in the first compartment; "
           "the guard must test initial_concentration[0] (a sum or any other permutation invariant reducer accepts [0,1,0])",
           construct=lib.short(early[0], 110) if early else "def is_sequential")
    ctx.ob(rule, "is_sequential/total-population-one", sums, f, early[0] if early else f.node, "the total population must be 1")
    ok, why, where = chain_shape(ctx, f)
    ctx.ob(rule, "is_sequential/chain-shape", ok, f, where or f.node,
           "unibranched *in declaration order*: every column of the reduced K has exactly one entry, compartment i (i >= 1) is fed by "
           "compartment i-1 and the last compartment's entry is its own decay (not a transfer back into the chain); the closed form and `rates` read the chain off the compartment order, so a chain declared out of order "
           "must take the general path", [why] if why else None, construct=lib.short(where, 140) if where is not None else "def is_sequential")
    am = ctx.fn(KM, "KMatrix.a_matrix")
    rets = lib.nodes(am, ast.Return)
    p = am.params()
    ok = len(rets) == 1 and isinstance(rets[0].value, ast.IfExp) and norm(rets[0].value.test) == f"self.is_sequential({p[1]}, {p[2]})" and \
        norm(rets[0].value.body) == f"self.a_matrix_sequential({p[1]})" and norm(rets[0].value.orelse) == f"self.a_matrix_general({p[1]}, {p[2]})"
    fam = lib.flow(am, repo)
    if rets:
        unmod = all(all(d.kind == "param" for d in fam.reaching(x, rets[0])) for x in (p[1], p[2]))
        ctx.ob(rule, "a_matrix/arguments-unmodified", unmod, am, rets[0],
               "the dispatcher hands on the compartments and the initial concentration it was given: re-normalising j here rescales the "
               "A-matrix whenever j is deliberately not normalised (exclude_from_normalize, an initial concentration shared by several megacomplexes)",
               construct="; ".join(lib.short(d.stmt, 70) for x in (p[1], p[2]) for d in fam.reaching(x, rets[0]) if d.kind != "param") or "parameters")
    ctx.ob(rule, "a_matrix/selected-by-guard", ok, am, rets[0] if rets else am.node,
           "the closed form is used iff is_sequential(compartments, initial_concentration), the general eigen path otherwise")
    rt = ctx.fn(KM, "KMatrix.rates")
    g = next((n for n in lib.nodes(rt, ast.If)), None)
    p = rt.params()
    ok = g is not None and norm(g.test) == f"self.is_sequential({p[1]}, {p[2]})"
    frt = lib.flow(rt, repo)
    if g is not None:
        unmod = all(all(d.kind == "param" for d in frt.reaching(x, g)) for x in (p[1], p[2]))
        ctx.ob(rule, "rates/arguments-unmodified", unmod, rt, g, "rates are computed for the compartments and initial concentration given")
    ctx.ob(rule, "rates/same-guard", ok, rt, g or rt.node, "the rates are ordered like the A-matrix: selected by the same guard with the same arguments")


def r3(ctx, rule: str = "C04-R3") -> None:
    repo = ctx.repo
    f = ctx.fn(DUT, "calculate_matrix")
    fl = lib.flow(f, repo)
    mp, dp = f.params()[0], f.params()[1]
    defs = {d.var: norm(d.value) for v in ("compartments", "initial_concentration", "k_matrix", "rates") for d in fl.defs_of(v) if d.kind == "assign"}
    ok = defs.get("compartments") == f"{mp}.get_compartments({dp})" and defs.get("initial_concentration") == f"{mp}.get_initial_concentration({dp})" and \
        defs.get("k_matrix") == f"{mp}.get_k_matrix()" and defs.get("rates") == "k_matrix.rates(compartments, initial_concentration)"
    ctx.ob(rule, "calculate_matrix/one-source", ok, f, f.node, "compartments, initial concentration, K-matrix and rates of one megacomplex and dataset",
           construct="; ".join(f"{k} = {v}" for k, v in defs.items()))
    rets = lib.nodes(f, ast.Return)
    ctx.ob(rule, "calculate_matrix/labels-are-compartments", len(rets) == 1 and norm(rets[0].value) == "(compartments, matrix)" and
           all(d.kind == "assign" for d in fl.reaching("compartments", rets[0])) and len(fl.reaching("compartments", rets[0])) == 1, f, rets[0] if rets else f.node,
           "the clp labels returned are exactly the compartment order the rates and the A-matrix were computed for")
    mm = [d for d in fl.defs_of("matrix") if d.kind == "assign" and isinstance(d.value, ast.BinOp) and isinstance(d.value.op, ast.MatMult)]
    ok = len(mm) == 1 and norm(mm[0].value.left) == "matrix" and norm(mm[0].value.right) == f"{mp}.get_a_matrix({dp})"
    ctx.ob("C04-R5" if rule == "C04-R3" else rule, "calculate_matrix/concentration-is-exponentials-times-A", ok, f, mm[0].stmt if mm else f.node,
           "compartment profiles = (exponential columns, one per rate) @ A-matrix")
    shp = [d for d in fl.defs_of("matrix_shape") if d.kind == "assign"]
    ctx.ob(rule, "calculate_matrix/one-column-per-rate", bool(shp) and norm(shp[0].value).count("rates.size") == 2, f, shp[0].stmt if shp else f.node,
           "the exponential matrix has one column per rate")
    for rel, cls in ((DM, "DecayMegacomplex"),):
        ga = ctx.fn(rel, f"{cls}.get_a_matrix")
        rets = lib.nodes(ga, ast.Return)
        ok = len(rets) == 1 and norm(rets[0].value).replace(" ", "").replace("\n", "") == \
            "self.get_k_matrix().a_matrix(self.get_compartments(dataset_model),self.get_initial_concentration(dataset_model))"
        ctx.ob(rule, f"{cls}.get_a_matrix/same-order", ok, ga, rets[0] if rets else ga.node,
               "the A-matrix is computed for get_compartments(dataset_model) and the matching initial concentration")
        gi = ctx.fn(rel, f"{cls}.get_initial_concentration")
        txt = norm(gi.node)
        ok = "compartments = self.get_compartments(dataset_model)" in txt and "compartment in compartments for compartment in dataset_model.initial_concentration.compartments" in txt \
            and "return initial_concentration[idx]" in txt
        ctx.ob(rule, f"{cls}.get_initial_concentration/filtered-like-compartments", ok, gi, gi.node,
               "the initial concentration is restricted to the compartments of this megacomplex, in the order of the initial concentration item",
               construct="idx = [c in compartments for c in initial_concentration.compartments]; return j[idx]")
        gc = ctx.fn(rel, f"{cls}.get_compartments")
        txt = norm(gc.node)
        ok = "for compartment in dataset_model.initial_concentration.compartments if compartment in self.get_k_matrix().involved_compartments()" in txt
        ctx.ob(rule, f"{cls}.get_compartments/order-of-initial-concentration", ok, gc, gc.node,
               "compartment order = order of the initial concentration item, filtered by the K-matrix",
               construct="[c for c in initial_concentration.compartments if c in k_matrix.involved_compartments()]")
    # several K-matrices of one megacomplex are folded into one: the accumulator must be carried
    gk = ctx.fn(DM, "DecayMegacomplex.get_k_matrix")
    loop = next((n for n in lib.nodes(gk, ast.For) if norm(n.iter) == "self.k_matrix"), None)
    okf = False
    trace = []
    if loop is not None and isinstance(loop.target, ast.Name):
        lv = loop.target.id
        combs = [c for c in lib.method_calls(loop, "combine")]
        rets = lib.nodes(gk, ast.Return)
        if len(combs) == 1 and rets:
            c = combs[0]
            st_ = lib.stmt_of(c)
            acc = norm(st_.targets[0]) if isinstance(st_, ast.Assign) else None
            okf = acc is not None and norm(c.func.value) == acc and len(c.args) == 1 and norm(c.args[0]) == lv and all(norm(r.value) == acc for r in rets)
            inits = [s_ for t_, s_ in lib.stores(loop) if norm(t_) == acc and isinstance(s_, ast.Assign) and norm(s_.value) == lv]
            okf = okf and len(inits) == 1
            trace = [f"fold: {lib.short(st_, 80)}", f"accumulator: {acc}"]
    ctx.ob(rule, "DecayMegacomplex.get_k_matrix/fold-carries-accumulator", okf, gk, loop or gk.node,
           "all K-matrices of the megacomplex are combined: acc = first; acc = acc.combine(next) for each further one (a fold that "
           "restarts from the first matrix loses every matrix but the first and the last)", trace)
    cb = ctx.fn(KM, "KMatrix.combine")
    txt = norm(cb.node)
    okc = "combined_matrix = {entry: self.matrix[entry] for entry in self.matrix}" in txt and "for entry in k_matrix.matrix" in txt and \
        "combined_matrix[entry] = k_matrix.matrix[entry]" in txt and "matrix=combined_matrix" in txt
    ctx.ob(rule, "KMatrix.combine/union-of-entries", okc, cb, cb.node, "the combined K-matrix holds the entries of both (later ones override)",
           construct="combined = dict(self.matrix); combined.update(other.matrix)")
    rd = ctx.fn(DUT, "retrieve_decay_associated_data")
    flr = lib.flow(rd, repo)
    defs = {d.var: norm(d.value) for v in ("species", "matrix", "matrix_reduced", "rates", "a_matrix", "lifetimes", "das") for d in flr.defs_of(v) if d.kind == "assign"}
    ok = defs.get("species") == "megacomplex.get_compartments(dataset_model)" and defs.get("matrix") == "k_matrix.full(species)" and \
        defs.get("matrix_reduced") == "k_matrix.reduced(species)"
    ctx.ob(rule, "retrieve_decay_associated_data/one-order", ok, rd, rd.node, "reported K-matrices, rates and A-matrix use the same compartment order", construct=str({k: defs.get(k) for k in ("species", "matrix", "matrix_reduced")}))


def r4(ctx) -> None:
    repo = ctx.repo
    pk = ctx.fn(DP, "DecayParallelMegacomplex.get_k_matrix")
    comps = lib.nodes(pk, ast.DictComp)
    ok = len(comps) == 1 and norm(comps[0].key).replace(" ", "") == "(self.compartments[i],self.compartments[i])" and norm(comps[0].value) == "self.rates[i]" and \
        norm(comps[0].generators[0].iter) == "range(len(self.compartments))" and not comps[0].generators[0].ifs
    ctx.ob("C04-R4", "parallel/k-matrix", ok, pk, comps[0] if comps else pk.node, "parallel decays: K[(c_i, c_i)] = rate_i for every compartment")
    pi = ctx.fn(DP, "DecayParallelMegacomplex.get_initial_concentration")
    txt = lib.xfn(pi, ctx.repo)
    ok = "np.ones(len(self.compartments), dtype=np.float64)" in txt.replace("(len(self.compartments))", "len(self.compartments)") and "initial_concentration /= initial_concentration.size" in txt
    ctx.ob("C04-R4", "parallel/initial-concentration", ok, pi, pi.node, "parallel decays start with equal population in every compartment (normalised to 1)",
           construct="ones(n) / n when normalized")
    pa = ctx.fn(DP, "DecayParallelMegacomplex.get_a_matrix")
    ok = "a_matrix_general(self.get_compartments(dataset_model), self.get_initial_concentration(dataset_model))" in norm(pa.node).replace("\n", "")
    ctx.ob("C04-R4", "parallel/a-matrix-general", ok, pa, pa.node, "parallel decays always use the general eigen path", construct="self.get_k_matrix().a_matrix_general(...)")
    sk = ctx.fn(DS, "DecaySequentialMegacomplex.get_k_matrix")
    comps = lib.nodes(sk, ast.DictComp)
    ok = len(comps) == 1 and norm(comps[0].key).replace(" ", "") == "(self.compartments[i+1],self.compartments[i])" and norm(comps[0].value) == "self.rates[i]" and \
        norm(comps[0].generators[0].iter).replace(" ", "") == "range(len(self.compartments)-1)"
    ctx.ob("C04-R4", "sequential/chain", ok, sk, comps[0] if comps else sk.node, "sequential: K[(c_{i+1}, c_i)] = rate_i (compartment i feeds i+1) for i < n-1")
    last = [s for t, s in lib.stores(sk) if isinstance(t, ast.Subscript) and norm(t.value) == "k_matrix.matrix"]
    ok = len(last) == 1 and norm(last[0].targets[0].slice).replace(" ", "") == "(self.compartments[-1],self.compartments[-1])" and norm(last[0].value) == "self.rates[-1]"
    ctx.ob("C04-R4", "sequential/last-decays", ok, sk, last[0] if last else sk.node, "the last compartment decays with the last rate")
    si = ctx.fn(DS, "DecaySequentialMegacomplex.get_initial_concentration")
    txt = lib.xfn(si, ctx.repo)
    ok = "np.zeros(len(self.compartments), dtype=np.float64)" in txt.replace("(len(self.compartments))", "len(self.compartments)") and "initial_concentration[0] = 1" in txt
    ctx.ob("C04-R4", "sequential/starts-in-first", ok, si, si.node, "sequential: all population starts in the first compartment", construct="zeros(n); j[0] = 1")
    sa = ctx.fn(DS, "DecaySequentialMegacomplex.get_a_matrix")
    ok = "a_matrix_sequential(self.get_compartments(dataset_model))" in norm(sa.node)
    ctx.ob("C04-R4", "sequential/a-matrix-closed-form", ok, sa, sa.node, "the sequential megacomplex uses the closed form for its own compartment order")
    for rel, cls in ((DP, "DecayParallelMegacomplex"), (DS, "DecaySequentialMegacomplex")):
        gc = ctx.fn(rel, f"{cls}.get_compartments")
        rets = lib.nodes(gc, ast.Return)
        ctx.ob("C04-R4", f"{cls}/compartments-as-declared", len(rets) == 1 and norm(rets[0].value) == "self.compartments", gc, rets[0] if rets else gc.node,
               "compartments in declaration order")
    asq = ctx.fn(KM, "KMatrix.a_matrix_sequential")
    txt = norm(asq.node)
    ok = "matrix = self.full(compartments).T" in txt and "rates = np.diag(matrix)" in txt and "a_matrix[0, 0] = 1.0" in txt and \
        "np.prod([rates[m] for m in range(j)]) / np.prod([rates[m] - rates[i] for m in range(j + 1) if i != m])" in txt
    ctx.ob("C04-R4", "a_matrix_sequential/bateman-coefficients", ok, asq, asq.node,
           "closed form (Bateman): A[i, j] = prod_{m<j} k_m / prod_{m<=j, m!=i} (k_m - k_i) for i <= j, A[0,0] = 1",
           construct="a_matrix[i, j] = prod(rates[:j]) / prod(rates[m] - rates[i], m <= j, m != i)")


def r5(ctx) -> None:
    repo = ctx.repo
    rt = ctx.fn(KM, "KMatrix.rates")
    fl = lib.flow(rt, repo)
    rets = lib.nodes(rt, ast.Return)
    ok_seq = ok_gen = False
    for r in rets:
        t = fl.term(r.value, r)
        a = (-t).single_atom()
        if a and a[0] == "call" and a[1] == "diag":
            ok_seq = "full" in repr(a[2])
        if a and a[0] == "item" and a[2] == (0,) and "eigen" in repr(a[1]):
            ok_gen = True
    ctx.ob("C04-R5", "rates/minus-eigenvalues", ok_gen, rt, rets[-1] if rets else rt.node, "rates = -eigenvalues of the K-matrix")
    ctx.ob("C04-R5", "rates/sequential-minus-diagonal", ok_seq, rt, rets[0] if rets else rt.node, "on the unibranched path rates = -diag(K) in compartment order")
    eg = ctx.fn(KM, "KMatrix.eigen")
    fle = lib.flow(eg, repo)
    txt = norm(eg.node)
    ok = "matrix = self.full(compartments).T" in txt and "eig(matrix, left=True, right=False)" in txt and "return (eigenvalues.real, eigenvectors.real)" in txt
    ctx.ob("C04-R5", "eigen/left-eigenvectors-of-transpose", ok, eg, eg.node, "eigen-decomposition: left eigenvectors of full(compartments).T, real parts",
           construct="eig(self.full(compartments).T, left=True, right=False)")
    ag = ctx.fn(KM, "KMatrix.a_matrix_general")
    fla = lib.flow(ag, repo)
    rets = lib.nodes(ag, ast.Return)
    ok = False
    if rets:
        t = fla.term(rets[0].value, rets[0])
        ev = Poly.atom(("item", fla.term(ast.parse("self.eigen(compartments)", mode="eval").body, rets[0]).key(), (1,)))
        j = Poly.atom(("name", ag.params()[2]))
        gamma = Poly.atom(("call", "glotaran.builtin.megacomplexes.decay.k_matrix.calculate_gamma", (ev.key(), j.key())))
        ok = t == transpose(matmul(ev, gamma))
    ctx.ob("C04-R5", "a_matrix_general/formula", ok, ag, rets[0] if rets else ag.node, "A = (V @ diag(V^-1 j)).T with V the eigenvectors from eigen(compartments)")
    cg = ctx.fn(KM, "calculate_gamma")
    rets = lib.nodes(cg, ast.Return)
    ok = len(rets) == 1 and lib.xnorm(lib.flow(cg, ctx.repo), rets[0].value, rets[0]) == f"np.diag(solve({cg.params()[0]}, {cg.params()[1]}))"
    ctx.ob("C04-R5", "calculate_gamma/formula", ok, cg, rets[0] if rets else cg.node, "gamma = diag(V^-1 j) (solve, not an explicit inverse)")
    rd = ctx.fn(DUT, "retrieve_decay_associated_data")
    flr = lib.flow(rd, repo)
    lt = [d for d in flr.defs_of("lifetimes") if d.kind == "assign"]
    ok = len(lt) == 1 and flr.term(lt[0].value, lt[0].node) == flr.term(ast.Name(id="rates", ctx=ast.Load()), lt[0].node).inverse()
    ctx.ob("C04-R5", "retrieve_decay_associated_data/lifetimes", ok, rd, lt[0].stmt if lt else rd.node, "lifetime = 1 / rate")
    das = [d for d in flr.defs_of("das") if d.kind == "assign" and isinstance(d.value, ast.BinOp)]
    ok = False
    if das:
        v = das[0].value
        ok = isinstance(v.op, ast.MatMult) and norm(v.right) == "a_matrix.T" and ".sel(species=species).values" in norm(v.left) and "species_associated_" in norm(v.left)
        ok = ok and any(d.kind == "assign" and norm(d.value) == "megacomplex.get_a_matrix(dataset_model)" for d in flr.reaching("a_matrix", das[0].node))
    ctx.ob("C04-R5", "retrieve_decay_associated_data/das", ok, rd, das[0].stmt if das else rd.node, "DAS = SAS(selected by species label) @ A.T")
    rts = [d for d in flr.defs_of("rates") if d.kind == "assign"]
    ok = len(rts) == 1 and norm(rts[0].value) == "k_matrix.rates(species, initial_concentration)" and any(
        d.kind == "assign" and norm(d.value) == "megacomplex.get_initial_concentration(dataset_model)" for d in flr.reaching("initial_concentration", rts[0].node))
    ctx.ob("C04-R5", "retrieve_decay_associated_data/rates-like-fit", ok, rd, rts[0].stmt if rts else rd.node,
           "the reported rates are computed with the (normalised) initial concentration used in the fit, so they are ordered like the A-matrix")
    nz = ctx.fn(IC, "InitialConcentration.normalized")
    txt = norm(nz.node)
    ok = "normalized = np.array(self.parameters)" in txt and "idx = [c not in self.exclude_from_normalize for c in self.compartments]" in txt and \
        "normalized[idx] /= np.sum(normalized[idx])" in txt and "return normalized" in txt
    ctx.ob("C04-R5", "InitialConcentration.normalized/formula", ok, nz, nz.node,
           "j[idx] / sum(j[idx]) with idx = compartments not excluded from normalisation; excluded entries unchanged",
           construct="normalized[idx] /= np.sum(normalized[idx])")
    _ = fle, Fraction


def check(ctx) -> None:
    for g in check.groups:
        g(ctx)


check.groups = [r1, r2, r3, r4, r5]
