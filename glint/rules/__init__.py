"""Registry of property checks.  Each module exposes ``check(ctx)`` and ``DOC``."""

from __future__ import annotations

import importlib

RULES: dict = {}
RULE_DOC: dict = {}

for _i in range(1, 21):
    _pid = f"C{_i:02d}"
    try:
        _m = importlib.import_module(f"glint.rules.{_pid.lower()}")
    except ModuleNotFoundError as _e:
        if _e.name != f"glint.rules.{_pid.lower()}":
            raise
        continue
    RULES[_pid] = _m.check
    RULE_DOC[_pid] = getattr(_m, "DOC", {})
