"""Automatic *silent twins*: behaviour preserving rewrites on which every check must stay green.

For every source file consulted by a property's rules two rewritten variants are produced on a
scratch copy (outside /repo and /verif, removed immediately):

* ``reformat``      the file is re-emitted by ``ast.unparse`` (all positions, line breaks, quoting,
                    parenthesisation and comments change; the AST is identical);
* ``rename-locals`` every function-local variable (assigned in the function, not a parameter,
                    not global/nonlocal) is renamed consistently inside that function.

Each variant is checked with exactly the properties whose rules consulted that file (taken from
the committed evidence files).  A check that reports a violation or an analysis error on a twin
is a false alarm in waiting and is printed as ``TWIN-FALSE-ALARM``.

usage: python -m glint.twins [Cxx ...] [-j N]
"""

from __future__ import annotations

import ast
import json
import os
import shutil
import sys
import time
from concurrent.futures import ProcessPoolExecutor

from glint import REPO_ROOT
from glint.index import Repo
from glint.report import VERIF
from glint.report import Ctx
from glint.report import load_known
from glint.report import match_known
from glint.selftest import make_copy


class Renamer(ast.NodeTransformer):
    def __init__(self):
        self.stack: list[dict] = []

    def _locals_of(self, fn) -> dict:
        params = {a.arg for a in fn.args.posonlyargs + fn.args.args + fn.args.kwonlyargs}
        if fn.args.vararg:
            params.add(fn.args.vararg.arg)
        if fn.args.kwarg:
            params.add(fn.args.kwarg.arg)
        declared = set()
        assigned = set()
        nested_params = set()
        for n in ast.walk(fn):
            if isinstance(n, (ast.Global, ast.Nonlocal)):
                declared |= set(n.names)
            if isinstance(n, ast.Name) and isinstance(n.ctx, (ast.Store, ast.Del)):
                assigned.add(n.id)
            if n is not fn and isinstance(n, (ast.FunctionDef, ast.AsyncFunctionDef, ast.Lambda)):
                a = n.args
                nested_params |= {x.arg for x in a.posonlyargs + a.args + a.kwonlyargs}
                if isinstance(n, (ast.FunctionDef, ast.AsyncFunctionDef)):
                    assigned.discard(n.name)
                    declared.add(n.name)
            if isinstance(n, (ast.Import, ast.ImportFrom)):
                for al in n.names:
                    declared.add((al.asname or al.name).split(".")[0])
            if isinstance(n, ast.ExceptHandler) and n.name:
                declared.add(n.name)
            if isinstance(n, ast.ClassDef):
                declared.add(n.name)
        names = assigned - params - declared - nested_params
        return {n: n + "_r" for n in names if not n.startswith("__")}

    def visit_FunctionDef(self, node):
        if self.stack:
            # nested function: keep the enclosing mapping (closures), add nothing
            self.generic_visit(node)
            return node
        self.stack.append(self._locals_of(node))
        node.body = [self.visit(s) for s in node.body]
        self.stack.pop()
        return node

    visit_AsyncFunctionDef = visit_FunctionDef

    def visit_Name(self, node):
        if self.stack and node.id in self.stack[-1]:
            return ast.copy_location(ast.Name(id=self.stack[-1][node.id], ctx=node.ctx), node)
        return node


def transform(src: str, kind: str) -> str:
    tree = ast.parse(src)
    if kind == "rename-locals":
        tree = Renamer().visit(tree)
        ast.fix_missing_locations(tree)
    return ast.unparse(tree) + "\n"


def file_props() -> dict[str, set[str]]:
    out: dict[str, set[str]] = {}
    evdir = os.path.join(VERIF, "evidence")
    for fn in sorted(os.listdir(evdir)):
        if not fn.endswith(".json"):
            continue
        ev = json.load(open(os.path.join(evdir, fn)))
        for f in ev["coverage"].get("files_consulted", []):
            out.setdefault(f, set()).add(ev["property_id"])
    return out


def run_one(job) -> list[str]:
    rel, kind, props = job
    from glint.cli import run_rules
    from glint.rules import RULES

    tmp = make_copy(REPO_ROOT)
    out = []
    try:
        p = os.path.join(tmp, rel)
        src = open(p, encoding="utf-8").read()
        try:
            new = transform(src, kind)
            compile(new, rel, "exec")
        except Exception as e:  # pragma: no cover
            return [f"TWIN-SKIP {rel} {kind}: {e}"]
        open(p, "w", encoding="utf-8").write(new)
        known, _ = load_known()
        for prop in sorted(props):
            try:
                repo = Repo(tmp)
                ctx = Ctx(repo, prop, "quick")
                run_rules(RULES[prop], ctx)
                viol = [o for o in ctx.obligations if not o.ok and match_known(o, prop, known) is None]
                if viol or ctx.shortfalls:
                    for o in viol[:6]:
                        out.append(f"TWIN-FALSE-ALARM {prop} {kind} {rel}: {o.rule} {o.instance} | {o.construct[:90]}")
                    for m in ctx.shortfalls[:3]:
                        out.append(f"TWIN-FALSE-ALARM {prop} {kind} {rel}: shortfall {m[:120]}")
            except Exception as e:
                out.append(f"TWIN-FALSE-ALARM {prop} {kind} {rel}: ANALYSIS-ERROR {type(e).__name__}: {str(e)[:160]}")
    finally:
        shutil.rmtree(tmp, ignore_errors=True)
    return out


def main(argv=None) -> int:
    argv = list(sys.argv[1:] if argv is None else argv)
    jobs_n = os.cpu_count() or 4
    if "-j" in argv:
        i = argv.index("-j")
        jobs_n = int(argv[i + 1])
        del argv[i : i + 2]
    want = {a.upper() for a in argv if not a.startswith("-")}
    kinds = ["reformat", "rename-locals"]
    fp = file_props()
    jobs = []
    for rel, props in sorted(fp.items()):
        ps = props & want if want else props
        if not ps or not os.path.exists(os.path.join(REPO_ROOT, rel)):
            continue
        for k in kinds:
            jobs.append((rel, k, ps))
    t0 = time.time()
    with ProcessPoolExecutor(max_workers=jobs_n) as ex:
        results = list(ex.map(run_one, jobs))
    bad = 0
    for r in results:
        for line in r:
            print(line)
            if line.startswith("TWIN-FALSE-ALARM"):
                bad += 1
    print(f"twins: {len(jobs)} variants over {len({j[0] for j in jobs})} files, {bad} false alarms, {time.time() - t0:.1f}s")
    return 1 if bad else 0


if __name__ == "__main__":
    sys.exit(main())
