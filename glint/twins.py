"""Automatic *silent twins*: behaviour preserving rewrites on which every check must stay green.

For every source file consulted by a property's rules two rewritten variants are produced on a
scratch copy (outside /repo and /verif, removed immediately):

* ``reformat``      the file is re-emitted by ``ast.unparse`` (all positions, line breaks, quoting,
                    parenthesisation and comments change; the AST is identical);
* ``rename-locals`` every function-local variable (assigned in the function, not a parameter,
                    not global/nonlocal) is renamed consistently inside that function;
* ``flip-if``       every ``if c: A else: B`` becomes ``if not c: B else: A``;
* ``flip-compare``  every single ordering comparison ``a < b`` between side-effect free operands
                    becomes ``b > a`` (likewise ``<=``, ``>``, ``>=``);
* ``extract-temp``  in every function, a call that is the first positional argument of the call
                    on the right-hand side of a plain assignment / return is hoisted into a new
                    local (``x = f(g(y), z)`` -> ``_t1 = g(y); x = f(_t1, z)``; evaluation order
                    is unchanged);
* ``annotate-assign`` the first plain assignment of every local gets an annotation (``x: object = e``);
* ``insert-pass``   a ``pass`` statement is inserted before every statement inside functions;
* ``else-after-leave`` the statements following ``if c: ...return/raise/continue/break`` move into an ``else``.

Each variant is checked with exactly the properties whose rules consulted that file (taken from
the committed evidence files).  A check that reports a violation or an analysis error on a twin
is a false alarm in waiting and is printed as ``TWIN-FALSE-ALARM``.

usage: python -m glint.twins [Cxx ...] [-j N]
"""

from __future__ import annotations

import ast
import json
import os
import shutil
import sys
import time
from concurrent.futures import ProcessPoolExecutor

from glint import REPO_ROOT
from glint.index import Repo
from glint.report import VERIF
from glint.report import Ctx
from glint.report import load_known
from glint.report import match_known
from glint.selftest import make_copy


class Renamer(ast.NodeTransformer):
    def __init__(self):
        self.stack: list[dict] = []

    def _locals_of(self, fn) -> dict:
        params = {a.arg for a in fn.args.posonlyargs + fn.args.args + fn.args.kwonlyargs}
        if fn.args.vararg:
            params.add(fn.args.vararg.arg)
        if fn.args.kwarg:
            params.add(fn.args.kwarg.arg)
        declared = set()
        assigned = set()
        nested_params = set()
        for n in ast.walk(fn):
            if isinstance(n, (ast.Global, ast.Nonlocal)):
                declared |= set(n.names)
            if isinstance(n, ast.Name) and isinstance(n.ctx, (ast.Store, ast.Del)):
                assigned.add(n.id)
            if n is not fn and isinstance(n, (ast.FunctionDef, ast.AsyncFunctionDef, ast.Lambda)):
                a = n.args
                nested_params |= {x.arg for x in a.posonlyargs + a.args + a.kwonlyargs}
                if isinstance(n, (ast.FunctionDef, ast.AsyncFunctionDef)):
                    assigned.discard(n.name)
                    declared.add(n.name)
            if isinstance(n, (ast.Import, ast.ImportFrom)):
                for al in n.names:
                    declared.add((al.asname or al.name).split(".")[0])
            if isinstance(n, ast.ExceptHandler) and n.name:
                declared.add(n.name)
            if isinstance(n, ast.ClassDef):
                declared.add(n.name)
        names = assigned - params - declared - nested_params
        return {n: n + "_r" for n in names if not n.startswith("__")}

    def visit_FunctionDef(self, node):
        if self.stack:
            # nested function: keep the enclosing mapping (closures), add nothing
            self.generic_visit(node)
            return node
        self.stack.append(self._locals_of(node))
        node.body = [self.visit(s) for s in node.body]
        self.stack.pop()
        return node

    visit_AsyncFunctionDef = visit_FunctionDef

    def visit_Name(self, node):
        if self.stack and node.id in self.stack[-1]:
            return ast.copy_location(ast.Name(id=self.stack[-1][node.id], ctx=node.ctx), node)
        return node


class FlipIf(ast.NodeTransformer):
    def visit_If(self, node):
        self.generic_visit(node)
        if not node.orelse:
            return node
        test = node.test
        if isinstance(test, ast.UnaryOp) and isinstance(test.op, ast.Not):
            new_test = test.operand
        else:
            new_test = ast.UnaryOp(op=ast.Not(), operand=test)
        return ast.copy_location(ast.If(test=new_test, body=node.orelse, orelse=node.body), node)


def _pure(e) -> bool:
    if isinstance(e, (ast.Name, ast.Constant)):
        return True
    if isinstance(e, ast.Attribute):
        return _pure(e.value)
    if isinstance(e, ast.Subscript):
        return _pure(e.value) and _pure(e.slice)
    if isinstance(e, ast.UnaryOp):
        return _pure(e.operand)
    return False


class FlipCompare(ast.NodeTransformer):
    SWAP = {ast.Lt: ast.Gt, ast.Gt: ast.Lt, ast.LtE: ast.GtE, ast.GtE: ast.LtE}

    def visit_Compare(self, node):
        self.generic_visit(node)
        if len(node.ops) == 1 and type(node.ops[0]) in self.SWAP and _pure(node.left) and _pure(node.comparators[0]):
            return ast.copy_location(
                ast.Compare(left=node.comparators[0], ops=[self.SWAP[type(node.ops[0])]()], comparators=[node.left]), node
            )
        return node


class ExtractTemp(ast.NodeTransformer):
    """x = f(g(y), z)  ->  _t1 = g(y); x = f(_t1, z)   (statements directly in a function body or
    in the body of a compound statement; never inside comprehensions, lambdas or class bodies)."""

    def __init__(self):
        self.n = 0
        self.in_fn = 0

    def visit_FunctionDef(self, node):
        self.in_fn += 1
        self.generic_visit(node)
        self.in_fn -= 1
        return node

    visit_AsyncFunctionDef = visit_FunctionDef

    def visit_ClassDef(self, node):
        saved, self.in_fn = self.in_fn, 0
        self.generic_visit(node)
        self.in_fn = saved
        return node

    def _hoist(self, node):
        if not self.in_fn:
            return node
        v = node.value
        if not (isinstance(v, ast.Call) and _pure(v.func) and v.args and isinstance(v.args[0], ast.Call)):
            return node
        inner = v.args[0]
        if any(isinstance(n, (ast.NamedExpr, ast.Yield, ast.YieldFrom, ast.Await, ast.Starred)) for n in ast.walk(v)):
            return node
        self.n += 1
        name = f"_t{self.n}"
        pre = ast.copy_location(ast.Assign(targets=[ast.Name(id=name, ctx=ast.Store())], value=inner), node)
        v.args[0] = ast.Name(id=name, ctx=ast.Load())
        return [pre, node]

    def visit_Assign(self, node):
        if len(node.targets) == 1 and isinstance(node.targets[0], ast.Name):
            return self._hoist(node)
        return node

    def visit_Return(self, node):
        if node.value is not None:
            return self._hoist(node)
        return node


class AnnotateAssign(ast.NodeTransformer):
    """``x = e`` -> ``x: object = e`` for plain local names inside functions (annotations of locals are
    never evaluated; the repository uses ``from __future__ import annotations`` throughout)."""

    def __init__(self):
        self.skip: list[set] = []

    def visit_FunctionDef(self, node):
        declared = set()
        for n in ast.walk(node):
            if isinstance(n, (ast.Global, ast.Nonlocal)):
                declared |= set(n.names)
        # a name may be annotated only once sensibly; annotate the first plain assignment of each name
        self.skip.append(declared)
        self.generic_visit(node)
        self.skip.pop()
        return node

    visit_AsyncFunctionDef = visit_FunctionDef

    def visit_ClassDef(self, node):
        saved, self.skip = self.skip, []
        self.generic_visit(node)
        self.skip = saved
        return node

    def visit_Lambda(self, node):
        return node

    def visit_Assign(self, node):
        if self.skip and len(node.targets) == 1 and isinstance(node.targets[0], ast.Name) and node.targets[0].id not in self.skip[-1]:
            self.skip[-1].add(node.targets[0].id)
            return ast.copy_location(
                ast.AnnAssign(target=node.targets[0], annotation=ast.Name(id="object", ctx=ast.Load()), value=node.value, simple=1), node)
        return node


class InsertPass(ast.NodeTransformer):
    """A ``pass`` statement is inserted before every statement of every function body (and of the
    bodies of compound statements inside functions)."""

    def __init__(self):
        self.depth = 0

    def _pad(self, body):
        out = []
        for i, st in enumerate(body):
            is_doc = i == 0 and isinstance(st, ast.Expr) and isinstance(st.value, ast.Constant) and isinstance(st.value.value, str)
            if not is_doc:
                out.append(ast.copy_location(ast.Pass(), st))
            out.append(st)
        return out

    def generic_visit(self, node):
        super().generic_visit(node)
        if isinstance(node, (ast.FunctionDef, ast.AsyncFunctionDef)) or self.depth:
            for fld in ("body", "orelse", "finalbody"):
                b = getattr(node, fld, None)
                if isinstance(b, list) and b and isinstance(b[0], ast.stmt):
                    # keep `elif` chains as they are (orelse == [If])
                    if fld == "orelse" and len(b) == 1 and isinstance(b[0], ast.If) and isinstance(node, ast.If):
                        continue
                    setattr(node, fld, self._pad(b))
            if isinstance(node, ast.Try):
                for h in node.handlers:
                    h.body = self._pad(h.body)
            if isinstance(node, ast.Match):
                for c in node.cases:
                    c.body = self._pad(c.body)
        return node

    def visit_FunctionDef(self, node):
        self.depth += 1
        self.generic_visit(node)
        self.depth -= 1
        return node

    visit_AsyncFunctionDef = visit_FunctionDef

    def visit_ClassDef(self, node):
        saved, self.depth = self.depth, 0
        self.generic_visit(node)
        self.depth = saved
        return node


class ElseAfterLeave(ast.NodeTransformer):
    """``if c: ...return`` followed by the rest of the block  ->  ``if c: ...return  else: <rest>``
    (the inverse of the "no else after return" clean-up; the paths are the same)."""

    def __init__(self):
        self.depth = 0

    @staticmethod
    def _leaves(block) -> bool:
        return bool(block) and isinstance(block[-1], (ast.Return, ast.Raise, ast.Continue, ast.Break))

    def _fold(self, block):
        for i, st in enumerate(block):
            if isinstance(st, ast.If) and not st.orelse and self._leaves(st.body) and i + 1 < len(block):
                st.orelse = self._fold(block[i + 1:])
                return block[: i + 1]
        return block

    def generic_visit(self, node):
        super().generic_visit(node)
        if self.depth:
            for fld in ("body", "orelse", "finalbody"):
                b = getattr(node, fld, None)
                if isinstance(b, list) and b and isinstance(b[0], ast.stmt):
                    setattr(node, fld, self._fold(b))
        return node

    def visit_FunctionDef(self, node):
        self.depth += 1
        self.generic_visit(node)
        self.depth -= 1
        return node

    visit_AsyncFunctionDef = visit_FunctionDef

    def visit_ClassDef(self, node):
        saved, self.depth = self.depth, 0
        self.generic_visit(node)
        self.depth = saved
        return node


KINDS = {
    "reformat": None,
    "rename-locals": Renamer,
    "flip-if": FlipIf,
    "flip-compare": FlipCompare,
    "extract-temp": ExtractTemp,
    "annotate-assign": AnnotateAssign,
    "insert-pass": InsertPass,
    "else-after-leave": ElseAfterLeave,
}


def transform(src: str, kind: str) -> str:
    tree = ast.parse(src)
    tr = KINDS[kind]
    if tr is not None:
        tree = tr().visit(tree)
        ast.fix_missing_locations(tree)
    return ast.unparse(tree) + "\n"


def file_props() -> dict[str, set[str]]:
    out: dict[str, set[str]] = {}
    evdir = os.path.join(VERIF, "evidence")
    for fn in sorted(os.listdir(evdir)):
        if not fn.endswith(".json"):
            continue
        ev = json.load(open(os.path.join(evdir, fn)))
        for f in ev["coverage"].get("files_consulted", []):
            out.setdefault(f, set()).add(ev["property_id"])
    return out


def run_one(job) -> list[str]:
    rel, kind, props = job
    from glint.cli import run_rules
    from glint.rules import RULES

    tmp = make_copy(REPO_ROOT)
    out = []
    try:
        p = os.path.join(tmp, rel)
        src = open(p, encoding="utf-8").read()
        try:
            new = transform(src, kind)
            compile(new, rel, "exec")
        except Exception as e:  # pragma: no cover
            return [f"TWIN-SKIP {rel} {kind}: {e}"]
        open(p, "w", encoding="utf-8").write(new)
        known, _ = load_known()
        for prop in sorted(props):
            try:
                repo = Repo(tmp)
                ctx = Ctx(repo, prop, "quick")
                run_rules(RULES[prop], ctx)
                viol = [o for o in ctx.obligations if not o.ok and match_known(o, prop, known) is None]
                if viol or ctx.shortfalls:
                    for o in viol[:6]:
                        out.append(f"TWIN-FALSE-ALARM {prop} {kind} {rel}: {o.rule} {o.instance} | {o.construct[:90]}")
                    for m in ctx.shortfalls[:3]:
                        out.append(f"TWIN-FALSE-ALARM {prop} {kind} {rel}: shortfall {m[:120]}")
            except Exception as e:
                out.append(f"TWIN-FALSE-ALARM {prop} {kind} {rel}: ANALYSIS-ERROR {type(e).__name__}: {str(e)[:160]}")
    finally:
        shutil.rmtree(tmp, ignore_errors=True)
    return out


def main(argv=None) -> int:
    argv = list(sys.argv[1:] if argv is None else argv)
    jobs_n = os.cpu_count() or 4
    if "-j" in argv:
        i = argv.index("-j")
        jobs_n = int(argv[i + 1])
        del argv[i : i + 2]
    want = {a.upper() for a in argv if not a.startswith("-")}
    kinds = list(KINDS)
    if "-k" in argv:
        i = argv.index("-k")
        kinds = argv[i + 1].split(",")
        del argv[i : i + 2]
        want = {a.upper() for a in argv if not a.startswith("-")}
    fp = file_props()
    jobs = []
    for rel, props in sorted(fp.items()):
        ps = props & want if want else props
        if not ps or not os.path.exists(os.path.join(REPO_ROOT, rel)):
            continue
        src = open(os.path.join(REPO_ROOT, rel), encoding="utf-8").read()
        base = transform(src, "reformat")
        for k in kinds:
            if k != "reformat" and transform(src, k) == base:
                continue  # the rewrite has no site in this file
            jobs.append((rel, k, ps))
    t0 = time.time()
    with ProcessPoolExecutor(max_workers=jobs_n) as ex:
        results = list(ex.map(run_one, jobs))
    bad = 0
    for r in results:
        for line in r:
            print(line)
            if line.startswith("TWIN-FALSE-ALARM"):
                bad += 1
    print(f"twins: {len(jobs)} variants over {len({j[0] for j in jobs})} files, {bad} false alarms, {time.time() - t0:.1f}s")
    return 1 if bad else 0


if __name__ == "__main__":
    sys.exit(main())
