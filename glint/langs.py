"""A10 - tiny regular languages of name patterns: regex, glob and f-string templates.

Patterns are converted into token lists over
    ("lit", text) ("field", name) ("digits", n) ("any+",) ("any*",) ("start",) ("end",)
    ("class", description, lo, hi)
which is enough for the name/key shapes that occur in this repository.  Agreement of a
writer template with a reader pattern is decided by structural comparison of the lists.
"""

from __future__ import annotations

import ast
import re
import re._parser as sre_parse  # type: ignore[import-not-found]

from glint.index import norm

MARK = "ǂ"


class PatternError(Exception):
    pass


def _merge(tokens: list[tuple]) -> list[tuple]:
    out: list[tuple] = []
    for t in tokens:
        if t[0] == "lit":
            if not t[1]:
                continue
            if out and out[-1][0] == "lit":
                out[-1] = ("lit", out[-1][1] + t[1])
                continue
        out.append(t)
    # split trailing digits of literals followed by nothing / digits tokens: "_run_0000" -> "_run_", digits 4
    res: list[tuple] = []
    for t in out:
        if t[0] == "lit":
            m = re.match(r"^(.*?)(\d+)$", t[1], re.S)
            if m and m.group(2) and set(m.group(2)) == {"0"}:
                if m.group(1):
                    res.append(("lit", m.group(1)))
                res.append(("digits", len(m.group(2))))
                continue
        res.append(t)
    return res


def regex_tokens(pattern: str, fields: dict[str, str] | None = None) -> list[tuple]:
    """Tokens of a regular expression; ``fields`` maps marker characters to field names."""
    fields = fields or {}
    try:
        parsed = sre_parse.parse(pattern)
    except re.error as e:
        raise PatternError(f"cannot parse regex {pattern!r}: {e}") from e
    out: list[tuple] = []

    def is_digit_class(item) -> bool:
        op, av = item
        if str(op) == "IN":
            return len(av) == 1 and str(av[0][0]) == "CATEGORY" and str(av[0][1]) == "CATEGORY_DIGIT" or (
                len(av) == 1 and str(av[0][0]) == "RANGE" and av[0][1] == (ord("0"), ord("9"))
            )
        return False

    for op, av in parsed:
        sop = str(op)
        if sop == "LITERAL":
            ch = chr(av)
            if ch in fields:
                out.append(("field", fields[ch]))
            else:
                out.append(("lit", ch))
        elif sop == "AT":
            out.append(("end",) if "END" in str(av) else ("start",))
        elif sop in ("MAX_REPEAT", "MIN_REPEAT"):
            lo, hi, sub = av
            sub = list(sub)
            if len(sub) == 1 and str(sub[0][0]) == "ANY":
                if lo == 0:
                    out.append(("any*",))
                else:
                    out.append(("any+",))
            elif len(sub) == 1 and is_digit_class(sub[0]) and lo == hi:
                out.append(("digits", lo))
            else:
                out.append(("class", repr(sub), lo, int(hi) if str(hi) != "MAXREPEAT" else -1))
        elif sop == "IN" and is_digit_class((op, av)):
            out.append(("digits", 1))
        elif sop == "ANY":
            out.append(("class", "any", 1, 1))
        else:
            out.append(("class", f"{sop}:{av!r}", 1, 1))
    # merge consecutive single digits
    merged: list[tuple] = []
    for t in out:
        if t[0] == "digits" and merged and merged[-1][0] == "digits":
            merged[-1] = ("digits", merged[-1][1] + t[1])
        else:
            merged.append(t)
    return _merge(merged)


def glob_tokens(tokens_or_text) -> list[tuple]:
    """Interpret ``*`` ``?`` in the literal parts of a template as glob wildcards."""
    toks = tokens_or_text if isinstance(tokens_or_text, list) else [("lit", tokens_or_text)]
    out: list[tuple] = []
    for t in toks:
        if t[0] != "lit":
            out.append(t)
            continue
        buf = ""
        i = 0
        s = t[1]
        while i < len(s):
            c = s[i]
            if c == "*":
                out.append(("lit", buf))
                buf = ""
                out.append(("any*",))
            elif c == "?":
                out.append(("lit", buf))
                buf = ""
                out.append(("class", "any", 1, 1))
            elif c == "[":
                j = s.find("]", i)
                if j > 0 and s[i : j + 1] == "[0-9]":
                    out.append(("lit", buf))
                    buf = ""
                    out.append(("digits", 1))
                    i = j
                else:
                    buf += c
            else:
                buf += c
            i += 1
        out.append(("lit", buf))
    merged: list[tuple] = []
    for t in out:
        if t[0] == "digits" and merged and merged[-1][0] == "digits":
            merged[-1] = ("digits", merged[-1][1] + t[1])
        elif t[0] == "lit" and not t[1]:
            continue
        else:
            merged.append(t)
    return merged


def fstring_tokens(node: ast.AST, as_regex: bool = False, raw_glob: bool = False) -> list[tuple]:
    """Tokens of an f-string / string constant used as a *name template* (or regex source)."""
    if isinstance(node, ast.Constant) and isinstance(node.value, str):
        if as_regex:
            return regex_tokens(node.value)
        return _merge([("lit", node.value)]) if not raw_glob else [("lit", node.value)]
    if isinstance(node, ast.BinOp) and isinstance(node.op, ast.Add) and not as_regex:
        parts = fstring_tokens(node.left, raw_glob=True) + fstring_tokens(node.right, raw_glob=True)
        return parts if raw_glob else _merge(parts)
    if not isinstance(node, ast.JoinedStr):
        raise PatternError(f"not a string template: {norm(node)}")
    if as_regex:
        fields: dict[str, str] = {}
        text = ""
        for i, v in enumerate(node.values):
            if isinstance(v, ast.Constant):
                text += v.value
            else:
                inner = v.value
                # re.escape(x) -> field x matched literally
                if isinstance(inner, ast.Call) and norm(inner.func) == "re.escape" and inner.args:
                    name = norm(inner.args[0])
                else:
                    name = "unescaped:" + norm(inner)
                ch = chr(0x2460 + i)
                fields[ch] = name
                text += ch
        return regex_tokens(text, fields)
    out: list[tuple] = []
    for v in node.values:
        if isinstance(v, ast.Constant):
            out.append(("lit", v.value))
        elif isinstance(v, ast.FormattedValue):
            spec = ""
            if v.format_spec is not None:
                spec = "".join(x.value for x in v.format_spec.values if isinstance(x, ast.Constant))
            m = re.fullmatch(r"0(\d+)d?", spec)
            if m:
                out.append(("digits", int(m.group(1))))
            elif spec or v.conversion != -1:
                out.append(("field", norm(v.value) + "!" + spec + str(v.conversion)))
            else:
                out.append(("field", norm(v.value)))
    return out if raw_glob else _merge(out)


def show(tokens: list[tuple]) -> str:
    parts = []
    for t in tokens:
        if t[0] == "lit":
            parts.append(repr(t[1]))
        elif t[0] == "field":
            parts.append("{" + t[1] + "}")
        elif t[0] == "digits":
            parts.append(f"<{t[1]} digits>")
        else:
            parts.append("<" + " ".join(str(x) for x in t) + ">")
    return " ".join(parts)


def strip_anchor(tokens: list[tuple]) -> list[tuple]:
    return [t for t in tokens if t[0] not in ("start", "end")]
