"""A7 - index-space typing.

``space_of(fl, expr, at)`` computes in which *index space* the positions of an array
expression live: the set of base arrays it is elementwise-derived from, and whether a
selection (boolean mask / fancy index / filtered comprehension ...) was applied on the
way, which creates a *new* space.  ``X.argmin()`` / ``np.argmin(X)`` / ``X.index(v)`` /
``enumerate(X)`` / ``range(len(X))`` produce positions of ``X``'s space; using such a
position to subscript an array of another space is a violation.
"""

from __future__ import annotations

import ast
from dataclasses import dataclass
from dataclasses import field

from glint.dataflow import Flow
from glint.index import norm

ELEMENTWISE_FUNCS = {
    "np.abs", "np.absolute", "abs", "np.fabs", "np.asarray", "np.array", "np.sqrt", "np.square", "np.exp", "np.log",
    "np.negative", "np.subtract", "np.add", "np.multiply", "np.divide", "np.float64", "np.isfinite", "np.isnan",
}
SELECT_FUNCS = {"np.compress", "np.extract", "np.take", "np.delete", "np.unique", "np.sort", "sorted", "filter", "np.nonzero",
                "np.flatnonzero", "np.argwhere", "np.concatenate", "np.append", "np.insert", "np.roll", "np.flip", "reversed"}


@dataclass
class Space:
    bases: frozenset = frozenset()  # names of arrays whose positions these are
    selections: tuple = ()  # descriptions of space changing operations
    trace: list = field(default_factory=list)

    def same_as(self, base: str) -> bool:
        return self.bases == frozenset([base]) and not self.selections

    def describe(self) -> str:
        s = "|".join(sorted(self.bases)) or "?"
        if self.selections:
            s += " after " + "; ".join(self.selections)
        return s


def _merge(a: Space, b: Space) -> Space:
    return Space(a.bases | b.bases, tuple(dict.fromkeys(a.selections + b.selections)), a.trace + b.trace)


def is_scalar_like(fl: Flow, e: ast.AST, at) -> bool:
    if isinstance(e, ast.Constant):
        return True
    if isinstance(e, ast.Attribute) and norm(e) in ("np.inf", "np.nan", "math.inf"):
        return True
    if isinstance(e, ast.UnaryOp):
        return is_scalar_like(fl, e.operand, at)
    return False


def space_of(fl: Flow, e: ast.AST, at, bases: set[str], depth: int = 10, _busy=frozenset()) -> Space:
    """Index space of the array expression ``e``; ``bases`` are the array names of interest."""
    if depth <= 0:
        return Space(frozenset(["?"]))
    if isinstance(e, ast.Name):
        defs = fl.reaching(e.id, at)
        real = [d for d in defs if d.kind != "param"]
        if e.id in bases and not real:
            return Space(frozenset([e.id]))
        if not defs or all(d.kind == "param" for d in defs):
            return Space(frozenset([e.id]) if e.id in bases else frozenset())
        out = None
        for d in defs:
            if d in _busy:
                continue
            if d.kind == "param":
                s = Space(frozenset([e.id]) if e.id in bases else frozenset())
            elif d.kind in ("assign", "walrus"):
                s = space_of(fl, d.value, d.node, bases, depth - 1, _busy | {d})
                s.trace.append(f"{e.id}@{getattr(d.stmt, 'lineno', 0)} = {norm(d.value)}  [{s.describe()}]")
            elif d.kind == "aug":
                s = space_of(fl, ast.Name(id=e.id, ctx=ast.Load()), d.node, bases, depth - 1, _busy | {d})
            else:
                s = Space(frozenset(["?"]))
            out = s if out is None else _merge(out, s)
        return out or Space()
    if isinstance(e, ast.BinOp):
        l = space_of(fl, e.left, at, bases, depth - 1, _busy)
        r = space_of(fl, e.right, at, bases, depth - 1, _busy)
        return _merge(l, r)
    if isinstance(e, ast.UnaryOp):
        return space_of(fl, e.operand, at, bases, depth - 1, _busy)
    if isinstance(e, ast.Compare):
        out = space_of(fl, e.left, at, bases, depth - 1, _busy)
        for c in e.comparators:
            out = _merge(out, space_of(fl, c, at, bases, depth - 1, _busy))
        return out
    if isinstance(e, ast.Constant):
        return Space()
    if isinstance(e, ast.Attribute):
        if e.attr in ("T", "real", "imag", "data", "values"):
            return space_of(fl, e.value, at, bases, depth - 1, _busy)
        return Space()
    if isinstance(e, ast.Subscript):
        base = space_of(fl, e.value, at, bases, depth - 1, _busy)
        if isinstance(e.slice, ast.Slice):
            full = e.slice.lower is None and e.slice.upper is None and e.slice.step is None
            if full:
                return base
            return Space(base.bases, base.selections + (f"slice `{norm(e)}`",), base.trace)
        if isinstance(e.slice, ast.Constant):
            return Space()  # one element
        return Space(base.bases, base.selections + (f"selection `{norm(e)}` (mask / fancy index)",), base.trace)
    if isinstance(e, ast.Call):
        f = norm(e.func)
        if f in ("np.where", "numpy.where") and len(e.args) == 3:
            out = space_of(fl, e.args[0], at, bases, depth - 1, _busy)
            for a in e.args[1:]:
                out = _merge(out, space_of(fl, a, at, bases, depth - 1, _busy))
            return out
        if f in ("np.where", "numpy.where") and len(e.args) == 1:
            b = space_of(fl, e.args[0], at, bases, depth - 1, _busy)
            return Space(b.bases, b.selections + (f"`{norm(e)}` (positions of a mask)",), b.trace)
        if f in ELEMENTWISE_FUNCS and e.args:
            out = Space()
            for a in e.args:
                out = _merge(out, space_of(fl, a, at, bases, depth - 1, _busy))
            return out
        if f in SELECT_FUNCS and e.args:
            b = space_of(fl, e.args[0], at, bases, depth - 1, _busy)
            return Space(b.bases, b.selections + (f"`{f}(...)`",), b.trace)
        if isinstance(e.func, ast.Attribute) and e.func.attr in ("copy", "astype", "clip", "round"):
            return space_of(fl, e.func.value, at, bases, depth - 1, _busy)
        if isinstance(e.func, ast.Attribute) and e.func.attr in ("compress", "take", "nonzero", "sort", "argsort"):
            b = space_of(fl, e.func.value, at, bases, depth - 1, _busy)
            return Space(b.bases, b.selections + (f"`.{e.func.attr}()`",), b.trace)
        return Space(frozenset(["?" + f]))
    if isinstance(e, (ast.ListComp, ast.GeneratorExp)):
        g = e.generators[0]
        b = space_of(fl, g.iter, at, bases, depth - 1, _busy)
        if g.ifs or len(e.generators) > 1:
            return Space(b.bases, b.selections + (f"filtered comprehension `{norm(e)[:40]}`",), b.trace)
        return b
    if isinstance(e, ast.IfExp):
        return _merge(space_of(fl, e.body, at, bases, depth - 1, _busy), space_of(fl, e.orelse, at, bases, depth - 1, _busy))
    return Space(frozenset(["?"]))


def position_source(fl: Flow, e: ast.AST, at, bases: set[str]) -> tuple[str, Space] | None:
    """If ``e`` is a position (argmin/argmax/index/...) return (kind, space of the array it indexes)."""
    if isinstance(e, ast.Name):
        defs = [d for d in fl.reaching(e.id, at)]
        if len(defs) == 1 and defs[0].kind == "assign":
            return position_source(fl, defs[0].value, defs[0].node, bases)
        return None
    if isinstance(e, ast.Call):
        if isinstance(e.func, ast.Attribute) and e.func.attr in ("argmin", "argmax", "index") and not (
                norm(e.func.value) in ("np", "numpy")):
            return e.func.attr, space_of(fl, e.func.value, at, bases)
        if norm(e.func) in ("np.argmin", "np.argmax", "np.nanargmin", "np.nanargmax") and e.args:
            return norm(e.func), space_of(fl, e.args[0], at, bases)
        if norm(e.func) == "int" and e.args:
            return position_source(fl, e.args[0], at, bases)
    return None
