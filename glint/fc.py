"""Formula conformance (FC): compare the term a function computes with a reference term.

The reference is ordinary Python source kept in the rule (taken from a docstring or from the
mechanism line of the property), parsed and normalised by the *same* machinery as the code
under analysis; parameters are matched positionally, so renaming parameters or locals in the
repository does not matter.  Only the polynomial normal form is compared - no execution.
"""

from __future__ import annotations

import ast

from glint.dataflow import Flow
from glint.index import FunctionInfo
from glint.index import ModuleInfo
from glint.index import Repo
from glint.index import set_parents
from glint.terms import Poly
from glint.terms import rename_names

PRELUDE = "import numpy as np\nfrom scipy.special import erf, erfc, erfcx\n"


def ref_flow(repo: Repo, source: str, func: str) -> Flow:
    src = PRELUDE + source
    tree = ast.parse(src)
    set_parents(tree)
    mi = ModuleInfo("glint_reference", "<reference>", src, tree)
    for node in ast.walk(tree):
        if isinstance(node, ast.Import):
            for a in node.names:
                mi.imports[a.asname or a.name.split(".")[0]] = a.name if a.asname else a.name.split(".")[0]
        elif isinstance(node, ast.ImportFrom):
            for a in node.names:
                mi.imports[a.asname or a.name] = f"{node.module}.{a.name}"
    for node in tree.body:
        if isinstance(node, ast.Assign):
            for t in node.targets:
                if isinstance(t, ast.Name):
                    mi.assigns[t.id] = node.value
    fn = next(n for n in tree.body if isinstance(n, ast.FunctionDef) and n.name == func)
    fi = FunctionInfo(f"glint_reference.{func}", func, fn, mi)
    return Flow(fi, repo)


def positional(code_fi: FunctionInfo, ref_fi: FunctionInfo) -> dict:
    """code parameter name -> reference parameter name (by position)."""
    return dict(zip(code_fi.params(), ref_fi.params()))


def to_ref_names(p: Poly, code_fi: FunctionInfo, ref_fi: FunctionInfo) -> Poly:
    return rename_names(p, positional(code_fi, ref_fi))


def find_assign(fl: Flow, name: str) -> ast.stmt:
    for d in fl.defs_of(name):
        if d.kind in ("assign", "aug"):
            return d.stmt
    raise KeyError(name)
