"""A5 (part 1) - polynomial normal form of terms.

A *term* is a polynomial with rational coefficients over *atoms*; atoms are hashable
tuples describing uninterpreted sub-terms (names, calls, subscripts ...), whose own
arguments are stored in normal form.  Two expressions are considered equal when their
normal forms are identical.  This is global value numbering with algebraic
canonicalisation (AC of + and *, constant folding, a/b = a*b**-1, exp(a)exp(b) =
exp(a+b), sqrt(x) = x**(1/2), (AB).T = B.T A.T ...).  No solver, no execution.
"""

from __future__ import annotations

from fractions import Fraction

Atom = tuple
Mono = tuple  # tuple of (atom, Fraction exponent), sorted by repr


def _sort_key(x) -> str:
    return repr(x)


class Poly:
    __slots__ = ("terms", "_key")

    def __init__(self, terms: dict | None = None):
        self.terms: dict[Mono, Fraction] = {}
        if terms:
            for m, c in terms.items():
                if c != 0:
                    self.terms[m] = Fraction(c)
        self._key = None

    # -- constructors
    @staticmethod
    def const(c) -> "Poly":
        if isinstance(c, bool):
            c = int(c)
        if isinstance(c, float):
            if c != c or c in (float("inf"), float("-inf")):
                return Poly.atom(("special", repr(c)))
            c = Fraction(repr(c))
        return Poly({(): Fraction(c)})

    @staticmethod
    def atom(a: Atom, exp=1) -> "Poly":
        return Poly({_mono_norm({a: Fraction(exp)})[0]: _mono_norm({a: Fraction(exp)})[1]})

    # -- queries
    def key(self):
        if self._key is None:
            self._key = tuple(sorted(((m, c) for m, c in self.terms.items()), key=_sort_key))
        return self._key

    def __eq__(self, other) -> bool:
        return isinstance(other, Poly) and self.key() == other.key()

    def __hash__(self) -> int:
        return hash(self.key())

    def is_const(self) -> bool:
        return all(m == () for m in self.terms)

    def const_value(self) -> Fraction | None:
        if not self.terms:
            return Fraction(0)
        if self.is_const():
            return self.terms[()]
        return None

    def is_zero(self) -> bool:
        return not self.terms

    def single_atom(self) -> Atom | None:
        """The atom if the polynomial is exactly ``1 * atom**1``."""
        if len(self.terms) == 1:
            (m, c), = self.terms.items()
            if c == 1 and len(m) == 1 and m[0][1] == 1:
                return m[0][0]
        return None

    def atoms(self) -> set:
        out = set()
        for m in self.terms:
            for a, _ in m:
                out.add(a)
        return out

    def all_atoms(self) -> set:
        """Atoms at any depth."""
        out = set()

        def rec(obj):
            if isinstance(obj, Poly):
                for m in obj.terms:
                    for a, _ in m:
                        rec(a)
            elif isinstance(obj, tuple):
                if obj and isinstance(obj[0], str):
                    out.add(obj)
                for x in obj:
                    rec(x)

        rec(self)
        return out

    def coefficient_of(self, atom: Atom) -> "Poly":
        """Coefficient polynomial of ``atom`` (degree exactly 1) - for affine reasoning."""
        res: dict = {}
        for m, c in self.terms.items():
            d = dict(m)
            if d.get(atom) == 1:
                del d[atom]
                mm, cc = _mono_norm(d)
                res[mm] = res.get(mm, 0) + c * cc
        return Poly(res)

    def without(self, atom: Atom) -> "Poly":
        return Poly({m: c for m, c in self.terms.items() if atom not in dict(m)})

    # -- arithmetic
    def __add__(self, o: "Poly") -> "Poly":
        r = dict(self.terms)
        for m, c in o.terms.items():
            r[m] = r.get(m, 0) + c
        return Poly(r)

    def __neg__(self) -> "Poly":
        return Poly({m: -c for m, c in self.terms.items()})

    def __sub__(self, o: "Poly") -> "Poly":
        return self + (-o)

    def __mul__(self, o: "Poly") -> "Poly":
        r: dict = {}
        for m1, c1 in self.terms.items():
            for m2, c2 in o.terms.items():
                d = dict(m1)
                for a, e in m2:
                    d[a] = d.get(a, 0) + e
                m, k = _mono_norm(d)
                r[m] = r.get(m, 0) + c1 * c2 * k
        return Poly(r)

    def inverse(self) -> "Poly":
        if len(self.terms) == 1:
            (m, c), = self.terms.items()
            d = {a: -e for a, e in m}
            mm, k = _mono_norm(d)
            return Poly({mm: k / c})
        if not self.terms:
            return Poly.atom(("special", "div0"))
        # normalise sign/scale of the polynomial atom so that (a-b)**-1 == -(b-a)**-1
        lead_m, lead_c = self.key()[0]
        scaled = Poly({m: c / lead_c for m, c in self.terms.items()})
        return Poly({(((("poly", scaled.key())), Fraction(-1)),): Fraction(1) / lead_c})

    def __truediv__(self, o: "Poly") -> "Poly":
        return self * o.inverse()

    def pow(self, e: "Poly") -> "Poly":
        ev = e.const_value()
        if ev is not None:
            if ev == 0:
                return Poly.const(1)
            if ev.denominator == 1 and 0 < ev <= 6:
                r = Poly.const(1)
                for _ in range(int(ev)):
                    r = r * self
                return r
            if len(self.terms) == 1:
                (m, c), = self.terms.items()
                d = {a: x * ev for a, x in m}
                coef = Poly.const(1)
                if c != 1:
                    if ev.denominator == 1:
                        coef = Poly.const(Fraction(c) ** int(ev))
                    else:
                        # rational power of a rational constant: keep as numeric atoms
                        coef = _num_pow(c, ev)
                mm, k = _mono_norm(d)
                return Poly({mm: k}) * coef
            if ev.denominator == 1 and ev < 0:
                return self.pow(Poly.const(-ev)).inverse()
            lead_m, lead_c = self.key()[0]
            scaled = Poly({m: c / lead_c for m, c in self.terms.items()})
            base = Poly({((("poly", scaled.key()), ev),): Fraction(1)})
            return base * _num_pow(lead_c, ev)
        return Poly.atom(("pow", self.key(), e.key()))

    def __repr__(self) -> str:
        return f"Poly({show(self)})"


def _num_pow(c: Fraction, ev: Fraction) -> Poly:
    """c**ev for rational c, ev (c > 0 assumed for fractional ev)."""
    if ev.denominator == 1:
        return Poly.const(Fraction(c) ** int(ev))
    r = Poly.const(1)
    for part, sign in ((c.numerator, 1), (c.denominator, -1)):
        if part == 1:
            continue
        if part < 0:
            return Poly.atom(("numpow", str(c), str(ev)))
        r = r * Poly({_mono_norm({("num", part): ev * sign})[0]: _mono_norm({("num", part): ev * sign})[1]})
    return r


def _mono_norm(d: dict) -> tuple[Mono, Fraction]:
    """Normalise a monomial given as {atom: exponent}; returns (monomial, extra coefficient)."""
    coef = Fraction(1)
    out: dict = {}
    exp_arg: Poly | None = None
    for a, e in d.items():
        if e == 0:
            continue
        if a[0] == "exp":
            arg = Poly(dict(a[1])) * Poly.const(e)
            exp_arg = arg if exp_arg is None else exp_arg + arg
            continue
        if a[0] == "num":
            # integer ** rational: fold integer exponents into the coefficient
            whole = e.numerator // e.denominator
            frac = e - whole
            if whole:
                coef *= Fraction(a[1]) ** whole
            if frac:
                out[a] = out.get(a, 0) + frac
            continue
        out[a] = out.get(a, 0) + e
    if exp_arg is not None and not exp_arg.is_zero():
        cv = exp_arg.const_value()
        if cv is not None and cv == 0:
            pass
        else:
            out[("exp", exp_arg.key())] = Fraction(1)
    items = tuple(sorted(((a, e) for a, e in out.items() if e != 0), key=_sort_key))
    return items, coef


# --------------------------------------------------------------------- pretty
def show(p, depth: int = 0) -> str:
    if isinstance(p, Poly):
        if not p.terms:
            return "0"
        parts = []
        for m, c in p.key():
            fs = []
            for a, e in m:
                s = show_atom(a, depth)
                fs.append(s if e == 1 else f"{s}^{e}")
            body = "*".join(fs)
            if not body:
                parts.append(str(c))
            elif c == 1:
                parts.append(body)
            elif c == -1:
                parts.append("-" + body)
            else:
                parts.append(f"{c}*{body}")
        return " + ".join(parts)
    return show_atom(p, depth)


def _show_key(k, depth) -> str:
    """k is a Poly key (tuple of (mono, coeff))."""
    try:
        return show(Poly(dict(k)), depth + 1)
    except Exception:
        return repr(k)


def show_atom(a, depth: int = 0) -> str:
    if not isinstance(a, tuple) or not a:
        return repr(a)
    tag = a[0]
    if tag == "name":
        return a[1]
    if tag == "num":
        return str(a[1])
    if tag == "str":
        return repr(a[1])
    if tag in ("exp", "poly"):
        return f"{'exp' if tag == 'exp' else ''}({_show_key(a[1], depth)})"
    if tag == "call":
        return f"{a[1]}({', '.join(_show_key(x, depth) if _is_key(x) else show_atom(x, depth) for x in a[2])})"
    if tag == "attr":
        return f"{_show_any(a[1], depth)}.{a[2]}"
    if tag == "sub":
        return f"{_show_any(a[1], depth)}[{_show_any(a[2], depth)}]"
    if tag == "T":
        return f"{_show_any(a[1], depth)}.T"
    return f"{tag}<{', '.join(_show_any(x, depth) for x in a[1:])}>"


def _is_key(x) -> bool:
    return (
        isinstance(x, tuple)
        and all(isinstance(i, tuple) and len(i) == 2 and isinstance(i[1], Fraction) for i in x)
    )


def _show_any(x, depth) -> str:
    if _is_key(x) and x != ():
        return _show_key(x, depth)
    if isinstance(x, tuple) and x and isinstance(x[0], str):
        return show_atom(x, depth)
    if isinstance(x, tuple):
        return "(" + ", ".join(_show_any(i, depth) for i in x) + ")"
    return str(x)


# ------------------------------------------------------------------ renaming
def rename_names(p: Poly, mapping: dict) -> Poly:
    """Rename ("name", x) atoms at any depth (used to compare a function with a reference positionally)."""

    def ren_any(x):
        if isinstance(x, Fraction) or x is None or isinstance(x, (str, int, float, bool)):
            return x
        if isinstance(x, tuple):
            if _is_key(x) and x != ():
                return rename_names(Poly(dict(x)), mapping).key()
            if x and x[0] == "name" and len(x) == 2 and isinstance(x[1], str):
                return ("name", mapping.get(x[1], x[1]))
            return tuple(ren_any(i) for i in x)
        return x

    out = Poly()
    for m, c in p.terms.items():
        term = Poly.const(c)
        for a, e in m:
            na = ren_any(a)
            term = term * Poly.atom(na, e)
        out = out + term
    return out
