"""A6 - effects, freshness and ownership.

``origin(fl, expr, at)`` classifies where the object an expression denotes comes from:

* ``fresh``     allocated in this call (constructor, arithmetic result, ``.copy()``, literal,
                comprehension, a repo callee whose every return is fresh)
* ``scalar``    immutable number / string (in-place operators rebind, they do not mutate)
* ``param:<p>`` the caller's object (parameter, attribute/element/view of a parameter)
* ``state:<a>`` object stored on ``self`` (owned, persistent across calls)
* ``global:<n>`` module level object
* ``unknown``

``mutations(fi)`` enumerates every in-place mutation site of a function with the origin
of the mutated object.  ``mutated_params(fi)`` is the per function summary (which
parameters may be mutated in place, directly or through callees), computed to a fixpoint
over the resolved call graph.
"""

from __future__ import annotations

import ast
from dataclasses import dataclass

from glint import lib
from glint.callgraph import env_of
from glint.dataflow import Flow
from glint.dataflow import _targets
from glint.dataflow import var_of_target
from glint.index import FunctionInfo
from glint.index import Repo
from glint.index import norm
from glint.index import walk_no_nested

VIEW_ATTRS = {"T", "real", "imag", "data", "values", "flat", "coords", "attrs", "loc", "iloc", "dims"}
VIEW_METHODS = {
    "reshape", "ravel", "view", "squeeze", "transpose", "swapaxes", "sel", "isel", "get", "items", "values", "keys",
    "to_numpy", "__getitem__", "setdefault", "pop", "expand_dims", "diagonal",
}
FRESH_METHODS = {
    "copy", "astype", "flatten", "tolist", "sum", "mean", "min", "max", "dot", "argmin", "argmax", "cumsum", "round",
    "deepcopy", "split", "join", "format", "replace", "strip", "lower", "upper", "index", "count", "to_list", "to_dict",
    "to_dataset", "dropna", "fillna", "groupby", "unstack", "stack", "rename", "drop", "drop_vars", "item", "conj",
    "nonzero", "any", "all", "std", "prod", "clip", "repeat", "tobytes", "as_posix", "resolve", "read", "markdown",
    "as_dict", "as_list", "to_dataframe", "to_parameter_dict_list", "getvalue", "findall", "sub", "fullmatch", "match",
}
VIEW_FUNCS = {
    "numpy.asarray", "numpy.asanyarray", "numpy.atleast_1d", "numpy.atleast_2d", "numpy.atleast_3d", "numpy.ravel",
    "numpy.reshape", "numpy.squeeze", "numpy.transpose", "numpy.broadcast_to", "numpy.swapaxes", "numpy.real",
    "numpy.imag", "numpy.diag", "numpy.diagonal", "numpy.ascontiguousarray", "numpy.asfortranarray", "iter", "reversed",
    "typing.cast", "cast", "next",
}
SCALAR_FUNCS = {"len", "int", "float", "str", "bool", "abs", "round", "min", "max", "sum", "repr", "isinstance", "hash", "id"}
SCALAR_ATTRS = {"size", "ndim", "label", "name", "value", "scale", "stem", "suffix"}
SCALAR_ANNOTATIONS = {"int", "float", "str", "bool", "float | None", "int | None", "str | None", "bool | None"}
MUTATING_METHODS = {
    "sort", "fill", "resize", "put", "itemset", "partition", "setfield", "byteswap",  # ndarray
    "append", "extend", "insert", "remove", "clear", "reverse", "pop", "popitem", "update", "setdefault", "add", "discard",
}
MUTATING_FUNCS = {"numpy.copyto": 0, "numpy.put": 0, "numpy.place": 0, "numpy.putmask": 0, "numpy.fill_diagonal": 0,
                  "numpy.put_along_axis": 0, "setattr": 0, "delattr": 0, "random.shuffle": 0, "numpy.random.shuffle": 0}


@dataclass
class Mutation:
    node: ast.AST  # statement / call performing the mutation
    target: ast.AST  # expression denoting the mutated object
    how: str  # augassign / subscript-store / attr-store / method:<m> / out= / call:<callee>(param i)
    origin: str


def merge(origins: list[str]) -> str:
    os_ = [o for o in origins if o]
    if not os_:
        return "unknown"
    if all(o == "scalar" for o in os_):
        return "scalar"
    rest = [o for o in os_ if o != "scalar"]
    # None / scalars merged with objects: the object decides
    for kind in ("param:", "global:", "state:", "unknown"):
        for o in rest:
            if o.startswith(kind):
                return o
    return "fresh"


class Effects:
    def __init__(self, repo: Repo):
        self.repo = repo
        self._ret: dict[str, str] = {}
        self._ret_busy: set[str] = set()
        self._mut: dict[str, set[int]] | None = None
        self.unresolved_calls = 0
        self._cenv: dict[str, str] = {}
        # mutations inside these functions are idempotent refreshes and do not count as effects
        self.idempotent: set[str] = set()
        # (caller short name, callee name) call edges whose effect is an accepted, documented exception
        self.cut: set[tuple[str, str]] = set()

    # ------------------------------------------------------------------ origin
    def origin(self, fl: Flow, e: ast.AST, at, depth: int = 8, _busy=frozenset()) -> str:
        fi = fl.fi
        if depth <= 0:
            return "unknown"
        if isinstance(e, ast.Constant):
            return "scalar"
        if isinstance(e, (ast.JoinedStr, ast.Compare, ast.BoolOp)) and not isinstance(e, ast.BoolOp):
            return "scalar" if isinstance(e, ast.JoinedStr) else "fresh"
        if isinstance(e, ast.BoolOp):
            return merge([self.origin(fl, v, at, depth - 1, _busy) for v in e.values])
        if isinstance(e, (ast.List, ast.Tuple, ast.Dict, ast.Set, ast.ListComp, ast.DictComp, ast.SetComp, ast.GeneratorExp, ast.Lambda)):
            return "fresh"
        if isinstance(e, ast.BinOp):
            l = self.origin(fl, e.left, at, depth - 1, _busy)
            r = self.origin(fl, e.right, at, depth - 1, _busy)
            return "scalar" if l == "scalar" and r == "scalar" else "fresh"
        if isinstance(e, ast.UnaryOp):
            o = self.origin(fl, e.operand, at, depth - 1, _busy)
            return "scalar" if o == "scalar" else "fresh"
        if isinstance(e, ast.IfExp):
            return merge([self.origin(fl, e.body, at, depth - 1, _busy), self.origin(fl, e.orelse, at, depth - 1, _busy)])
        if isinstance(e, ast.NamedExpr):
            return self.origin(fl, e.value, at, depth - 1, _busy)
        if isinstance(e, ast.Starred):
            return self.origin(fl, e.value, at, depth - 1, _busy)
        if isinstance(e, ast.Name):
            return self._name_origin(fl, e.id, at, depth, _busy)
        if isinstance(e, ast.Attribute):
            ch = lib.attr_chain(e)
            if ch and ch[0] in ("self", "cls") and len(ch) >= 2:
                if e.attr in SCALAR_ATTRS and len(ch) > 2:
                    return "scalar"
                return f"state:{'.'.join(ch[:2])}"
            if e.attr in SCALAR_ATTRS:
                return "scalar"
            base = self.origin(fl, e.value, at, depth - 1, _busy)
            if e.attr == "shape":
                return "scalar"
            return base if base != "scalar" else "unknown"
        if isinstance(e, ast.Subscript):
            if isinstance(e.value, ast.Attribute) and e.value.attr == "shape":
                return "scalar"
            pv = var_of_target(e)
            if pv is not None and "[" in pv and fl.reaching(pv, at):
                return self._name_origin(fl, pv, at, depth, _busy)
            if isinstance(e.value, ast.Name) and isinstance(e.slice, ast.Constant):
                ds = fl.reaching(e.value.id, at)
                if ds and all(d.kind == "assign" and isinstance(d.value, ast.Dict) for d in ds):
                    outs = []
                    for d in ds:
                        for k, v in zip(d.value.keys, d.value.values):
                            if isinstance(k, ast.Constant) and k.value == e.slice.value:
                                outs.append(self.origin(fl, v, d.node, depth - 1, _busy))
                    if outs:
                        return merge(outs)
            el = self._element_origin(fl, e.value, at, depth - 1, _busy)
            if el is not None:
                return el
            base = self.origin(fl, e.value, at, depth - 1, _busy)
            # fancy / boolean indexing copies, basic indexing is a view: be conservative (view)
            return base
        if isinstance(e, ast.Call):
            return self._call_origin(fl, e, at, depth, _busy)
        if isinstance(e, ast.Await):
            return "unknown"
        return "unknown"

    def comp_elem_origin(self, fl: Flow, comp: ast.AST, at, depth: int = 8, _busy=frozenset()) -> str:
        """Origin of the elements (values for dicts) of a comprehension / literal container."""
        if isinstance(comp, (ast.List, ast.Tuple, ast.Set)):
            return merge([self.origin(fl, x, at, depth - 1, _busy) for x in comp.elts]) if comp.elts else "fresh"
        if isinstance(comp, ast.Dict):
            return merge([self.origin(fl, x, at, depth - 1, _busy) for x in comp.values]) if comp.values else "fresh"
        if isinstance(comp, (ast.ListComp, ast.SetComp, ast.GeneratorExp, ast.DictComp)):
            saved = dict(self._cenv)
            try:
                for g in comp.generators:
                    for t, path in _targets(g.target):
                        if isinstance(t, ast.Name):
                            self._cenv[t.id] = self._iter_elem_origin(fl, g.iter, path, at, depth - 1, _busy)
                elt = comp.value if isinstance(comp, ast.DictComp) else comp.elt
                return self.origin(fl, elt, at, depth - 1, _busy)
            finally:
                self._cenv = saved
        return "unknown"

    def _element_origin(self, fl: Flow, base: ast.AST, at, depth, _busy) -> str | None:
        """Element origin when ``base`` is a local container built by a literal/comprehension."""
        if isinstance(base, (ast.ListComp, ast.DictComp, ast.List, ast.Dict)):
            return self.comp_elem_origin(fl, base, at, depth, _busy)
        if isinstance(base, ast.Name) and base.id not in self._cenv:
            defs = fl.reaching(base.id, at)
            if defs and all(d.kind == "assign" and isinstance(d.value, (ast.ListComp, ast.DictComp, ast.List, ast.Dict))
                            for d in defs):
                # elements stored later into the container also count
                outs = [self.comp_elem_origin(fl, d.value, d.node, depth, _busy) for d in defs]
                for t, st in lib.stores(fl.fi):
                    if isinstance(t, ast.Subscript) and isinstance(t.value, ast.Name) and t.value.id == base.id \
                            and isinstance(st, ast.Assign):
                        outs.append(self.origin(fl, st.value, st, depth - 1, _busy))
                for c in lib.method_calls(fl.fi, "append"):
                    if isinstance(c.func.value, ast.Name) and c.func.value.id == base.id and c.args:
                        outs.append(self.origin(fl, c.args[0], lib.stmt_of(c), depth - 1, _busy))
                return merge(outs)
        return None

    def _name_origin(self, fl: Flow, var: str, at, depth, _busy) -> str:
        if var in self._cenv:
            return self._cenv[var]
        defs = fl.reaching(var, at)
        if not defs:
            q = self.repo.resolve_name(fl.fi.module, var)
            if q is not None:
                return f"global:{q}"
            return f"global:{var}"
        outs = []
        for d in defs:
            if d in _busy:
                continue
            b2 = _busy | {d}
            if d.kind == "param":
                ann = None
                a = fl.fi.node.args
                for arg in a.posonlyargs + a.args + a.kwonlyargs:
                    if arg.arg == var:
                        ann = arg.annotation
                if ann is not None and norm(ann) in SCALAR_ANNOTATIONS:
                    outs.append("scalar")
                else:
                    outs.append(f"param:{var}")
            elif d.kind in ("assign", "walrus"):
                outs.append(self.origin(fl, d.value, d.node, depth - 1, b2))
            elif d.kind == "aug":
                prev = self._name_origin(fl, var, d.node, depth - 1, b2)
                outs.append(prev if prev != "unknown" else self.origin(fl, d.value, d.node, depth - 1, b2))
            elif d.kind == "unpack":
                v = d.value
                cur = v
                ok = True
                for p in d.path:
                    if isinstance(cur, (ast.Tuple, ast.List)) and isinstance(p, int) and p < len(cur.elts):
                        cur = cur.elts[p]
                    else:
                        ok = False
                        break
                if ok:
                    outs.append(self.origin(fl, cur, d.node, depth - 1, b2))
                elif isinstance(v, ast.Call):
                    outs.append(self._call_origin(fl, v, d.node, depth - 1, b2, item=d.path))
                else:
                    outs.append(self.origin(fl, v, d.node, depth - 1, b2))
            elif d.kind == "for":
                outs.append(self._iter_elem_origin(fl, d.value, d.path, d.node, depth - 1, b2))
            elif d.kind == "with":
                outs.append(self.origin(fl, d.value, d.node, depth - 1, b2))
            elif d.kind in ("import", "def"):
                outs.append(f"global:{var}")
            elif d.kind == "except":
                outs.append("fresh")
            else:
                outs.append("unknown")
        return merge(outs)

    def _iter_elem_origin(self, fl, it, path, at, depth, _busy) -> str:
        if isinstance(it, ast.Call):
            f = norm(it.func)
            if f in ("range", "nb.prange", "numba.prange"):
                return "scalar"
            if f == "enumerate" and it.args:
                if path[:1] == (0,):
                    return "scalar"
                return self._iter_elem_origin(fl, it.args[0], path[1:], at, depth, _busy)
            if f == "zip" and path and isinstance(path[0], int) and path[0] < len(it.args):
                return self._iter_elem_origin(fl, it.args[path[0]], path[1:], at, depth, _busy)
            if isinstance(it.func, ast.Attribute) and it.func.attr in ("items", "values", "keys") and not it.args:
                if it.func.attr == "keys" or (it.func.attr == "items" and path[:1] == (0,)):
                    return "scalar"
                return self.origin(fl, it.func.value, at, depth, _busy)
        el = self._element_origin(fl, it, at, depth, _busy)
        if el is not None:
            return el
        o = self.origin(fl, it, at, depth, _busy)
        return o

    def _call_origin(self, fl: Flow, e: ast.Call, at, depth, _busy, item: tuple = ()) -> str:
        repo = self.repo
        fi = fl.fi
        q = repo.resolve_expr(fi.module, e.func)
        fname = q or norm(e.func)
        last = e.func.attr if isinstance(e.func, ast.Attribute) else fname.split(".")[-1]
        if fname in SCALAR_FUNCS or last in SCALAR_FUNCS and isinstance(e.func, ast.Name):
            return "scalar"
        if fname in VIEW_FUNCS:
            return self.origin(fl, e.args[0], at, depth - 1, _busy) if e.args else "unknown"
        if fname in ("numpy.array",):
            cp = next((k.value for k in e.keywords if k.arg == "copy"), None)
            if cp is not None and isinstance(cp, ast.Constant) and cp.value is False:
                return self.origin(fl, e.args[0], at, depth - 1, _busy)
            return "fresh"
        root = e.func
        while isinstance(root, ast.Attribute):
            root = root.value
        root_is_module = isinstance(root, ast.Name) and root.id in fi.module.imports and not fl.defs_of(root.id)
        if isinstance(e.func, ast.Attribute) and not root_is_module or (isinstance(e.func, ast.Attribute) and q is None):
            # method call on an object
            meth = e.func.attr
            callees, typed = env_of(repo, fi).callees(e)
            if callees and typed:
                return merge([self._map_ret(fl, e, c, self.returns(c, item), at, depth, _busy) for c in callees])
            if meth in FRESH_METHODS:
                return "fresh"
            if meth in VIEW_METHODS:
                return self.origin(fl, e.func.value, at, depth - 1, _busy)
            if callees and len(callees) <= 12:
                return merge([self._map_ret(fl, e, c, self.returns(c, item), at, depth, _busy) for c in callees])
            return "unknown"
        if q in repo.classes:
            return "fresh"
        if q in repo.functions:
            return self._map_ret(fl, e, repo.functions[q], self.returns(repo.functions[q], item), at, depth, _busy)
        if isinstance(e.func, ast.Name):
            callees, typed = env_of(repo, fi).callees(e)
            if callees:
                return merge([self._map_ret(fl, e, c, self.returns(c, item), at, depth, _busy) for c in callees])
            if e.func.id in ("list", "dict", "set", "tuple", "sorted", "filter", "map", "zip", "enumerate", "range", "slice",
                             "evolve", "replace", "deepcopy", "copy", "type", "getattr", "open", "print", "vars"):
                if e.func.id == "getattr":
                    return self.origin(fl, e.args[0], at, depth - 1, _busy) if e.args else "unknown"
                return "fresh"
            o = self._name_origin(fl, e.func.id, at, depth - 1, _busy)
            if o.startswith("param:") or o.startswith("state:"):
                return "unknown"  # calling a callable parameter
            return "fresh"
        if root_is_module:
            return "fresh"  # any other library function returns a new object
        return "unknown"

    def _map_ret(self, fl, call: ast.Call, callee: FunctionInfo, ret: str, at, depth, _busy) -> str:
        """Translate a callee's 'borrowed-param:i' return class into the origin of the argument."""
        if not ret.startswith("borrowed-param:"):
            return "unknown" if ret.startswith("borrowed") else ret
        idx_s = ret.split(":")[1]
        if idx_s == "?":
            return "unknown"
        idx = int(idx_s)
        cparams = callee.params()
        offset = 1 if (callee.cls is not None and not callee.is_static() and isinstance(call.func, ast.Attribute)) else 0
        arg = None
        if idx == 0 and offset == 1:
            arg = call.func.value
        elif 0 <= idx - offset < len(call.args):
            arg = call.args[idx - offset]
        elif idx < len(cparams):
            arg = next((k.value for k in call.keywords if k.arg == cparams[idx]), None)
        if arg is None:
            return "unknown"
        return self.origin(fl, arg, at, depth - 1, _busy)

    def returns(self, callee: FunctionInfo, item: tuple = ()) -> str:
        """Origin class of what a repo function returns: fresh / scalar / borrowed(param,state) / unknown."""
        key = f"{callee.qualname}|{item}"
        if key in self._ret:
            return self._ret[key]
        if key in self._ret_busy:
            return "fresh"
        self._ret_busy.add(key)
        try:
            fl = lib.flow(callee, self.repo)
            outs = []
            yields = [n for n in walk_no_nested(callee.node) if isinstance(n, (ast.Yield, ast.YieldFrom))]
            params = callee.params()

            def classify(o: str) -> str:
                if o.startswith("param:"):
                    p = o[6:]
                    return f"borrowed-param:{params.index(p)}" if p in params else "borrowed-param:?"
                if o.startswith("state:"):
                    return "borrowed-param:0"  # state of the receiver
                if o.startswith("global:"):
                    return "borrowed-global"
                return o

            if yields:
                for y in yields:
                    if y.value is None:
                        continue
                    st = lib.stmt_of(y)
                    if isinstance(y, ast.YieldFrom):
                        o = self._iter_elem_origin(fl, y.value, (), fl.cfg.node(st), 6, frozenset())
                    else:
                        v = y.value
                        for p in item:
                            if isinstance(v, ast.Tuple) and isinstance(p, int) and p < len(v.elts):
                                v = v.elts[p]
                        o = self.origin(fl, v, st)
                    outs.append(classify(o))
            else:
                for r in lib.nodes(callee, ast.Return):
                    if r.value is None:
                        outs.append("scalar")
                        continue
                    v = r.value
                    cur = v
                    ok = True
                    for p in item:
                        if isinstance(cur, ast.Tuple) and isinstance(p, int) and p < len(cur.elts):
                            cur = cur.elts[p]
                        else:
                            ok = False
                            break
                    outs.append(classify(self.origin(fl, cur if ok else v, r)))
            if not outs:
                raises_only = all(isinstance(s, (ast.Raise, ast.Expr, ast.Pass)) for s in lib.docless_body(callee.node))
                res = "fresh" if raises_only or yields else "scalar"
            else:
                res = "scalar" if all(o == "scalar" for o in outs) else None
                if res is None:
                    rest = [o for o in outs if o != "scalar"]
                    bad = [o for o in rest if o != "fresh"]
                    res = bad[0] if bad else "fresh"
        finally:
            self._ret_busy.discard(key)
        self._ret[key] = res
        return res

    # ---------------------------------------------------------------- mutations
    def mutations(self, fi: FunctionInfo) -> list[Mutation]:
        repo = self.repo
        fl = lib.flow(fi, repo)
        out: list[Mutation] = []
        for n in walk_no_nested(fi.node):
            if isinstance(n, ast.AugAssign):
                t = n.target
                if isinstance(t, ast.Name):
                    o = self.origin(fl, t, n)
                    out.append(Mutation(n, t, "augassign", o))
                elif isinstance(t, ast.Subscript):
                    out.append(Mutation(n, t.value, "subscript-augassign", self.origin(fl, t.value, n)))
                elif isinstance(t, ast.Attribute):
                    out.append(Mutation(n, t.value, f"attr-augassign:{t.attr}", self.origin(fl, t.value, n)))
            elif isinstance(n, ast.Assign):
                for tgt in n.targets:
                    for t in lib._flatten_target(tgt):
                        if isinstance(t, ast.Subscript):
                            out.append(Mutation(n, t.value, "subscript-store", self.origin(fl, t.value, n)))
                        elif isinstance(t, ast.Attribute):
                            out.append(Mutation(n, t.value, f"attr-store:{t.attr}", self.origin(fl, t.value, n)))
            elif isinstance(n, ast.AnnAssign) and n.value is not None:
                t = n.target
                if isinstance(t, ast.Subscript):
                    out.append(Mutation(n, t.value, "subscript-store", self.origin(fl, t.value, n)))
                elif isinstance(t, ast.Attribute):
                    out.append(Mutation(n, t.value, f"attr-store:{t.attr}", self.origin(fl, t.value, n)))
            elif isinstance(n, ast.Delete):
                for t in n.targets:
                    if isinstance(t, ast.Subscript):
                        out.append(Mutation(n, t.value, "subscript-delete", self.origin(fl, t.value, n)))
                    elif isinstance(t, ast.Attribute):
                        out.append(Mutation(n, t.value, f"attr-delete:{t.attr}", self.origin(fl, t.value, n)))
            elif isinstance(n, ast.Call):
                st = lib.stmt_of(n)
                if isinstance(n.func, ast.Attribute) and n.func.attr in MUTATING_METHODS:
                    callees, typed = env_of(repo, fi).callees(n)
                    if not (callees and typed):  # not a repo method of that name
                        out.append(Mutation(n, n.func.value, f"method:{n.func.attr}", self.origin(fl, n.func.value, st)))
                q = repo.resolve_expr(fi.module, n.func) or norm(n.func)
                if q in MUTATING_FUNCS and n.args:
                    a = n.args[MUTATING_FUNCS[q]]
                    out.append(Mutation(n, a, f"func:{q}", self.origin(fl, a, st)))
                for k in n.keywords:
                    if k.arg == "out":
                        out.append(Mutation(n, k.value, "out=", self.origin(fl, k.value, st)))
        return out

    def mutated_params(self) -> dict[str, set[int]]:
        """Fixpoint summary: function -> indexes of parameters that may be mutated in place."""
        if self._mut is not None:
            return self._mut
        repo = self.repo
        mut: dict[str, set[int]] = {q: set() for q in repo.functions}
        direct: dict[str, list[Mutation]] = {}
        for q, fi in repo.functions.items():
            ms = self.mutations(fi) if q not in self.idempotent else []
            direct[q] = ms
            params = fi.params()
            for m in ms:
                if m.origin.startswith("param:"):
                    p = m.origin[6:]
                    if p in params:
                        mut[q].add(params.index(p))
        changed = True
        rounds = 0
        while changed and rounds < 10:
            changed = False
            rounds += 1
            for q, fi in repo.functions.items():
                fl = lib.flow(fi, repo)
                params = fi.params()
                env = env_of(repo, fi)
                for c in lib.calls(fi):
                    callees, typed = env.callees(c)
                    if not typed:
                        self.unresolved_calls += 1
                        continue
                    for callee in callees:
                        cm = mut.get(callee.qualname)
                        if not cm or (fi.short, callee.name) in self.cut:
                            continue
                        cparams = callee.params()
                        offset = 1 if (callee.cls is not None and not callee.is_static() and isinstance(c.func, ast.Attribute)) else 0
                        if callee.name == "__init__":
                            offset = 1
                        for idx in cm:
                            arg = None
                            if idx - offset >= 0 and idx - offset < len(c.args):
                                arg = c.args[idx - offset]
                            elif idx < len(cparams):
                                arg = next((k.value for k in c.keywords if k.arg == cparams[idx]), None)
                            if idx == 0 and offset == 1 and isinstance(c.func, ast.Attribute):
                                arg = c.func.value
                            if arg is None:
                                continue
                            o = self.origin(fl, arg, lib.stmt_of(c))
                            if o.startswith("param:"):
                                p = o[6:]
                                if p in params and params.index(p) not in mut[q]:
                                    mut[q].add(params.index(p))
                                    changed = True
        self._mut = mut
        self._direct = direct
        return mut

    def call_mutations(self, fi: FunctionInfo) -> list[Mutation]:
        """Mutations performed *through callees* on arguments of calls in ``fi``."""
        repo = self.repo
        mut = self.mutated_params()
        fl = lib.flow(fi, repo)
        env = env_of(repo, fi)
        out = []
        for c in lib.calls(fi):
            callees, typed = env.callees(c)
            if not typed:
                continue
            for callee in callees:
                cm = mut.get(callee.qualname)
                if not cm:
                    continue
                cparams = callee.params()
                offset = 1 if (callee.cls is not None and not callee.is_static() and isinstance(c.func, ast.Attribute)) else 0
                if callee.name == "__init__":
                    offset = 1
                for idx in sorted(cm):
                    arg = None
                    if idx == 0 and offset == 1 and isinstance(c.func, ast.Attribute):
                        arg = c.func.value
                    elif 0 <= idx - offset < len(c.args):
                        arg = c.args[idx - offset]
                    elif idx < len(cparams):
                        arg = next((k.value for k in c.keywords if k.arg == cparams[idx]), None)
                    if arg is None:
                        continue
                    out.append(Mutation(c, arg, f"call:{callee.short}(param {cparams[idx] if idx < len(cparams) else idx})",
                                        self.origin(fl, arg, lib.stmt_of(c))))
        return out


_EFF: dict = {}


def effects(repo: Repo) -> Effects:
    e = _EFF.get(id(repo))
    if e is None:
        e = Effects(repo)
        _EFF[id(repo)] = e
    return e
