"""Validation of the checker itself (DESIGN section 7).

For every entry of ``glint/mutants/*.py`` a scratch copy of the analysed universe is made
*outside* /repo and /verif (``tempfile.mkdtemp``), one textual edit is applied, the copy is
parsed (``compile`` is the only execution-like step) and the property's rules are run on
it in-process.  ``fire`` mutants must be reported by the named rule, ``silent`` twins
(behaviour preserving edits) must leave the check green.  Nothing is written to
``evidence/``; the scratch copy is removed immediately.

usage: python -m glint.selftest [Cxx ...] [-j N] [--list]
"""

from __future__ import annotations

import importlib
import os
import pkgutil
import shutil
import sys
import tempfile
import time
from concurrent.futures import ProcessPoolExecutor

from glint import REPO_ROOT
from glint.index import AnalysisError
from glint.index import Repo
from glint.index import is_test_path
from glint.report import Ctx
from glint.report import load_known
from glint.report import match_known


def load_mutants() -> list[dict]:
    import glint.mutants as mp

    out = []
    for m in pkgutil.iter_modules(mp.__path__):
        mod = importlib.import_module(f"glint.mutants.{m.name}")
        for mu in getattr(mod, "MUTANTS", []):
            mu = dict(mu)
            mu.setdefault("expect", "fire")
            out.append(mu)
    return out


def make_copy(root: str) -> str:
    tmp = tempfile.mkdtemp(prefix="glint-mut-")
    src = os.path.join(root, "glotaran")
    for dirpath, dirnames, filenames in os.walk(src):
        for fn in filenames:
            if not fn.endswith(".py"):
                continue
            full = os.path.join(dirpath, fn)
            rel = os.path.relpath(full, root)
            if is_test_path(rel.replace(os.sep, "/")):
                continue
            dst = os.path.join(tmp, rel)
            os.makedirs(os.path.dirname(dst), exist_ok=True)
            shutil.copyfile(full, dst)
    return tmp


def apply_edits(tmp: str, mu: dict) -> str | None:
    edits = mu.get("edits") or [(mu["file"], mu["old"], mu["new"])]
    for file, old, new in edits:
        p = os.path.join(tmp, file)
        if not os.path.exists(p):
            return f"file {file} missing"
        s = open(p, encoding="utf-8").read()
        if s.count(old) != 1:
            return f"pattern occurs {s.count(old)} times in {file} (stale mutant): {old[:60]!r}"
        s = s.replace(old, new)
        try:
            compile(s, file, "exec")
        except SyntaxError as e:
            return f"mutant does not compile: {e}"
        open(p, "w", encoding="utf-8").write(s)
    return None


def run_one(mu: dict) -> dict:
    from glint.rules import RULES

    tmp = make_copy(REPO_ROOT)
    res = {"id": mu["id"], "prop": mu["prop"], "expect": mu["expect"], "rule": mu.get("rule", "")}
    try:
        err = apply_edits(tmp, mu)
        if err:
            res.update(status="STALE", detail=err)
            return res
        try:
            repo = Repo(tmp)
            ctx = Ctx(repo, mu["prop"], mu.get("tier", "quick"))
            from glint.cli import run_rules

            run_rules(RULES[mu["prop"]], ctx)
            known, _ = load_known()
            viol = [o for o in ctx.obligations if not o.ok and match_known(o, mu["prop"], known) is None]
            res["violations"] = [f"{o.rule} {o.instance}" for o in viol]
            fired = bool(viol)
            if ctx.shortfalls and not fired:
                raise AnalysisError("; ".join(ctx.shortfalls))
            if mu["expect"] == "fire":
                want_rule = mu.get("rule")
                hit = fired and (want_rule is None or any(o.rule == want_rule for o in viol))
                res["status"] = "OK" if hit else ("WRONG-RULE" if fired else "SURVIVOR")
            else:
                res["status"] = "OK" if not fired else "FALSE-ALARM"
        except Exception as e:  # AnalysisError or an internal error: the CLI turns both into exit 2
            import traceback

            res["violations"] = [f"ANALYSIS-ERROR {type(e).__name__}: {e}", traceback.format_exc()[-600:]]
            if mu["expect"] == "fire" and mu.get("accept_analysis_error"):
                res["status"] = "OK"
            else:
                res["status"] = "ANALYSIS-ERROR"
    finally:
        shutil.rmtree(tmp, ignore_errors=True)
    return res


def main(argv=None) -> int:
    argv = list(sys.argv[1:] if argv is None else argv)
    jobs = os.cpu_count() or 4
    if "-j" in argv:
        i = argv.index("-j")
        jobs = int(argv[i + 1])
        del argv[i : i + 2]
    want = [a.upper() for a in argv if not a.startswith("-")]
    ids = [a[5:] for a in argv if a.startswith("--id=")]
    mutants = [m for m in load_mutants() if (not want or m["prop"] in want) and (not ids or m["id"] in ids)]
    if "--list" in argv:
        for m in mutants:
            print(m["prop"], m["expect"], m["id"], m.get("rule", ""))
        return 0
    t0 = time.time()
    with ProcessPoolExecutor(max_workers=jobs) as ex:
        results = list(ex.map(run_one, mutants))
    bad = 0
    for r in results:
        if r["status"] != "OK":
            bad += 1
            print(f"SELFTEST-{r['status']} {r['prop']} {r['id']} expect={r['expect']} rule={r['rule']} "
                  f"{r.get('detail', '')} {r.get('violations', '')}")
    nf = sum(1 for r in results if r["expect"] == "fire")
    print(f"selftest: {len(results)} variants ({nf} firing, {len(results) - nf} silent twins), "
          f"{bad} not as expected, {time.time() - t0:.1f}s")
    return 1 if bad else 0


if __name__ == "__main__":
    sys.exit(main())
