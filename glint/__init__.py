"""glint - repository specific static analysis for glotaran/pyglotaran.

Everything in this package decides from source text (``ast``) only.  Nothing
under ``/repo`` is imported or executed.
"""

__all__ = ["REPO_ROOT", "PACKAGE"]

import os

REPO_ROOT = os.environ.get("GLINT_REPO", "/repo")
PACKAGE = "glotaran"
