"""Setup-time self check of the engine on tiny fixtures (no access to /repo needed)."""

from __future__ import annotations

import ast
import sys

from glint.cfg import CFG
from glint.terms import Poly


def main() -> int:
    src = '''
def f(x, flag):
    try:
        y = g(x)
    except Exception as e:
        if flag:
            raise e
        y = 0
    return y
'''
    fn = ast.parse(src).body[0]
    for n in ast.walk(fn):
        for c in ast.iter_child_nodes(n):
            c._parent = n
    cfg = CFG(fn)
    tr = fn.body[0]
    assert not cfg.dominates(tr.body[0], tr.handlers[0]), "try body must not dominate its handler"
    assert cfg.dominates(tr, fn.body[1])
    a = Poly.atom(("name", "a"))
    b = Poly.atom(("name", "b"))
    assert (a + b) * (a - b) == a * a - b * b
    assert (a / b) * b == a
    assert Poly.atom(("exp", a.key())) * Poly.atom(("exp", b.key())) == Poly.atom(("exp", (a + b).key()))
    # positive examples for the general rules whose expected count on the real tree is zero:
    # they must match here on every run (a rule that can no longer match anything passes vacuously)
    import os
    import shutil
    import tempfile

    from glint import lib
    from glint.index import Repo

    tmp = tempfile.mkdtemp(prefix="glint-fixture-")
    try:
        pkg = os.path.join(tmp, "glotaran")
        os.makedirs(pkg)
        open(os.path.join(pkg, "__init__.py"), "w").write("")
        open(os.path.join(pkg, "sample.py"), "w").write(
            "import numpy as np\n\n\n"
            "def escapes(xs):\n    out = []\n    for x in xs:\n        width = x * 2\n        out.append(x)\n    return out, width\n\n\n"
            "def stays(xs):\n    acc = 0\n    for x in xs:\n        acc += x\n    return acc\n\n\n"
            "def split(alpha, beta):\n    return np.exp(alpha * alpha) * np.exp(-2 * alpha * beta)\n\n\n"
            "def whole(alpha, beta):\n    return np.exp(alpha * (alpha - 2 * beta))\n\n\n"
            "def spelled(x, t):\n    if not x:\n        y = 1\n    else:\n        y = 2\n    _t = abs(y)\n    z = max(_t, t)\n    return 0 < z\n"
        )
        repo = Repo(tmp)
        q = {fi.name: fi for fi in repo.functions.values()}
        assert [v for _, v, _ in lib.loop_escapes(q["escapes"], repo)] == ["width"], "loop-escape rule lost its positive example"
        assert lib.loop_escapes(q["stays"], repo) == [], "loop-escape rule fires on an accumulator"
        assert len(lib.overflowing_exponentials(q["split"], repo)[1]) == 1, "positive-definite-exponent rule lost its positive example"
        assert lib.overflowing_exponentials(q["whole"], repo)[1] == [], "positive-definite-exponent rule fires on the complete exponent"
        txt = lib.xfn(q["spelled"], repo)
        assert "if x:" in txt and "max(abs(y), t) > 0" in txt, f"canonical forms / look-through changed: {txt}"
    finally:
        shutil.rmtree(tmp, ignore_errors=True)
    print("glint fixtures: ok")
    return 0


if __name__ == "__main__":
    sys.exit(main())
