"""Setup-time self check of the engine on tiny fixtures (no access to /repo needed)."""

from __future__ import annotations

import ast
import sys

from glint.cfg import CFG
from glint.terms import Poly


def main() -> int:
    src = '''
def f(x, flag):
    try:
        y = g(x)
    except Exception as e:
        if flag:
            raise e
        y = 0
    return y
'''
    fn = ast.parse(src).body[0]
    for n in ast.walk(fn):
        for c in ast.iter_child_nodes(n):
            c._parent = n
    cfg = CFG(fn)
    tr = fn.body[0]
    assert not cfg.dominates(tr.body[0], tr.handlers[0]), "try body must not dominate its handler"
    assert cfg.dominates(tr, fn.body[1])
    a = Poly.atom(("name", "a"))
    b = Poly.atom(("name", "b"))
    assert (a + b) * (a - b) == a * a - b * b
    assert (a / b) * b == a
    assert Poly.atom(("exp", a.key())) * Poly.atom(("exp", b.key())) == Poly.atom(("exp", (a + b).key()))
    print("glint fixtures: ok")
    return 0


if __name__ == "__main__":
    sys.exit(main())
