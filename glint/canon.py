"""Canonical forms for constructs that have several behaviour-identical spellings.

Applied to every module tree right after parsing (before indexing, alpha-normalisation and any
rule).  Each rewrite is semantics preserving for *every* program, so a rule written against the
canonical spelling decides the same property for every spelling:

* ``if not c: B else: A``          ->  ``if c: A else: B``   (only when there is an else branch;
                                        ``elif`` chains are nested ``If`` nodes and are handled
                                        bottom-up);
* ``K < x`` / ``K > x`` ...          ->  the constant-like operand (number, signed number, string,
                                        None) moves to the right with the mirrored operator;
* ``a > b`` / ``a >= b``            ->  ``b < a`` / ``b <= a`` when neither operand is constant-like
                                        (both operands side-effect free: names, attributes,
                                        subscripts of those, constants, unary operators on those).

* ``x: T = e`` on a plain local name inside a function  ->  ``x = e`` (annotations of locals are never
  evaluated; the annotation is kept on the node as ``_annotation`` for the type environment);
* ``pass`` statements are dropped from bodies that contain anything else;
* ``if c: A else: B`` where ``A`` always leaves (ends in return / raise / continue / break)  ->
  ``if c: A`` followed by ``B`` (the classic "no else after return" form; both have the same paths).

Only single-operator comparisons are touched; chained comparisons, ``==``, ``!=``, ``is``, ``in``
are left alone.  Positions of moved nodes are kept, so reports still point at the source line.
"""

from __future__ import annotations

import ast

MIRROR = {ast.Lt: ast.Gt, ast.Gt: ast.Lt, ast.LtE: ast.GtE, ast.GtE: ast.LtE}


def pure(e: ast.AST) -> bool:
    if isinstance(e, (ast.Name, ast.Constant)):
        return True
    if isinstance(e, ast.Attribute):
        return pure(e.value)
    if isinstance(e, ast.Subscript):
        return pure(e.value) and pure(e.slice)
    if isinstance(e, ast.UnaryOp):
        return pure(e.operand)
    if isinstance(e, ast.Tuple):
        return all(pure(x) for x in e.elts)
    if isinstance(e, ast.Slice):
        return all(x is None or pure(x) for x in (e.lower, e.upper, e.step))
    return False


def constant_like(e: ast.AST) -> bool:
    if isinstance(e, ast.Constant):
        return True
    return isinstance(e, ast.UnaryOp) and isinstance(e.op, (ast.USub, ast.UAdd)) and isinstance(e.operand, ast.Constant)


class Canon(ast.NodeTransformer):
    def __init__(self):
        self.count = 0
        self.fn_depth = 0

    def _function(self, node):
        self.fn_depth += 1
        self.generic_visit(node)
        self.fn_depth -= 1
        self._strip_pass(node)
        self._flatten_else(node)
        return node

    visit_FunctionDef = _function
    visit_AsyncFunctionDef = _function

    def visit_ClassDef(self, node):
        saved, self.fn_depth = self.fn_depth, 0
        self.generic_visit(node)
        self.fn_depth = saved
        return node

    def visit_AnnAssign(self, node: ast.AnnAssign):
        self.generic_visit(node)
        if self.fn_depth and node.value is not None and isinstance(node.target, ast.Name):
            self.count += 1
            new = ast.copy_location(ast.Assign(targets=[node.target], value=node.value, type_comment=None), node)
            new._annotation = node.annotation  # type: ignore[attr-defined]
            return new
        return node

    @staticmethod
    def _leaves(block) -> bool:
        return bool(block) and isinstance(block[-1], (ast.Return, ast.Raise, ast.Continue, ast.Break))

    def _flatten_else(self, node):
        """``if c: ...return`` + else branch -> the else branch follows the if."""
        for fld in ("body", "orelse", "finalbody"):
            b = getattr(node, fld, None)
            if not (isinstance(b, list) and b and isinstance(b[0], ast.stmt)):
                continue
            out, changed = [], False
            for st in b:
                if isinstance(st, ast.If) and st.orelse and self._leaves(st.body):
                    tail, st.orelse = st.orelse, []
                    out.append(st)
                    out.extend(tail)
                    changed = True
                    self.count += 1
                else:
                    out.append(st)
            if changed:
                # newly exposed ifs of an elif chain are handled by repeating until stable
                setattr(node, fld, out)
                self._flatten_else(node)
                return

    def _strip_pass(self, node):
        for fld in ("body", "orelse", "finalbody"):
            b = getattr(node, fld, None)
            if isinstance(b, list) and len(b) > 1 and any(isinstance(x, ast.Pass) for x in b):
                kept = [x for x in b if not isinstance(x, ast.Pass)] or [b[0]]
                self.count += len(b) - len(kept)
                setattr(node, fld, kept)

    def generic_visit(self, node):
        super().generic_visit(node)
        if isinstance(node, (ast.If, ast.For, ast.AsyncFor, ast.While, ast.With, ast.AsyncWith, ast.Try, ast.ExceptHandler, ast.match_case)):
            self._strip_pass(node)
            if self.fn_depth:
                self._flatten_else(node)
        return node

    def visit_If(self, node: ast.If):
        self.generic_visit(node)
        if not node.orelse:
            return node
        negated = isinstance(node.test, ast.UnaryOp) and isinstance(node.test.op, ast.Not)
        if self._leaves(node.body):
            return node  # guard form already; the else branch is hoisted by the enclosing body
        if self.fn_depth and self._leaves(node.orelse):
            # the leaving branch becomes the guard: ``if c: A else: return``  ->  ``if not c: return`` + A
            self.count += 1
            test = node.test.operand if negated else ast.copy_location(ast.UnaryOp(op=ast.Not(), operand=node.test), node.test)
            return ast.copy_location(ast.If(test=test, body=node.orelse, orelse=node.body), node)
        if negated:
            self.count += 1
            return ast.copy_location(ast.If(test=node.test.operand, body=node.orelse, orelse=node.body), node)
        return node

    def visit_Compare(self, node: ast.Compare):
        self.generic_visit(node)
        if len(node.ops) != 1 or type(node.ops[0]) not in MIRROR:
            return node
        left, right = node.left, node.comparators[0]
        if not (pure(left) and pure(right)):
            return node
        lc, rc = constant_like(left), constant_like(right)
        flip = (lc and not rc) or (not lc and not rc and isinstance(node.ops[0], (ast.Gt, ast.GtE)))
        if not flip:
            return node
        self.count += 1
        return ast.copy_location(ast.Compare(left=right, ops=[MIRROR[type(node.ops[0])]()], comparators=[left]), node)


def canonicalise(tree: ast.Module) -> int:
    c = Canon()
    c.visit(tree)
    ast.fix_missing_locations(tree)
    return c.count
