"""Canonical forms for constructs that have several behaviour-identical spellings.

Applied to every module tree right after parsing (before indexing, alpha-normalisation and any
rule).  Each rewrite is semantics preserving for *every* program, so a rule written against the
canonical spelling decides the same property for every spelling:

* ``if not c: B else: A``          ->  ``if c: A else: B``   (only when there is an else branch;
                                        ``elif`` chains are nested ``If`` nodes and are handled
                                        bottom-up);
* ``K < x`` / ``K > x`` ...          ->  the constant-like operand (number, signed number, string,
                                        None) moves to the right with the mirrored operator;
* ``a > b`` / ``a >= b``            ->  ``b < a`` / ``b <= a`` when neither operand is constant-like
                                        (both operands side-effect free: names, attributes,
                                        subscripts of those, constants, unary operators on those).

Only single-operator comparisons are touched; chained comparisons, ``==``, ``!=``, ``is``, ``in``
are left alone.  Positions of moved nodes are kept, so reports still point at the source line.
"""

from __future__ import annotations

import ast

MIRROR = {ast.Lt: ast.Gt, ast.Gt: ast.Lt, ast.LtE: ast.GtE, ast.GtE: ast.LtE}


def pure(e: ast.AST) -> bool:
    if isinstance(e, (ast.Name, ast.Constant)):
        return True
    if isinstance(e, ast.Attribute):
        return pure(e.value)
    if isinstance(e, ast.Subscript):
        return pure(e.value) and pure(e.slice)
    if isinstance(e, ast.UnaryOp):
        return pure(e.operand)
    if isinstance(e, ast.Tuple):
        return all(pure(x) for x in e.elts)
    if isinstance(e, ast.Slice):
        return all(x is None or pure(x) for x in (e.lower, e.upper, e.step))
    return False


def constant_like(e: ast.AST) -> bool:
    if isinstance(e, ast.Constant):
        return True
    return isinstance(e, ast.UnaryOp) and isinstance(e.op, (ast.USub, ast.UAdd)) and isinstance(e.operand, ast.Constant)


class Canon(ast.NodeTransformer):
    def __init__(self):
        self.count = 0

    def visit_If(self, node: ast.If):
        self.generic_visit(node)
        if node.orelse and isinstance(node.test, ast.UnaryOp) and isinstance(node.test.op, ast.Not):
            self.count += 1
            return ast.copy_location(ast.If(test=node.test.operand, body=node.orelse, orelse=node.body), node)
        return node

    def visit_Compare(self, node: ast.Compare):
        self.generic_visit(node)
        if len(node.ops) != 1 or type(node.ops[0]) not in MIRROR:
            return node
        left, right = node.left, node.comparators[0]
        if not (pure(left) and pure(right)):
            return node
        lc, rc = constant_like(left), constant_like(right)
        flip = (lc and not rc) or (not lc and not rc and isinstance(node.ops[0], (ast.Gt, ast.GtE)))
        if not flip:
            return node
        self.count += 1
        return ast.copy_location(ast.Compare(left=right, ops=[MIRROR[type(node.ops[0])]()], comparators=[left]), node)


def canonicalise(tree: ast.Module) -> int:
    c = Canon()
    c.visit(tree)
    ast.fix_missing_locations(tree)
    return c.count
