"""A1 - source index: modules, classes, functions, imports, MRO, decorators.

The index is built from the *working tree* below ``root`` on every run.  The
analysed universe is every ``glotaran/**/*.py`` which is not a test module.
"""

from __future__ import annotations

import ast
import hashlib
import os
from dataclasses import dataclass
from dataclasses import field


class AnalysisError(Exception):
    """The analysis itself cannot be carried out (anchor vanished, parse error ...).

    Always leads to exit code 2, never to a verdict.
    """


def is_test_path(rel: str) -> bool:
    parts = rel.split("/")
    base = parts[-1]
    return (
        "test" in parts[:-1]
        or "tests" in parts[:-1]
        or base.startswith("test_")
        or base == "conftest.py"
    )


def norm(node: ast.AST | str) -> str:
    """Normalised text of a construct (position independent)."""
    if isinstance(node, str):
        return node
    try:
        return ast.unparse(node)
    except Exception:  # pragma: no cover
        return ast.dump(node)


def short(node: ast.AST | str, n: int = 110) -> str:
    s = " ".join(norm(node).split())
    return s if len(s) <= n else s[: n - 3] + "..."


@dataclass
class ModuleInfo:
    name: str  # dotted
    rel: str  # path relative to root
    source: str
    tree: ast.Module
    imports: dict[str, str] = field(default_factory=dict)  # local name -> dotted target
    functions: dict[str, "FunctionInfo"] = field(default_factory=dict)  # top level
    classes: dict[str, "ClassInfo"] = field(default_factory=dict)
    assigns: dict[str, ast.AST] = field(default_factory=dict)  # top level NAME = value
    is_package: bool = False


@dataclass
class FunctionInfo:
    qualname: str  # module.Class.func or module.func
    name: str
    node: ast.FunctionDef
    module: ModuleInfo
    cls: "ClassInfo | None" = None
    parent: "FunctionInfo | None" = None  # for nested functions

    @property
    def rel(self) -> str:
        return self.module.rel

    @property
    def short(self) -> str:
        """Class.func or func."""
        return self.qualname[len(self.module.name) + 1 :]

    @property
    def decorators(self) -> list[ast.expr]:
        return self.node.decorator_list

    def decorator_names(self) -> list[str]:
        out = []
        for d in self.decorators:
            f = d.func if isinstance(d, ast.Call) else d
            out.append(norm(f))
        return out

    def is_static(self) -> bool:
        return "staticmethod" in self.decorator_names()

    def is_classmethod(self) -> bool:
        return "classmethod" in self.decorator_names()

    def is_property(self) -> bool:
        return any(n == "property" or n.endswith(".setter") for n in self.decorator_names())

    def params(self) -> list[str]:
        a = self.node.args
        return [x.arg for x in a.posonlyargs + a.args + a.kwonlyargs]

    def loc(self, node: ast.AST | None = None) -> str:
        n = node if node is not None else self.node
        return f"{self.rel}:{getattr(n, 'lineno', self.node.lineno)}"


@dataclass
class ClassInfo:
    qualname: str
    name: str
    node: ast.ClassDef
    module: ModuleInfo
    bases: list[str] = field(default_factory=list)  # resolved dotted names (or raw text)
    methods: dict[str, FunctionInfo] = field(default_factory=dict)
    annotations: dict[str, ast.expr] = field(default_factory=dict)  # class level x: T
    class_assigns: dict[str, ast.AST] = field(default_factory=dict)

    def decorator_names(self) -> list[str]:
        out = []
        for d in self.node.decorator_list:
            f = d.func if isinstance(d, ast.Call) else d
            out.append(norm(f))
        return out

    @property
    def rel(self) -> str:
        return self.module.rel


def set_parents(tree: ast.AST) -> None:
    for node in ast.walk(tree):
        for child in ast.iter_child_nodes(node):
            child._parent = node  # type: ignore[attr-defined]


def parent(node: ast.AST) -> ast.AST | None:
    return getattr(node, "_parent", None)


def enclosing(node: ast.AST, kinds) -> ast.AST | None:
    p = parent(node)
    while p is not None and not isinstance(p, kinds):
        p = parent(p)
    return p


class Repo:
    """Index of the analysed universe."""

    def __init__(self, root: str, package: str = "glotaran"):
        self.root = root
        self.package = package
        self.modules: dict[str, ModuleInfo] = {}
        self.by_rel: dict[str, ModuleInfo] = {}
        self.functions: dict[str, FunctionInfo] = {}
        self.classes: dict[str, ClassInfo] = {}
        self.consulted: set[str] = set()
        self._load()
        self._link()

    # ------------------------------------------------------------------ loading
    def _load(self) -> None:
        pkg_root = os.path.join(self.root, self.package)
        if not os.path.isdir(pkg_root):
            raise AnalysisError(f"package directory {pkg_root} not found")
        for dirpath, dirnames, filenames in os.walk(pkg_root):
            dirnames.sort()
            for fn in sorted(filenames):
                if not fn.endswith(".py"):
                    continue
                full = os.path.join(dirpath, fn)
                rel = os.path.relpath(full, self.root).replace(os.sep, "/")
                if is_test_path(rel):
                    continue
                with open(full, encoding="utf-8") as fh:
                    src = fh.read()
                try:
                    tree = ast.parse(src, filename=rel)
                except SyntaxError as e:
                    raise AnalysisError(f"cannot parse {rel}: {e}") from e
                if not os.environ.get("GLINT_NO_CANON"):
                    from glint.canon import canonicalise

                    self.canonicalised = getattr(self, "canonicalised", 0) + canonicalise(tree)
                set_parents(tree)
                is_pkg = fn == "__init__.py"
                modname = rel[:-3].replace("/", ".")
                if is_pkg:
                    modname = modname[: -len(".__init__")]
                mi = ModuleInfo(modname, rel, src, tree, is_package=is_pkg)
                self.modules[modname] = mi
                self.by_rel[rel] = mi
        for mi in self.modules.values():
            self._index_module(mi)
        self.alpha_normalised = 0
        if not os.environ.get("GLINT_NO_ALPHA"):
            from glint.alpha import normalise

            for q, fi in self.functions.items():
                if fi.parent is None and normalise(q, fi.node):
                    self.alpha_normalised += 1

    def _index_module(self, mi: ModuleInfo) -> None:
        for node in ast.walk(mi.tree):
            if isinstance(node, ast.Import):
                for a in node.names:
                    mi.imports[a.asname or a.name.split(".")[0]] = (
                        a.name if a.asname else a.name.split(".")[0]
                    )
            elif isinstance(node, ast.ImportFrom):
                base = node.module or ""
                if node.level:
                    pkg = mi.name if mi.is_package else mi.name.rsplit(".", 1)[0]
                    for _ in range(node.level - 1):
                        pkg = pkg.rsplit(".", 1)[0]
                    base = f"{pkg}.{base}" if base else pkg
                for a in node.names:
                    mi.imports[a.asname or a.name] = f"{base}.{a.name}"
        for node in mi.tree.body:
            self._index_stmt(mi, node, None, None)

    def _index_stmt(self, mi, node, cls, parent_fn) -> None:
        if isinstance(node, (ast.FunctionDef, ast.AsyncFunctionDef)):
            if cls is not None and parent_fn is None:
                qn = f"{cls.qualname}.{node.name}"
            elif parent_fn is not None:
                qn = f"{parent_fn.qualname}.<locals>.{node.name}"
            else:
                qn = f"{mi.name}.{node.name}"
            fi = FunctionInfo(qn, node.name, node, mi, cls if parent_fn is None else None, parent_fn)
            # property setter / overloads share a name: keep the first, index the others too
            key = qn
            k = 2
            while key in self.functions:
                key = f"{qn}#{k}"
                k += 1
            fi.qualname = key
            self.functions[key] = fi
            if cls is not None and parent_fn is None:
                cls.methods.setdefault(node.name, fi)
            elif parent_fn is None:
                mi.functions.setdefault(node.name, fi)
            for sub in ast.walk(node):
                if sub is node:
                    continue
                if isinstance(sub, (ast.FunctionDef, ast.AsyncFunctionDef)):
                    if enclosing(sub, (ast.FunctionDef, ast.AsyncFunctionDef, ast.ClassDef)) is node:
                        self._index_stmt(mi, sub, None, fi)
        elif isinstance(node, ast.ClassDef):
            qn = f"{cls.qualname}.{node.name}" if cls else f"{mi.name}.{node.name}"
            ci = ClassInfo(qn, node.name, node, mi)
            self.classes[qn] = ci
            if cls is None:
                mi.classes[node.name] = ci
            for sub in node.body:
                if isinstance(sub, ast.AnnAssign) and isinstance(sub.target, ast.Name):
                    ci.annotations[sub.target.id] = sub.annotation
                    if sub.value is not None:
                        ci.class_assigns[sub.target.id] = sub.value
                elif isinstance(sub, ast.Assign):
                    for t in sub.targets:
                        if isinstance(t, ast.Name):
                            ci.class_assigns[t.id] = sub.value
                self._index_stmt(mi, sub, ci, None)
        elif isinstance(node, ast.Assign) and cls is None and parent_fn is None:
            for t in node.targets:
                if isinstance(t, ast.Name):
                    mi.assigns[t.id] = node.value
        elif isinstance(node, ast.AnnAssign) and cls is None and parent_fn is None:
            if isinstance(node.target, ast.Name) and node.value is not None:
                mi.assigns[node.target.id] = node.value
        elif isinstance(node, (ast.If, ast.Try, ast.With)) and cls is None and parent_fn is None:
            # e.g. ``if TYPE_CHECKING:`` blocks hold nothing we index besides imports
            for sub in ast.iter_child_nodes(node):
                if isinstance(sub, ast.stmt):
                    self._index_stmt(mi, sub, cls, parent_fn)

    def _link(self) -> None:
        for ci in self.classes.values():
            ci.bases = [self.resolve_expr(ci.module, b) or norm(b) for b in ci.node.bases]

    # ---------------------------------------------------------------- resolution
    def resolve_dotted(self, dotted: str, _depth: int = 0) -> str | None:
        """Follow re-exports: dotted name -> qualname of a function/class/module."""
        if _depth > 8:
            return None
        if dotted in self.functions or dotted in self.classes or dotted in self.modules:
            return dotted
        if "." not in dotted:
            return None
        head, tail = dotted.rsplit(".", 1)
        rhead = self.resolve_dotted(head, _depth + 1)
        if rhead is None:
            return None
        if rhead in self.modules:
            mi = self.modules[rhead]
            if tail in mi.functions:
                return mi.functions[tail].qualname
            if tail in mi.classes:
                return mi.classes[tail].qualname
            if tail in mi.imports:
                return self.resolve_dotted(mi.imports[tail], _depth + 1)
            if tail in mi.assigns:
                return f"{rhead}.{tail}"
            sub = f"{rhead}.{tail}"
            if sub in self.modules:
                return sub
            return None
        if rhead in self.classes:
            m = self.find_method(rhead, tail)
            if m is not None:
                return m.qualname
            return f"{rhead}.{tail}"
        return None

    def resolve_name(self, mi: ModuleInfo, name: str) -> str | None:
        """Resolve a bare name used in module ``mi`` to a qualified name.

        Repo symbols resolve to their definition; external names resolve to the dotted
        import path (e.g. ``np`` -> ``numpy``).
        """
        if name in mi.functions:
            return mi.functions[name].qualname
        if name in mi.classes:
            return mi.classes[name].qualname
        if name in mi.imports:
            target = mi.imports[name]
            return self.resolve_dotted(target) or target
        if name in mi.assigns:
            return f"{mi.name}.{name}"
        return None

    def resolve_expr(self, mi: ModuleInfo, expr: ast.AST) -> str | None:
        """Resolve ``a.b.c`` / ``name`` to a dotted qualified name."""
        if isinstance(expr, ast.Name):
            return self.resolve_name(mi, expr.id)
        if isinstance(expr, ast.Attribute):
            base = self.resolve_expr(mi, expr.value)
            if base is None:
                return None
            full = f"{base}.{expr.attr}"
            return self.resolve_dotted(full) or full
        if isinstance(expr, ast.Subscript):  # Generic[T]
            return self.resolve_expr(mi, expr.value)
        return None

    # ------------------------------------------------------------------- classes
    def mro(self, cls_qn: str) -> list[str]:
        out: list[str] = []

        def visit(q: str) -> None:
            if q in out:
                return
            out.append(q)
            ci = self.classes.get(q)
            if ci is None:
                return
            for b in ci.bases:
                visit(b)

        visit(cls_qn)
        return out  # depth first is sufficient for the single-inheritance trees in this repo

    def find_method(self, cls_qn: str, name: str) -> FunctionInfo | None:
        for q in self.mro(cls_qn):
            ci = self.classes.get(q)
            if ci is not None and name in ci.methods:
                return ci.methods[name]
        return None

    def subclasses(self, cls_qn: str, strict: bool = True) -> list[str]:
        out = []
        for q in self.classes:
            if q == cls_qn and strict:
                continue
            if cls_qn in self.mro(q):
                out.append(q)
        return sorted(out)

    def class_annotation(self, cls_qn: str, attr: str) -> tuple[ast.expr, ClassInfo] | None:
        for q in self.mro(cls_qn):
            ci = self.classes.get(q)
            if ci is not None and attr in ci.annotations:
                return ci.annotations[attr], ci
        return None

    # ------------------------------------------------------------------- anchors
    def module(self, rel: str) -> ModuleInfo:
        self.consulted.add(rel)
        mi = self.by_rel.get(rel)
        if mi is None:
            raise AnalysisError(f"anchor module vanished: {rel}")
        return mi

    def fn(self, rel: str, short: str) -> FunctionInfo:
        """Anchor lookup: ``fn('glotaran/x/y.py', 'Class.method')``; vanished => AnalysisError."""
        mi = self.module(rel)
        qn = f"{mi.name}.{short}"
        fi = self.functions.get(qn)
        if fi is None:
            raise AnalysisError(f"anchor function vanished: {rel}::{short}")
        return fi

    def fn_opt(self, rel: str, short: str) -> FunctionInfo | None:
        mi = self.by_rel.get(rel)
        if mi is None:
            return None
        self.consulted.add(rel)
        return self.functions.get(f"{mi.name}.{short}")

    def cls(self, rel: str, name: str) -> ClassInfo:
        mi = self.module(rel)
        ci = self.classes.get(f"{mi.name}.{name}")
        if ci is None:
            raise AnalysisError(f"anchor class vanished: {rel}::{name}")
        return ci

    def functions_in(self, prefix: str) -> list[FunctionInfo]:
        """All functions whose file path starts with ``prefix`` (a directory or file)."""
        out = []
        for fi in self.functions.values():
            if fi.rel.startswith(prefix):
                self.consulted.add(fi.rel)
                out.append(fi)
        return out

    def digest(self) -> str:
        h = hashlib.sha256()
        for rel in sorted(self.by_rel):
            h.update(rel.encode())
            h.update(self.by_rel[rel].source.encode())
        return h.hexdigest()

    def stats(self) -> dict:
        return {
            "modules": len(self.modules),
            "classes": len(self.classes),
            "functions": len(self.functions),
            "lines": sum(m.source.count("\n") + 1 for m in self.modules.values()),
        }


# ----------------------------------------------------------------------- helpers
def walk_no_nested(node: ast.AST):
    """Walk a function body without descending into nested function/class definitions."""
    stack = list(ast.iter_child_nodes(node))
    while stack:
        n = stack.pop()
        yield n
        if isinstance(n, (ast.FunctionDef, ast.AsyncFunctionDef, ast.ClassDef, ast.Lambda)):
            continue
        stack.extend(ast.iter_child_nodes(n))


def calls_in(node: ast.AST, nested: bool = False):
    it = ast.walk(node) if nested else walk_no_nested(node)
    for n in it:
        if isinstance(n, ast.Call):
            yield n


def stmt_of(node: ast.AST) -> ast.stmt | None:
    n = node
    while n is not None and not isinstance(n, ast.stmt):
        n = parent(n)
    return n  # type: ignore[return-value]


def call_name(call: ast.Call) -> str:
    return norm(call.func)


def kwarg(call: ast.Call, name: str) -> ast.expr | None:
    for k in call.keywords:
        if k.arg == name:
            return k.value
    return None


def const_value(node: ast.AST):
    if isinstance(node, ast.Constant):
        return node.value
    if isinstance(node, ast.UnaryOp) and isinstance(node.op, ast.USub):
        v = const_value(node.operand)
        if isinstance(v, (int, float)):
            return -v
    raise ValueError("not a constant")


def is_const(node: ast.AST, value=None) -> bool:
    try:
        v = const_value(node)
    except ValueError:
        return False
    return True if value is None else (v == value and type(v) is type(value))
